"""Differential demonstration for property C18
("a run that aborts still leaves a truthful, readable record").

Run with cwd = an empty scratch directory and PYTHONPATH = the csvpath
checkout under test.  The script is self contained: it writes its own offline
config, data files and csvpaths, drives CsvPaths through every serial and
breadth-first run method with an abort injected at a chosen (member, line)
point, and prints a deterministic transcript of everything observable:
the exception chain seen by the caller, lines returned, the in-memory
results (validity, variables, errors with line numbers, printouts, lines,
unmatched), the full normalised content of ./archive and of the named-files
and named-paths stores, then the same after one further run on the same
CsvPaths instance.
"""
import hashlib
import io
import json
import os
import re
import shutil
import sys
from contextlib import redirect_stdout

if os.environ.get("PYTHONHASHSEED") != "0":
    # the parser's "Expected one of" lists are printed in set order. pin the
    # string hash seed so that the transcript is reproducible.
    os.environ["PYTHONHASHSEED"] = "0"
    os.execv(sys.executable, [sys.executable] + sys.argv)

CONFIG = """[csvpath_files]
extensions = txt, csvpath, csvpaths

[csv_files]
extensions = txt, csv, tsv, dat, tab, psv, ssv

[errors]
csvpath = {csvpath_policy}
csvpaths = {csvpaths_policy}

[logging]
csvpath = info
csvpaths = info
log_file = logs/csvpath.log
log_files_to_keep = 100
log_file_size = 52428800

[config]
path = config/config.ini

[cache]
path = cache

[listeners]
[marquez]
base_url = http://localhost:5000

[functions]
imports = config/functions.imports

[results]
archive = archive
transfers = transfers

[inputs]
files = inputs/named_files
csvpaths = inputs/named_paths
on_unmatched_file_fingerprints = halt
"""

ROOT = os.getcwd()
OUT = sys.stdout

# ---------------------------------------------------------------- normalising

TS_DIR = re.compile(r"\d{4}-\d{2}-\d{2}_\d{2}-\d{2}-\d{2}(?:\.\d+)?")
ISO = re.compile(r"\d{4}-\d{2}-\d{2}[T ]\d{2}:\d{2}:\d{2}(?:\.\d+)?(?:\+00:00)?")
UUID = re.compile(
    r"[0-9a-f]{8}-[0-9a-f]{4}-[0-9a-f]{4}-[0-9a-f]{4}-[0-9a-f]{12}", re.I
)
ADDR = re.compile(r"0x[0-9a-fA-F]+")
CTIME = re.compile(r"[A-Z][a-z]{2} [A-Z][a-z]{2} [ \d]\d \d{2}:\d{2}:\d{2} \d{4}")
TRACE_LINE = re.compile(r'File "[^"]*?(csvpath/[^"]*|[^"/]+)", line \d+, in')
FRAME = re.compile(r'File "([^"]+)", line N, in (\S+)')


class RunNames:
    """maps the timestamped run directory names to RUN1, RUN2... in creation
    order. <time> sorts before <time>.0 before <later time> so lexical order
    is creation order for the handful of runs we make per scenario."""

    def __init__(self):
        self.names = {}

    def scan(self):
        found = set()
        if os.path.isdir("archive"):
            for p in os.listdir("archive"):
                d = os.path.join("archive", p)
                if os.path.isdir(d):
                    for r in os.listdir(d):
                        if TS_DIR.fullmatch(r):
                            found.add(r)

        def key(x):
            t, dot, n = x.partition(".")
            return (t, int(n) if dot else -1)

        for r in sorted(found, key=key):
            if r not in self.names:
                self.names[r] = f"RUN{len(self.names) + 1}"

    def sub(self, s: str) -> str:
        self.scan()
        # longest first so that <time>.0 is not clobbered by <time>
        for k in sorted(self.names, key=len, reverse=True):
            s = s.replace(k, self.names[k])
        return s


def norm_trace(t):
    """a trace is reduced to its frames (file:function), source lines and the
    exception lines. line numbers are dropped: they change with any edit."""
    if t is None:
        return None
    out = []
    for ln in t.split("\n"):
        m = TRACE_LINE.search(ln)
        if m:
            ln = TRACE_LINE.sub(lambda m: f'File "{m.group(1)}", line N, in', ln)
        if set(ln.strip()) <= {"^", "~"} and ln.strip():
            continue
        out.append(ln)
    return "\n".join(out)


def norm_text(s: str, runs: RunNames) -> str:
    s = runs.sub(s)
    s = ISO.sub("<TIME>", s)
    s = UUID.sub("<UUID>", s)
    s = ADDR.sub("<ADDR>", s)
    s = CTIME.sub("<CTIME>", s)
    return s


VOLATILE_FINGERPRINTS = ("meta.json", "errors.json", "manifest.json")
VOLATILE_NUMBERS = ("lines_time", "last_line_time")


def norm_json(o, runs: RunNames, key=None):
    if isinstance(o, dict):
        d = {}
        for k, v in o.items():
            if k == "trace":
                d[k] = norm_text(norm_trace(v), runs) if v is not None else None
            elif k == "file_fingerprints" and isinstance(v, dict):
                d[k] = {
                    a: ("<FP>" if a in VOLATILE_FINGERPRINTS else b)
                    for a, b in v.items()
                }
            elif k == "run" and isinstance(v, str):
                # the member manifests name the run by its start time without
                # the .N suffix that disambiguates run dirs created within the
                # same second, so which RUNn it equals depends on the clock
                d[k] = TS_DIR.sub("<RUN-TIMESTAMP>", v)
            elif k in VOLATILE_NUMBERS and isinstance(v, (int, float)) and v != -1:
                d[k] = "<ELAPSED>"
            else:
                d[norm_text(k, runs)] = norm_json(v, runs, k)
        return d
    if isinstance(o, list):
        return [norm_json(v, runs, key) for v in o]
    if isinstance(o, str):
        return norm_text(o, runs)
    return o


def p(*a):
    print(*a, file=OUT)


def dump_tree(top: str, runs: RunNames, *, compact=False, skip=None) -> None:
    """prints every file under top with its normalised content. files whose
    path is in skip (a snapshot dict) are only checked for being unchanged."""
    if not os.path.exists(top):
        p(f"  ({top} does not exist)")
        return
    entries = []
    for root, dirs, files in os.walk(top):
        for d in dirs:
            if not os.listdir(os.path.join(root, d)):
                entries.append((runs.sub(os.path.join(root, d)) + "/", None))
        for f in files:
            entries.append((runs.sub(os.path.join(root, f)), os.path.join(root, f)))
    for shown, real in sorted(entries):
        if real is None:
            p(f"  [empty dir] {shown}")
            continue
        if skip is not None and real in skip:
            with open(real, "rb") as fh:
                same = hashlib.sha256(fh.read()).hexdigest() == skip[real]
            p(f"  [file] {shown} (from the earlier run; unchanged: {same})")
            continue
        p(f"  [file] {shown}")
        with open(real, "r", encoding="utf-8") as fh:
            raw = fh.read()
        if real.endswith(".json"):
            try:
                o = json.loads(raw)
            except Exception as ex:  # unreadable json is itself a finding
                p(f"      !! unreadable json: {type(ex).__name__}: {raw!r}")
                continue
            txt = json.dumps(
                norm_json(o, runs), indent=None if compact else 1, sort_keys=False
            )
        else:
            txt = norm_text(raw, runs)
        for ln in txt.split("\n"):
            p(f"      | {ln}")


def snapshot(top: str) -> dict:
    snap = {}
    for root, _, files in os.walk(top):
        for f in files:
            with open(os.path.join(root, f), "rb") as fh:
                snap[os.path.join(root, f)] = hashlib.sha256(fh.read()).hexdigest()
    return snap


def exc_chain(e) -> str:
    parts = []
    seen = 0
    while e is not None and seen < 6:
        parts.append(f"{type(e).__module__}.{type(e).__name__}: {e}")
        nxt = e.__cause__
        tag = "cause"
        if nxt is None and e.__context__ is not None and not e.__suppress_context__:
            nxt = e.__context__
            tag = "context"
        if nxt is not None:
            parts.append(f"<-{tag}-")
        e = nxt
        seen += 1
    return " ".join(parts)


# ---------------------------------------------------------------- inputs

FILES = {
    # plain, 6 lines, header + 5
    "plain": "100,200,300\n1,2,3\n4,5,6\n7,8,9\n10,11,12\n13,14,15\n",
    # blank lines, ragged rows, empty values, zeros, quoted delimiter. 8 lines
    "messy": '100,200,300\n1,0,3\n\n4,5\n,0,\n"7,7",8,9,10\n0,0,0\n13,14,15\n',
    # a single line, no trailing newline
    "one": "1,2,3",
    # header and one data line
    "two": "100,200,300\n0,0,\n",
}


def poison(text: str, line: int) -> str:
    """puts a non-integer in the 2nd column of physical line `line` so that
    int(#1) fails there. blank lines are given content so there is something
    to fail on; returns the new text"""
    lines = text.split("\n")
    trailing = text.endswith("\n")
    if trailing:
        lines = lines[:-1]
    cols = lines[line].split(",") if lines[line] != "" else [""]
    while len(cols) < 2:
        cols.append("")
    cols[1] = "boom"
    lines[line] = ",".join(cols)
    return "\n".join(lines) + ("\n" if trailing else "")


GOOD = [
    "~id:first~ $[*][ yes() ]",
    '~id:second~ $[*][ @n = count_lines() print("second at $.csvpath.line_number") ]',
    "~id:third~ $[1*][ #0 ]",
    "$[*][ push(\"seen\", #0) ]",
]
BOMB = '~id:bomb~ $[*][ @v = int(#1) print("bomb saw line $.csvpath.line_number") ]'


def group(size: int, member: int, bomb=BOMB):
    paths = list(GOOD[:size])
    if member is not None:
        paths[member] = bomb
    return paths


# ---------------------------------------------------------------- scenario

METHODS = [
    "collect_paths",
    "fast_forward_paths",
    "next_paths",
    "next_paths_collect",
    "collect_by_line",
    "fast_forward_by_line",
    "next_by_line",
    "next_by_line_collect_agree",
]


def call(cp, method, pathsname, filename):
    """returns what the caller of the method sees"""
    if method == "collect_paths":
        return cp.collect_paths(pathsname=pathsname, filename=filename)
    if method == "fast_forward_paths":
        return cp.fast_forward_paths(pathsname=pathsname, filename=filename)
    if method == "collect_by_line":
        return cp.collect_by_line(pathsname=pathsname, filename=filename)
    if method == "fast_forward_by_line":
        return cp.fast_forward_by_line(pathsname=pathsname, filename=filename)
    got = []
    try:
        if method == "next_paths":
            gen = cp.next_paths(pathsname=pathsname, filename=filename)
        elif method == "next_paths_collect":
            gen = cp.next_paths(pathsname=pathsname, filename=filename, collect=True)
        elif method == "next_by_line":
            gen = cp.next_by_line(pathsname=pathsname, filename=filename)
        else:
            gen = cp.next_by_line(
                pathsname=pathsname,
                filename=filename,
                collect=True,
                if_all_agree=True,
            )
        for line in gen:
            got.append(list(line))
    except Exception:
        p(f"  lines yielded before the exception: {got}")
        raise
    return got


def show_results(cp, pathsname, runs, brief=False):
    try:
        results = cp.results_manager.get_named_results(pathsname)
    except Exception as ex:
        p(f"  get_named_results raised {type(ex).__name__}")
        return
    p(f"  number of results: {len(results)}")
    for r in results:
        c = r.csvpath
        if brief:
            p(
                f"  - result {r.identity_or_index!r} run_index={r.run_index} is_valid={r.is_valid}"
                f" stopped={c.stopped} completed={c.completed} errors_count={r.errors_count}"
                f" line_number={c.line_monitor.physical_line_number} match_count={c.match_count}"
                f" len(lines)={len(r.lines)} unmatched={r.unmatched}"
                f" printouts={sum(len(v) for v in r.get_printouts().values())}"
                f" variables={json.dumps(c.variables, sort_keys=True, default=str)}"
                f" errors={[(e.line_count, norm_text(str(e.error), runs)) for e in r.errors]}"
            )
            continue
        p(f"  - result {r.identity_or_index!r} run_index={r.run_index} by_line={r.by_line}")
        p(f"      run_dir={runs.sub(r.run_dir)} instance_dir={runs.sub(r.instance_dir)}")
        p(
            f"      is_valid={r.is_valid} stopped={c.stopped} completed={c.completed}"
            f" has_errors={r.has_errors()} errors_count={r.errors_count}"
        )
        lm = c.line_monitor
        p(
            f"      line_number={lm.physical_line_number} data_line_number={lm.data_line_number}"
            f" match_count={c.match_count} scan_count={c.scan_count}"
        )
        p(f"      variables={json.dumps(c.variables, sort_keys=True, default=str)}")
        p(f"      printouts={r.get_printouts()}")
        p(f"      lines_printed={r.lines_printed} last_line={r.last_line!r}")
        try:
            lines = r.lines
            if isinstance(lines, list):
                p(f"      lines(list)={lines}")
            else:
                p(
                    f"      lines({type(lines).__name__}, closed={lines.closed},"
                    f" len={len(lines)})={[list(_) for _ in lines.next()]}"
                )
        except Exception as ex:
            p(f"      lines raised {type(ex).__name__}: {ex}")
        p(f"      unmatched={r.unmatched}")
        for e in r.errors:
            j = e.to_json()
            p(
                f"      error: line_count={j['line_count']} match_count={j['match_count']}"
                f" scan_count={j['scan_count']} filename={j['filename']}"
            )
            p(f"             error={norm_text(j['error'], runs)}")
            p(f"             source={norm_text(j['source'], runs)}")
            p(f"             message={j['message']!r} datum={j['datum']!r}")
            tr = norm_trace(j["trace"])
            if tr is not None:
                frames = [f"{a}:{b}" for a, b in FRAME.findall(tr)]
                p(f"             trace frames={' > '.join(frames)}")
                p(f"             trace last line={tr.rstrip().split(chr(10))[-1]}")
                p(
                    "             trace sha(line numbers removed)="
                    + hashlib.sha256(tr.encode()).hexdigest()[:16]
                )
            else:
                p("             trace=None")
    p(f"  CsvPaths.errors={[norm_text(str(e.error), runs) for e in cp.errors]}")
    p(f"  CsvPaths.has_errors()={cp.has_errors()}")
    #
    # the run coordination state that is left behind: after a completed run it
    # is cleared; after an aborted run it still names the aborted run
    #
    try:
        p(f"  CsvPaths.run_time_str()={runs.sub(cp.run_time_str())}")
    except Exception as ex:
        p(f"  CsvPaths.run_time_str() raised {type(ex).__name__}: {ex}")
    try:
        # when there is no run in progress this makes up the name of a new run
        # dir from the clock, so we only show its shape and that it is sticky
        a = cp.run_time_str("grp")
        known = a in runs.names or os.path.basename(a) in runs.names
        shown = runs.sub(a) if known else TS_DIR.sub("<NEW-RUN-DIR>", a)
        p(f"  CsvPaths.run_time_str('grp')={shown}")
        p(f"  CsvPaths.run_time_str() again is the same={cp.run_time_str() == a}")
    except Exception as ex:
        p(f"  CsvPaths.run_time_str('grp') raised {type(ex).__name__}: {ex}")
    t1 = cp.current_run_time
    p(
        f"  CsvPaths.current_run_time is stable={t1 is cp.current_run_time}"
        f" tz={t1.tzinfo} same as results={[r.run_time == t1 for r in results]}"
    )
    try:
        p(f"  results_manager.is_valid={cp.results_manager.is_valid(pathsname)}")
        p(f"  results_manager.has_errors={cp.results_manager.has_errors(pathsname)}")
        try:
            p(
                f"  results_manager.get_number_of_errors={cp.results_manager.get_number_of_errors(pathsname)}"
            )
        except Exception as ex:
            p(f"  results_manager.get_number_of_errors raised {type(ex).__name__}: {ex}")
        p(f"  results_manager.get_number_of_results={cp.results_manager.get_number_of_results(pathsname)}")
        p(f"  results_manager.has_lines={cp.results_manager.has_lines(pathsname)}")
        p(
            "  results_manager.get_variables="
            + json.dumps(
                cp.results_manager.get_variables(pathsname), sort_keys=True, default=str
            )
        )
    except Exception as ex:
        p(f"  results_manager summary raised {type(ex).__name__}: {ex}")


def run_once(cp, label, method, pathsname, filename, runs, brief=False):
    p(f" {label}: {method}(pathsname={pathsname!r}, filename={filename!r})")
    buf = io.StringIO()
    try:
        with redirect_stdout(buf):
            ret = call(cp, method, pathsname, filename)
        p(f"  returned: {ret}")
    except Exception as ex:  # pylint: disable=W0718
        p(f"  raised: {norm_text(exc_chain(ex), runs)}")
    out = norm_text(buf.getvalue(), runs)
    p("  stdout during the run:")
    for ln in out.split("\n"):
        p(f"      > {ln}")
    show_results(cp, pathsname, runs, brief)


def scenario(
    n,
    title,
    *,
    method,
    paths,
    data,
    followup_data=None,
    csvpath_policy="raise, collect, stop, fail, print",
    csvpaths_policy="raise, collect",
    quick=False,
):
    from csvpath import CsvPaths

    os.chdir(ROOT)
    d = os.path.join(ROOT, f"s{n:04d}")
    if os.path.exists(d):
        shutil.rmtree(d)
    os.makedirs(os.path.join(d, "config"))
    os.chdir(d)
    with open("config/config.ini", "w", encoding="utf-8") as fh:
        fh.write(
            CONFIG.format(csvpath_policy=csvpath_policy, csvpaths_policy=csvpaths_policy)
        )
    with open("config/functions.imports", "w", encoding="utf-8") as fh:
        fh.write("")
    with open("data.csv", "w", encoding="utf-8") as fh:
        fh.write(data)
    with open("good.csv", "w", encoding="utf-8") as fh:
        fh.write(followup_data if followup_data is not None else FILES["plain"])
    runs = RunNames()
    p("=" * 78)
    p(f"SCENARIO {n}: {title}")
    p(f" method={method} csvpath_policy=[{csvpath_policy}] csvpaths_policy=[{csvpaths_policy}]")
    p(f" data={data!r}")
    for i, _ in enumerate(paths):
        p(f" path[{i}]={_}")
    setup = io.StringIO()
    with redirect_stdout(setup):
        cp = CsvPaths()
        cp.file_manager.add_named_file(name="data", path="data.csv")
        cp.file_manager.add_named_file(name="good", path="good.csv")
        cp.paths_manager.add_named_paths(name="grp", paths=paths)
    before = snapshot("inputs")
    run_once(cp, "RUN", method, "grp", "data", runs)
    p(" archive after the run:")
    dump_tree("archive", runs, compact=quick)
    after = snapshot("inputs")
    p(f" inputs store byte-identical after the run: {before == after}")
    if not quick:
        p(" inputs store:")
        dump_tree("inputs", runs)
    first = snapshot("archive")
    # the top manifest is appended to by every run
    first.pop(os.path.join("archive", "manifest.json"), None)
    #
    # one further run on the same instance, over a file with no poison
    #
    run_once(cp, "FOLLOW-UP", method, "grp", "good", runs, brief=quick)
    p(" archive after the follow-up run:")
    dump_tree("archive", runs, compact=quick, skip=first)
    p(f" inputs store byte-identical after follow-up: {before == snapshot('inputs')}")
    p(f" top-level dirs: {sorted(os.listdir('.'))}")
    os.chdir(ROOT)
    shutil.rmtree(d)


def main():
    n = 0
    #
    # 1. the quantifier of the property: every member index in groups of 1-4,
    #    abort lines first / middle / last (and "never"), every run method.
    #
    for method in METHODS:
        if method in ("next_paths_collect", "next_by_line_collect_agree"):
            # these variants are covered by sections 2-5
            continue
        for size in (1, 2, 3, 4):
            for member in range(size):
                for fname, line in (
                    ("plain", 0),
                    ("plain", 3),
                    ("messy", 4),
                    ("messy", 7),
                ):
                    # keep the transcript a sane size: the full cross product
                    # is run for 2- and 3-member groups; 1 and 4 take two points
                    if size in (1, 4) and (fname, line) in (("plain", 0), ("messy", 4)):
                        continue
                    n += 1
                    scenario(
                        n,
                        f"abort in member {member} of {size} at line {line} of '{fname}'",
                        method=method,
                        paths=group(size, member),
                        data=poison(FILES[fname], line),
                        quick=True,
                    )
    #
    # 2. edge files: single line, header + one line of empties/zero, abort on
    #    a line that was blank in the original
    #
    for method in METHODS:
        for fname, line in (("one", 0), ("two", 1), ("messy", 2)):
            n += 1
            scenario(
                n,
                f"edge file '{fname}' abort at line {line}, member 1 of 2",
                method=method,
                paths=group(2, 1),
                data=poison(FILES[fname], line),
                followup_data=FILES["messy"],
            )
    #
    # 3. no abort at all: unpoisoned data, and poisoned data under policies
    #    that do not raise
    #
    for method in METHODS:
        n += 1
        scenario(
            n,
            "no poison, nothing aborts",
            method=method,
            paths=group(3, 1),
            data=FILES["messy"],
        )
        n += 1
        scenario(
            n,
            "poison at line 3 but csvpath policy does not raise",
            method=method,
            paths=group(3, 1),
            data=poison(FILES["plain"], 3),
            csvpath_policy="collect, print",
        )
        n += 1
        scenario(
            n,
            "poison at line 3, policy raises but member overrides with validation-mode",
            method=method,
            paths=group(
                3,
                2,
                bomb="~id:quiet validation-mode:no-raise, no-stop, collect, print~ $[*][ @v = int(#1) ]",
            ),
            data=poison(FILES["plain"], 3),
        )
        n += 1
        scenario(
            n,
            "poison at line 3, quiet policy with raise only (no collect)",
            method=method,
            paths=group(2, 0),
            data=poison(FILES["plain"], 3),
            csvpath_policy="raise, quiet",
            csvpaths_policy="raise",
        )
    #
    # 4. failure at load time (a member that does not parse) and a failure in
    #    a function rather than in argument validation
    #
    for method in METHODS:
        n += 1
        scenario(
            n,
            "member 1 of 3 does not parse",
            method=method,
            paths=group(3, 1, bomb="~id:broken~ $[*][ yes( ]"),
            data=FILES["plain"],
        )
        n += 1
        scenario(
            n,
            "member 1 of 3 does not parse, no raise anywhere",
            method=method,
            paths=group(3, 1, bomb="~id:broken~ $[*][ yes( ]"),
            data=FILES["plain"],
            csvpath_policy="collect",
            csvpaths_policy="collect",
        )
        n += 1
        scenario(
            n,
            "member 0 of 2 fails inside a function at line 2",
            method=method,
            paths=group(
                2,
                0,
                bomb='~id:fn~ $[*][ line_number() == 2 -> @d = divide(#0, 0) @m = mod(#2, 0) ]',
            ),
            data=FILES["plain"],
        )
    #
    # 5. the run-coordination signals and collect-when-not-matched, so that the
    #    loops around the abort handling are exercised on their other branches
    #
    coordinated = [
        ("stop_all at line 2", '~id:sig~ $[*][ line_number() == 2 -> stop_all() ]'),
        ("fail_all at line 1", '~id:sig~ $[*][ line_number() == 1 -> fail_all() ]'),
        ("skip_all on line 2", '~id:sig~ $[*][ line_number() == 2 -> skip_all() ]'),
        ("advance_all(2) at line 1", '~id:sig~ $[*][ line_number() == 1 -> advance_all(2) ]'),
    ]
    for method in METHODS:
        for title, sig in coordinated:
            n += 1
            scenario(
                n,
                f"{title}, then a later member aborts at line 4",
                method=method,
                paths=[sig, GOOD[1], BOMB, GOOD[2]],
                data=poison(FILES["plain"], 4),
                quick=True,
            )
    #
    # 6. the run-coordination signals on their own, nothing aborts; two
    #    signalling members; and signals under a policy that does not raise
    #
    for method in METHODS:
        for title, sig in coordinated:
            n += 1
            scenario(
                n,
                f"{title}, nothing aborts",
                method=method,
                paths=[GOOD[0], sig, GOOD[1], GOOD[2]],
                data=FILES["messy"],
                quick=True,
            )
        n += 1
        scenario(
            n,
            "advance_all then skip_all then fail_all then stop_all from different members",
            method=method,
            paths=[
                '~id:adv~ $[*][ line_number() == 1 -> advance_all(1) ]',
                '~id:skp~ $[*][ line_number() == 3 -> skip_all() ]',
                '~id:fal~ $[*][ line_number() == 4 -> fail_all() ]',
                '~id:stp~ $[*][ line_number() == 5 -> stop_all() print("stp at $.csvpath.line_number") ]',
            ],
            data=FILES["messy"],
        )
        n += 1
        scenario(
            n,
            "stop_all at line 2 and a poisoned line 1 under a collect-only policy",
            method=method,
            paths=[coordinated[0][1], BOMB, GOOD[0]],
            data=poison(FILES["plain"], 1),
            csvpath_policy="collect, fail",
        )
    p("=" * 78)
    p(f"{n} scenarios")


if __name__ == "__main__":
    main()
