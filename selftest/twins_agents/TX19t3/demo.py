#!/venv/bin/python
"""
Differential demonstration for property C19 ("results depend only on the
csvpath, the file and the configuration").

Usage:  PYTHONPATH=<csvpath tree> /venv/bin/python demo.py > transcript.txt

The script is self-contained: it creates a fresh temp working directory,
writes an offline ./config/config.ini, the data files and then exercises

  A. LineMonitor (next_line / copy / dump / load / reset / end-lines)
  B. LineCounter and LineCounter.clean_headers
  C. Cache (cached_text / cache_text, csv + json + other types, bad entries)
  D. FileCacher (cold, warm-in-memory, warm-on-disk, damaged entries, copies)
  E. standalone CsvPath jobs in several orders, each repeated
  F. CsvPaths jobs: cold cache, warm cache, new instance, rewritten file;
     archive listing and contents with run directories normalised

Everything observable is printed. Timestamps, uuids and the temp dir are
normalised so the transcript is deterministic.
"""
import os
import re
import sys
import json
import shutil
import tempfile
import traceback

CONFIG = """[csvpath_files]
extensions = txt, csvpath, csvpaths

[csv_files]
extensions = txt, csv, tsv, dat, tab, psv, ssv

[errors]
csvpath = raise, collect, stop, fail, print
csvpaths = raise, collect

[logging]
csvpath = info
csvpaths = info
log_file = logs/csvpath.log
log_files_to_keep = 100
log_file_size = 52428800

[config]
path = config/config.ini

[cache]
path = cache

[listeners]
[marquez]
base_url = http://localhost:5000

[functions]
imports = config/functions.imports

[results]
archive = archive
transfers = transfers

[inputs]
files = inputs/named_files
csvpaths = inputs/named_paths
on_unmatched_file_fingerprints = halt
"""

WORK = tempfile.mkdtemp(prefix="demo_TXC19_")
os.chdir(WORK)
os.makedirs("config")
with open("config/config.ini", "w", encoding="utf-8") as f:
    f.write(CONFIG)
with open("config/functions.imports", "w", encoding="utf-8") as f:
    f.write("")

from csvpath import CsvPath, CsvPaths  # noqa: E402
from csvpath.util.line_monitor import LineMonitor  # noqa: E402
from csvpath.util.line_counter import LineCounter  # noqa: E402
from csvpath.util.cache import Cache  # noqa: E402
from csvpath.managers.files.file_cacher import FileCacher  # noqa: E402

FILES = {
    "plain.csv": "a,b,c\n1,2,3\n4,5,6\n7,8,9\n",
    "blanks.csv": "\n\na,b,c\n1,2,3\n\n4,,0\n\n\n7,8,9\n\n",
    "ragged.csv": "a,b,c\n1\n1,2\n1,2,3,4,5\n,,\n0\n",
    "quoted.csv": '" first name ","a,b","c;d|e","x`y\tz",  plain  ,"say ""hi"""\n'
    'Ann,"1,5",x,y,z,"q""q"\n" Bob ",0,,,," "\n',
    "empty.csv": "",
    "onlyblank.csv": "\n\n\n",
    "header_only.csv": "a,b,c\n",
    "zero.csv": "n,s\n0,\n00,0\n,\n0.0,zero\n",
    "noeol.csv": "a,b\n1,2\n3,4",
    "trailblank.csv": "a,b\n1,2\n\n",
}
for name, text in FILES.items():
    with open(name, "w", encoding="utf-8", newline="") as f:
        f.write(text)
    # fixed mtimes so nothing depends on the clock
    os.utime(name, (1_700_000_000, 1_700_000_000))

PATHS = [
    "[*][yes()]",
    "[1*][yes()]",
    "[*][no()]",
    '[*][#0 == "1"]',
    '[*][#a == "4" print("hit at $.csvpath.line_number of $.csvpath.total_lines")]',
    "[*][@c = count() @l = line_number() @t = total_lines() @h = count_headers()]",
    '[*][last() -> print("last: $.csvpath.line_number/$.csvpath.total_lines/$.csvpath.count_lines")]',
    '[*][@e = empty(#1) @x = exists(#1) print("$.headers.0|$.headers.1")]',
    "[1-2][@hn = header_name(0) @hi = header_index(\"b\")]",
    "[*][gt(#0, 3)]",
    "[*][after_blank()]",
    '[*][line_number() == 1 -> reset_headers() print("$.csvpath.headers")]',
    "[*][@s = sum(#0) @n = int(#0)]",
    "[0][fail()]",
    "[*][nosuchfunction()]",
    "[2][advance(1) yes()]",
]

TS = re.compile(r"\d{4}-\d{2}-\d{2}[ T_]\d{2}[:-]\d{2}[:-]\d{2}(?:[.,]\d+)?(?:\+\d\d:\d\d)?")
UUID = re.compile(
    r"[0-9a-f]{8}-[0-9a-f]{4}-[0-9a-f]{4}-[0-9a-f]{4}-[0-9a-f]{12}", re.I
)


ADDR = re.compile(r"at 0x[0-9a-fA-F]+")


def norm(s) -> str:
    s = f"{s}"
    s = s.replace(WORK, "<WORK>")
    s = UUID.sub("<UUID>", s)
    s = TS.sub("<TS>", s)
    s = ADDR.sub("at 0x<ADDR>", s)
    return s


def out(*args) -> None:
    print(norm(" ".join(f"{a}" for a in args)))
    sys.stdout.flush()


def section(title: str) -> None:
    out("")
    out("=" * 20, title, "=" * 20)


def attempt(label, fn):
    try:
        r = fn()
        out(label, "->", repr(r))
        return r
    except BaseException as e:  # pylint: disable=W0718
        out(label, "!! raised", type(e).__name__, ":", str(e).split("\n")[0][:200])
        return None


# ----------------------------------------------------------------------------
section("A. LineMonitor")


def lm_state(lm) -> str:
    return lm.dump() + " last=" + (
        "None"
        if lm.last_line is None
        else f"{lm.last_line.last_data_line_number}"
        if hasattr(lm.last_line, "last_data_line_number")
        else "?"
    )


SEQS = {
    "data,data,data": [["a"], ["b"], ["c"]],
    "blank first": [[], ["a"], [], ["b"]],
    "all blank": [[], [], []],
    "single": [["x"]],
    "single blank": [[]],
    "none": [],
    "None data": [None, ["a"], None],
    "blank last": [["a"], ["b"], []],
}
for name, seq in SEQS.items():
    out("--", name)
    lm = LineMonitor()
    out("new:", lm_state(lm))
    for d in seq:
        lm.next_line(last_line=[], data=d)
        out("  next", d, ":", lm_state(lm), "is_last", lm.is_last_line())
    c0 = lm.copy()
    out("copy before end:", c0.dump(), "last_line", c0.last_line)
    lm.set_end_lines_and_reset()
    out("ended:", lm_state(lm))
    c = lm.copy()
    out("copy:", c.dump(), "same obj", c is lm, "last_line", c.last_line)
    # copies are independent
    for d in seq:
        c.next_line(last_line=[], data=d)
    out("copy after replay:", c.dump())
    out("orig after replay of copy:", lm.dump())
    out(
        "copy is_last",
        c.is_last_line(),
        "blank",
        c.is_last_line_and_blank([]),
        c.is_last_line_and_blank(["x"]),
        c.is_last_line_and_blank(None),
        "empty",
        c.is_last_line_and_empty([]),
        c.is_last_line_and_empty(["", " "]),
        c.is_last_line_and_empty(["", "x"]),
        c.is_last_line_and_empty(None),
    )
    l2 = LineMonitor()
    l2.load(lm.dump())
    out("loaded:", l2.dump(), "equal dump", l2.dump() == lm.dump())
    l3 = LineMonitor()
    l3.load(c.dump())
    out("loaded from replayed copy:", l3.dump())
    l3.reset()
    out("reset:", l3.dump())
    c.reset()
    out("copy reset:", c.dump(), "orig:", lm.dump())

out("-- load edge cases")
full = {
    "physical_end_line_count": 10,
    "physical_end_line_number": 20,
    "physical_line_count": 0,
    "physical_line_number": 0,
    "data_end_line_count": 15,
    "data_end_line_number": 25,
    "data_line_count": None,
    "data_line_number": -1,
}
lm = LineMonitor()
lm.load(json.dumps(full))
out("full:", lm.dump())
keys = list(full.keys())
for missing in keys:
    part = {k: (i + 100) for i, k in enumerate(keys) if k != missing}
    lm = LineMonitor()
    lm.load(json.dumps(full))
    attempt(f"load without {missing}", lambda: lm.load(json.dumps(part)))
    out("   state after:", lm.dump())
rev = {k: full[k] for k in reversed(keys)}
rev["extra"] = "ignored"
lm = LineMonitor()
lm.load(json.dumps(rev))
out("reversed+extra:", lm.dump())
for bad in ["", "   ", "[]", "null", "{", "1", '"str"']:
    lm = LineMonitor()
    attempt(f"load {bad!r}", lambda: lm.load(bad))
    out("   state after:", lm.dump())
attempt("load None", lambda: LineMonitor().load(None))
lm = LineMonitor()
lm.load(json.dumps(full))
c = lm.copy()
out("copy of loaded:", c.dump(), "dump keys", list(json.loads(c.dump()).keys()))
out("attrs:", sorted(vars(c).items()))

# ----------------------------------------------------------------------------
section("B. LineCounter")


class _Log:
    def info(self, *a, **k):
        pass

    debug = warning = error = info


class _Holder:
    def __init__(self, delimiter=",", quotechar='"', skip_blank_lines=True):
        self.delimiter = delimiter
        self.quotechar = quotechar
        self.skip_blank_lines = skip_blank_lines
        self.logger = _Log()


for fname in FILES:
    for skip in (True, False):
        for delim, quote in ((",", '"'), (";", "'"), (None, None)):
            h = _Holder(delim, quote, skip)

            def go():
                lm, headers = LineCounter(h).get_lines_and_headers(fname)
                return (lm.dump(), headers)

            attempt(f"count {fname} skip={skip} delim={delim!r} quote={quote!r}", go)
attempt(
    "count missing.csv",
    lambda: LineCounter(_Holder()).get_lines_and_headers("missing.csv"),
)
for hs in (
    [],
    [""],
    ["a"],
    [" a ", "b;c", "d,e", "f|g", "h\ti", "j`k"],
    [" ; ", "\t", " \t x \t ", ";,|\t`", "; a ;", "a b", "\n a \n", "a\nb"],
    ["0", "", "  "],
    ("t", "u "),
):
    attempt(f"clean_headers {hs!r}", lambda: LineCounter.clean_headers(hs))
attempt("clean_headers [1]", lambda: LineCounter.clean_headers([1]))
attempt("clean_headers [None]", lambda: LineCounter.clean_headers([None]))
attempt("clean_headers None", lambda: LineCounter.clean_headers(None))
src = [" a "]
res = LineCounter.clean_headers(src)
out("clean_headers returns new list:", res is not src, src, res)


# ----------------------------------------------------------------------------
def cache_listing() -> None:
    if not os.path.exists("cache"):
        out("   cache dir: (absent)")
        return
    names = sorted(os.listdir("cache"))
    exts = sorted(n[n.rfind(".") :] for n in names)
    out("   cache dir:", len(names), "files", exts)
    contents = []
    for n in names:
        with open(os.path.join("cache", n), "rb") as fh:
            contents.append((n[n.rfind(".") :], fh.read()))
    for ext, c in sorted(contents):
        out("     ", ext, repr(c))


def wipe(*dirs) -> None:
    for d in dirs:
        if os.path.exists(d):
            shutil.rmtree(d)


section("C. Cache")
cps = CsvPaths()
cache = Cache(cps)
wipe("cache")
out("cachedir:", cache._cachedir(), os.path.isdir("cache"))
attempt("cached_text plain.csv json (cold)", lambda: cache.cached_text("plain.csv", "json"))
attempt("cached_text plain.csv csv (cold)", lambda: cache.cached_text("plain.csv", "csv"))
attempt("cached_text plain.csv other (cold)", lambda: cache.cached_text("plain.csv", "txt"))
attempt("cache_text json", lambda: cache.cache_text("plain.csv", "json", '{"a": 1}\n\n  {"b": 2}'))
attempt("cached_text json", lambda: cache.cached_text("plain.csv", "json"))
attempt("cache_text csv", lambda: cache.cache_text("plain.csv", "csv", '\n\n"a,b", c ,"d""e"\r\nsecond,row\r\n'))
attempt("cached_text csv", lambda: cache.cached_text("plain.csv", "csv"))
attempt("cache_text csv blank only", lambda: cache.cache_text("blanks.csv", "csv", "\n\n\n"))
attempt("cached_text csv blank only", lambda: cache.cached_text("blanks.csv", "csv"))
attempt("cache_text csv empty", lambda: cache.cache_text("ragged.csv", "csv", ""))
attempt("cached_text csv empty", lambda: cache.cached_text("ragged.csv", "csv"))
attempt("cache_text json empty", lambda: cache.cache_text("ragged.csv", "json", ""))
attempt("cached_text json empty", lambda: cache.cached_text("ragged.csv", "json"))
attempt("cache_text non-str data", lambda: cache.cache_text("zero.csv", "json", 0))
attempt("cached_text non-str data", lambda: cache.cached_text("zero.csv", "json"))
attempt("cache_text None data", lambda: cache.cache_text("zero.csv", "csv", None))
attempt("cached_text None data", lambda: cache.cached_text("zero.csv", "csv"))
attempt("cache_text list data", lambda: cache.cache_text("zero.csv", "txt", ["a", 1]))
attempt("cached_text list data", lambda: cache.cached_text("zero.csv", "txt"))
attempt("cache_text other type", lambda: cache.cache_text("plain.csv", "weird", "x\ny\n"))
attempt("cached_text other type", lambda: cache.cached_text("plain.csv", "weird"))
attempt("cache_text missing file key", lambda: cache.cache_text("no/such/file.csv", "json", "{}"))
attempt("cached_text missing file key", lambda: cache.cached_text("no/such/file.csv", "json"))
attempt("cached_text missing file key csv", lambda: cache.cached_text("no/such/file.csv", "csv"))
attempt("cached_text type None", lambda: cache.cached_text("plain.csv", None))
attempt("cache_text type None", lambda: cache.cache_text("plain.csv", None, "n"))
attempt("cached_text type None 2", lambda: cache.cached_text("plain.csv", None))
attempt("cached_text filename None", lambda: cache.cached_text(None, "json"))
attempt("cache_text filename None", lambda: cache.cache_text(None, "json", "x"))
attempt("cached_text type list", lambda: cache.cached_text("plain.csv", ["csv"]))
attempt("cached_text type 'CSV'", lambda: cache.cached_text("plain.csv", "CSV"))
attempt("cached_text type with sep", lambda: cache.cached_text("plain.csv", "a/b"))
attempt("cache_text type with sep", lambda: cache.cache_text("plain.csv", "a/b", "x"))
# invalid utf-8 in an entry
name = cache._cache_name("noeol.csv")
out("cache name is 64 hex:", bool(re.fullmatch(r"[0-9a-f]{64}", name)))
out("cache name stable:", name == cache._cache_name("noeol.csv"))
out("cache name differs by file:", name != cache._cache_name("plain.csv"))
with open(os.path.join("cache", name + ".json"), "wb") as fh:
    fh.write(b'{"ok": 1}\n\xff\xfe broken')
with open(os.path.join("cache", name + ".csv"), "wb") as fh:
    fh.write(b"\n\xff\xfe,b\n")
attempt("cached_text invalid utf8 json", lambda: cache.cached_text("noeol.csv", "json"))
attempt("cached_text invalid utf8 csv", lambda: cache.cached_text("noeol.csv", "csv"))
with open(os.path.join("cache", name + ".json"), "wb") as fh:
    fh.write(b"x" * 20000 + b"\n\xff")
r = attempt("cached_text invalid utf8 late json (len only)", lambda: len(cache.cached_text("noeol.csv", "json")))
# many short lines, then a bad byte: the lines decoded before the bad chunk are kept
with open(os.path.join("cache", name + ".json"), "wb") as fh:
    fh.write(b"abc\n" * 10000 + b"\xff")
with open(os.path.join("cache", name + ".csv"), "wb") as fh:
    fh.write(b"\n" * 10000 + b"\xff,a\n")
r = attempt("cached_text invalid utf8 after many lines json (len only)", lambda: len(cache.cached_text("noeol.csv", "json")))
r = attempt("cached_text invalid utf8 after many blank lines csv", lambda: cache.cached_text("noeol.csv", "csv"))
with open(os.path.join("cache", name + ".csv"), "wb") as fh:
    fh.write(b"\n" * 3 + b"h1,h2\n" + b"x\n" * 10000 + b"\xff,a\n")
r = attempt("cached_text invalid utf8 long after header csv", lambda: cache.cached_text("noeol.csv", "csv"))
with open(os.path.join("cache", name + ".json"), "wb") as fh:
    fh.write(b"short")
with open(os.path.join("cache", name + ".csv"), "wb") as fh:
    fh.write(b"short\n")
# key depends on size and mtime
n1 = cache._cache_name("trailblank.csv")
os.utime("trailblank.csv", (1_700_000_500, 1_700_000_500))
n2 = cache._cache_name("trailblank.csv")
os.utime("trailblank.csv", (1_700_000_000, 1_700_000_000))
n3 = cache._cache_name("trailblank.csv")
out("key changes with mtime:", n1 != n2, "and returns:", n1 == n3)
cache_listing()
wipe("cache")
out("cachedir recreated:", cache._cachedir(), os.path.isdir("cache"))

# ----------------------------------------------------------------------------
section("D. FileCacher")


def cacher_probe(fc, fname) -> None:
    def go():
        lm = fc.get_new_line_monitor(fname)
        hs = fc.get_original_headers(fname)
        return (lm.dump(), hs)

    attempt(f"cacher lm+headers {fname}", go)


wipe("cache")
cps = CsvPaths()
fc = cps.file_manager.cacher
out("cacher class:", type(fc).__name__, "cache class:", type(fc.cache).__name__)
out("in-memory entries:", len(fc.pathed_lines_and_headers))
for fname in FILES:
    cacher_probe(fc, fname)
out("in-memory entries:", len(fc.pathed_lines_and_headers), sorted(fc.pathed_lines_and_headers))
cache_listing()
out("-- headers first, then monitor (fresh FileCacher, warm disk)")
fc2 = FileCacher(cps)
for fname in FILES:
    attempt(f"headers {fname}", lambda: fc2.get_original_headers(fname))
    attempt(f"monitor {fname}", lambda: fc2.get_new_line_monitor(fname).dump())
out("in-memory entries:", len(fc2.pathed_lines_and_headers))
for fname in FILES:
    e = fc2.pathed_lines_and_headers[fname]
    out("  entry", fname, isinstance(e, tuple), len(e), type(e[0]).__name__, e[1], e[0].dump())
out("-- copies are independent")
lm1 = fc.get_new_line_monitor("blanks.csv")
lm2 = fc.get_new_line_monitor("blanks.csv")
h1 = fc.get_original_headers("blanks.csv")
h2 = fc.get_original_headers("blanks.csv")
out("distinct monitors:", lm1 is not lm2, "distinct headers:", h1 is not h2)
out("not the stored ones:", lm1 is not fc.pathed_lines_and_headers["blanks.csv"][0], h1 is not fc.pathed_lines_and_headers["blanks.csv"][1])
lm1.next_line(last_line=[], data=["x"])
lm1.next_line(last_line=[], data=[])
h1.append("MUTATED")
h1[0] = "CHANGED"
out("mutated copy:", lm1.dump(), h1)
out("second copy:", lm2.dump(), h2)
cacher_probe(fc, "blanks.csv")
out("-- missing file")
cacher_probe(fc, "missing.csv")
out("in-memory has missing:", "missing.csv" in fc.pathed_lines_and_headers)
out("-- damaged disk entries (fresh FileCacher each time)")


def damage(fname, ext, data) -> None:
    p = os.path.join("cache", Cache(cps)._cache_name(fname) + "." + ext)
    if data is None:
        if os.path.exists(p):
            os.remove(p)
    else:
        with open(p, "wb") as fh:
            fh.write(data)


for label, ext, data in (
    ("json removed", "json", None),
    ("csv removed", "csv", None),
    ("json blank", "json", b"  \n "),
    ("json empty", "json", b""),
    ("json invalid", "json", b"{nope"),
    ("json missing keys", "json", b'{"physical_end_line_count": 3}'),
    ("csv empty", "csv", b""),
    ("csv other headers", "csv", b"\r\nx,y\r\n"),
    ("json other numbers", "json", json.dumps(full).encode()),
):
    out("--", label)
    damage("zero.csv", ext, data)
    cacher_probe(FileCacher(cps), "zero.csv")
    cache_listing_count = len(os.listdir("cache"))
    out("   cache files:", cache_listing_count)
    # restore a good entry
    damage("zero.csv", "json", None)
    damage("zero.csv", "csv", None)
    cacher_probe(FileCacher(cps), "zero.csv")
out("-- file rewritten at the same path")
with open("rewrite.csv", "w", encoding="utf-8") as fh:
    fh.write("a,b\n1,2\n")
os.utime("rewrite.csv", (1_700_000_000, 1_700_000_000))
fc3 = FileCacher(cps)
cacher_probe(fc3, "rewrite.csv")
with open("rewrite.csv", "w", encoding="utf-8") as fh:
    fh.write("x,y,z\n1,2,3\n4,5,6\n\n")
os.utime("rewrite.csv", (1_700_000_900, 1_700_000_900))
cacher_probe(fc3, "rewrite.csv")  # same instance: in-memory entry
cacher_probe(FileCacher(cps), "rewrite.csv")  # new instance: disk entry keyed on stat
cache_listing()


# ----------------------------------------------------------------------------
def show_path(p, lines) -> None:
    out("   lines:", lines)
    out("   variables:", json.dumps(p.variables, sort_keys=True, default=str))
    out("   valid:", p.is_valid, "stopped:", p.stopped)
    out("   errors:", None if p.errors is None else [e.message if hasattr(e, "message") else str(e) for e in p.errors])
    out("   has_errors:", p.has_errors() if hasattr(p, "has_errors") else None)
    out("   headers:", p._headers)
    lm = p._line_monitor
    out("   line_monitor:", None if lm is None else lm.dump())
    out("   counts:", p.scan_count, p.match_count, p.total_iterations if hasattr(p, "total_iterations") else None)


def standalone(path, fname, method="collect", **kw) -> None:
    csvpath = f"${fname}{path}"
    out(f">> standalone {method}: {csvpath} {kw if kw else ''}")
    p = CsvPath(**kw)
    try:
        p.parse(csvpath)
        if method == "collect":
            lines = p.collect()
        elif method == "fast_forward":
            p.fast_forward()
            lines = "(ff)"
        else:
            lines = [line for line in p.next()]
        show_path(p, lines)
    except BaseException as e:  # pylint: disable=W0718
        out("   !! raised", type(e).__name__, ":", str(e).split("\n")[0][:200])
        try:
            show_path(p, "(after exception)")
        except BaseException as e2:  # pylint: disable=W0718
            out("   !! show raised", type(e2).__name__)


section("E. standalone CsvPath jobs")
for fname in FILES:
    for path in PATHS:
        standalone(path, fname)
out("-- repeated and reordered")
JOBS = [
    (PATHS[5], "blanks.csv"),
    (PATHS[4], "plain.csv"),
    (PATHS[5], "blanks.csv"),
    (PATHS[11], "quoted.csv"),
    (PATHS[0], "quoted.csv"),
    (PATHS[6], "trailblank.csv"),
]
for path, fname in JOBS + list(reversed(JOBS)):
    standalone(path, fname)
for path, fname in JOBS:
    standalone(path, fname, method="fast_forward")
    standalone(path, fname, method="next")
out("-- other delimiters / blank-line handling")
for fname in ("blanks.csv", "quoted.csv", "onlyblank.csv", "empty.csv"):
    standalone(PATHS[5], fname, skip_blank_lines=False)
    standalone(PATHS[0], fname, delimiter=";", quotechar="'")
out("-- totals and headers before running")
for fname in FILES:
    p = CsvPath()
    p.parse(f"${fname}[*][yes()]")
    attempt(f"get_total_lines {fname}", p.get_total_lines)
    attempt(f"headers {fname}", lambda: p.headers)
    attempt(f"line_monitor {fname}", lambda: p.line_monitor.dump())
    attempt(f"get_total_lines_and_headers {fname}", p.get_total_lines_and_headers)
    attempt(f"again headers {fname}", lambda: p.headers)
p = CsvPath()
attempt("get_total_lines_and_headers unparsed", p.get_total_lines_and_headers)
attempt("headers unparsed", lambda: p.headers)
attempt("line_monitor unparsed", lambda: p.line_monitor)
attempt("get_total_lines unparsed", p.get_total_lines)
p = CsvPath()
attempt("parse missing file", lambda: p.parse("$missing.csv[*][yes()]"))
attempt("get_total_lines_and_headers missing file", p.get_total_lines_and_headers)
out("   state:", p._headers, p._line_monitor)


# ----------------------------------------------------------------------------
RUNDIR = re.compile(r"^(\d{4}-\d\d-\d\d_\d\d-\d\d-\d\d)(?:[._](\d+))?$")


def archive_listing() -> None:
    if not os.path.exists("archive"):
        out("   archive: (absent)")
        return
    for pathsname in sorted(os.listdir("archive")):
        home = os.path.join("archive", pathsname)
        if not os.path.isdir(home):
            out("   archive file:", pathsname)
            continue
        runs = []
        for r in os.listdir(home):
            m = RUNDIR.match(r)
            if m:
                runs.append((m.group(1), int(m.group(2) or 0), r))
            else:
                out("   archive other:", pathsname, r)
        runs.sort()
        for i, (_, _, r) in enumerate(runs):
            for root, dirs, files in os.walk(os.path.join(home, r)):
                dirs.sort()
                rel = os.path.relpath(root, os.path.join(home, r))
                for fn in sorted(files):
                    fp = os.path.join(root, fn)
                    tag = f"   archive {pathsname}/run-{i}/{rel}/{fn}"
                    if fn in ("data.csv", "unmatched.csv", "printouts.txt", "vars.json"):
                        with open(fp, "r", encoding="utf-8") as fh:
                            out(tag, repr(fh.read()))
                    elif fn == "errors.json":
                        with open(fp, "r", encoding="utf-8") as fh:
                            try:
                                errs = json.load(fh)
                                slim = [
                                    {
                                        k: e.get(k)
                                        for k in ("line_count", "match_count", "scan_count", "error", "message", "source", "filename")
                                        if isinstance(e, dict)
                                    }
                                    for e in errs
                                ]
                                out(tag, json.dumps(slim, sort_keys=True))
                            except Exception as ex:  # pylint: disable=W0718
                                out(tag, "unreadable", type(ex).__name__)
                    else:
                        out(tag, "(present)")


def spooled(x):
    if x is None:
        return None
    if isinstance(x, list):
        return x
    return (len(x), [line for line in x.next()])


def show_results(cp, pathsname) -> None:
    try:
        results = cp.results_manager.get_named_results(pathsname)
    except BaseException as e:  # pylint: disable=W0718
        out("   !! get_named_results raised", type(e).__name__, ":", str(e)[:200])
        return
    for r in results:
        try:
            lines = spooled(r.lines)
        except BaseException as e:  # pylint: disable=W0718
            lines = f"!! {type(e).__name__}"
        out("   result", r.identity_or_index, "lines:", lines)
        try:
            un = r.unmatched
            un = spooled(un)
        except BaseException as e:  # pylint: disable=W0718
            un = f"!! {type(e).__name__}"
        out("      unmatched:", un)
        out("      variables:", json.dumps(r.variables, sort_keys=True, default=str))
        out("      printouts:", r.printouts)
        out("      errors:", [e.message if hasattr(e, "message") else str(e) for e in (r.errors or [])])
        out("      valid:", r.is_valid, "headers:", r.csvpath._headers)
        lm = r.csvpath._line_monitor
        out("      line_monitor:", None if lm is None else lm.dump())


def group_job(cp, fname, pathsname, method="collect_paths") -> None:
    out(f">> group {method}: file={fname} paths={pathsname}")
    try:
        getattr(cp, method)(filename=fname, pathsname=pathsname)
    except BaseException as e:  # pylint: disable=W0718
        out("   !! raised", type(e).__name__, ":", str(e).split("\n")[0][:200])
    show_results(cp, pathsname)


def by_line_job(cp, fname, pathsname, method="collect_by_line") -> None:
    out(f">> group {method}: file={fname} paths={pathsname}")
    try:
        if method == "next_by_line":
            lines = [line for line in cp.next_by_line(filename=fname, pathsname=pathsname)]
            out("   yielded:", lines)
        else:
            getattr(cp, method)(filename=fname, pathsname=pathsname)
    except BaseException as e:  # pylint: disable=W0718
        out("   !! raised", type(e).__name__, ":", str(e).split("\n")[0][:200])
    show_results(cp, pathsname)


GROUPS = {
    "basic": ["$[*][yes()]", '~id:two~ $[*][#0 == "1" print("two hit $.csvpath.line_number")]'],
    "counts": [
        "~id:counts~ $[*][@c = count() @l = line_number() @t = total_lines() @h = count_headers()]",
        '~id:last~ $[*][last() -> print("last: $.csvpath.line_number/$.csvpath.total_lines")]',
    ],
    "heads": [
        '~id:heads~ $[*][print("$.csvpath.headers") @hn = header_name(0)]',
        '~id:reset~ $[*][line_number() == 1 -> reset_headers() print("$.csvpath.headers")]',
        "~id:after~ $[*][after_blank()]",
    ],
    "none": ["~id:none~ $[*][no()]", "~id:scan~ $[1-2][yes()]"],
}


def new_csvpaths(**kw):
    cp = CsvPaths(**kw)
    for fname in FILES:
        try:
            cp.file_manager.add_named_file(name=fname[: fname.rfind(".")], path=fname)
        except BaseException as e:  # pylint: disable=W0718
            out("   !! add_named_file", fname, type(e).__name__, ":", str(e)[:200])
    for name, paths in GROUPS.items():
        cp.paths_manager.add_named_paths(name=name, paths=paths)
    return cp


GJOBS = [
    ("plain", "basic"),
    ("blanks", "counts"),
    ("quoted", "heads"),
    ("blanks", "heads"),
    ("ragged", "basic"),
    ("zero", "counts"),
    ("empty", "basic"),
    ("onlyblank", "counts"),
    ("header_only", "none"),
    ("trailblank", "counts"),
    ("noeol", "none"),
    ("blanks", "counts"),
]

section("F1. CsvPaths jobs, cold cache")
wipe("cache", "archive", "inputs")
cp = new_csvpaths()
cache_listing()
for fname, pathsname in GJOBS:
    group_job(cp, fname, pathsname)
out("in-memory cacher entries:", len(cp.file_manager.cacher.pathed_lines_and_headers))
cache_listing()
archive_listing()

section("F2. same instance, reversed order (warm in memory)")
wipe("archive")
for fname, pathsname in reversed(GJOBS):
    group_job(cp, fname, pathsname)
archive_listing()

section("F3. new instance, warm disk cache, other methods")
wipe("archive")
cp = new_csvpaths()
for fname, pathsname in GJOBS[:6]:
    group_job(cp, fname, pathsname, method="fast_forward_paths")
for fname, pathsname in GJOBS[:4]:
    by_line_job(cp, fname, pathsname, method="collect_by_line")
for fname, pathsname in GJOBS[:4]:
    by_line_job(cp, fname, pathsname, method="fast_forward_by_line")
for fname, pathsname in GJOBS[:3]:
    by_line_job(cp, fname, pathsname, method="next_by_line")
cache_listing()
archive_listing()

section("F4. new instance, skip_blank_lines=False and other delimiter, cold cache")
wipe("cache", "archive")
cp = new_csvpaths(skip_blank_lines=False)
for fname, pathsname in (("blanks", "counts"), ("onlyblank", "counts"), ("trailblank", "counts")):
    group_job(cp, fname, pathsname)
cp = new_csvpaths(delimiter=";", quotechar="'")
for fname, pathsname in (("quoted", "heads"), ("plain", "basic")):
    group_job(cp, fname, pathsname)
cache_listing()
archive_listing()

section("F5. standalone after group, group after standalone")
wipe("cache", "archive")
standalone(PATHS[5], "blanks.csv")
cp = new_csvpaths()
group_job(cp, "blanks", "counts")
standalone(PATHS[5], "blanks.csv")
group_job(cp, "blanks", "counts")
cache_listing()
archive_listing()

out("")
out("done")
os.chdir("/")
shutil.rmtree(WORK, ignore_errors=True)
