#!/usr/bin/env python
"""Differential demonstration for refactoring t1 (CsvPath.next / _consider_line).

Run in an empty scratch directory (NOT in the source tree):

    mkdir -p /tmp/demo_TWC01_1 && cd /tmp/demo_TWC01_1
    PYTHONPATH=<csvpath tree> /venv/bin/python demo.py > out.txt

The script is self-contained: it writes its own ./config/config.ini (offline,
no listeners), its own CSV files and prints a deterministic transcript of
everything observable: returned lines, unmatched lines, variables, counters,
validity, stopped flag, collected errors (without traces/timestamps),
printouts and raised exceptions; for CsvPaths runs also the archive listing
and file contents with run-dir timestamps, uuids, times and traces normalised.
"""
import contextlib
import io
import json
import os
import random
import re
import shutil
import sys

CONFIG = """[csvpath_files]
extensions = txt, csvpath, csvpaths

[csv_files]
extensions = txt, csv, tsv, dat, tab, psv, ssv

[errors]
csvpath = raise, collect, stop, fail, print
csvpaths = raise, collect

[logging]
csvpath = info
csvpaths = info
log_file = logs/csvpath.log
log_files_to_keep = 100
log_file_size = 52428800

[config]
path = config/config.ini

[cache]
path = cache

[listeners]
[marquez]
base_url = http://localhost:5000

[functions]
imports = config/functions.imports

[results]
archive = archive
transfers = transfers

[inputs]
files = inputs/named_files
csvpaths = inputs/named_paths
on_unmatched_file_fingerprints = halt
"""

FILES = {
    # header, numbers, text, empty cells, zero, multi-digit numbers, a blank
    # line in the middle, ragged (short and long) rows
    "basic.csv": "a,b,c\n1,2,3\n\n4,5\nx,,z,w\n0,0,0\n10,200,3000\n7,7,7\n,,\n12,y,12\n",
    # same but the file ends with a blank line (last line blank)
    "trailing.csv": "a,b,c\n1,2,3\n4,5,6\n\n7,8,9\n\n",
    # only a header
    "header_only.csv": "a,b,c\n",
    # empty file
    "empty.csv": "",
    # blank first line, blank lines in a row, whitespace cells
    "blanks.csv": "\n\na,b,c\n 1 , 2 ,3\n\n\n3,2,1\n",
    # one column, repeated values, zero and negative numbers
    "single.csv": "n\n0\n1\n1\n-5\n22\n\n0\n",
    # quoted and ragged
    "ragged.csv": 'a,b,c\n"1,5",2\n3\n4,5,6,7,8\n"",""\n9,9,9\n',
}


def setup() -> None:
    for d in ("archive", "cache", "inputs", "logs", "transfers", "config"):
        shutil.rmtree(d, ignore_errors=True)
    os.makedirs("config", exist_ok=True)
    with open("config/config.ini", "w", encoding="utf-8") as f:
        f.write(CONFIG)
    with open("config/functions.imports", "w", encoding="utf-8") as f:
        f.write("")
    for name, content in FILES.items():
        with open(name, "w", encoding="utf-8") as f:
            f.write(content)


setup()

from csvpath import CsvPath, CsvPaths  # noqa: E402  pylint: disable=C0413


def out(*args) -> None:
    print(*args)


def show_errors(p) -> None:
    es = p.errors
    out("  errors:", 0 if es is None else len(es))
    for e in es or []:
        out(
            "    -",
            e.error.__class__.__name__,
            "|",
            f"{e.error}",
            "| line",
            e.line_count,
            "match",
            e.match_count,
            "scan",
            e.scan_count,
            "| source",
            re.sub(r"0x[0-9a-f]+", "0x?", f"{e.source}"),
            "| msg",
            e.message,
        )


def show_state(p) -> None:
    out("  variables:", repr(p.variables))
    out(
        "  is_valid:",
        p.is_valid,
        "stopped:",
        p.stopped,
        "match_count:",
        p.match_count,
        "scan_count:",
        p.scan_count,
        "advance_count:",
        p.advance_count,
    )
    lm = p.line_monitor
    out(
        "  line_monitor: physical",
        lm.physical_line_number,
        "data",
        lm.data_line_number,
        "end",
        lm.physical_end_line_number,
        "data_count",
        lm.data_line_count,
    )
    out("  unmatched:", repr(p.unmatched))
    out("  frozen:", p._freeze_path, "metadata:", repr(p.metadata))  # pylint: disable=W0212
    show_errors(p)
    for i, pr in enumerate(p.printers):
        out(f"  printer[{i}] lines_printed:", pr.lines_printed, "last:", repr(pr.last_line))


def run_standalone(label, path, *, how="collect", policy=None, tweak=None) -> None:
    out("=" * 78)
    out(f"RUN {label} how={how} policy={policy}")
    out("  csvpath:", path)
    buf = io.StringIO()
    p = CsvPath()
    lines = None
    try:
        with contextlib.redirect_stdout(buf):
            if policy is not None:
                p.config.csvpath_errors_policy = policy
            p.parse(path)
            if tweak is not None:
                tweak(p)
            if how == "collect":
                lines = p.collect()
            elif how == "collect2":
                lines = p.collect(2)
            elif how == "next":
                lines = []
                for line in p.next():
                    # what the caller sees at the time of the yield
                    lines.append(
                        (
                            p.line_monitor.physical_line_number,
                            p.match_count,
                            p.scan_count,
                            list(line),
                        )
                    )
            elif how == "ff":
                p.fast_forward()
            elif how == "next_break":
                lines = []
                for line in p.next():
                    lines.append(list(line))
                    if len(lines) == 2:
                        break
            else:
                raise ValueError(how)
    except Exception as ex:  # pylint: disable=W0718
        out("  RAISED:", ex.__class__.__name__, "|", f"{ex}")
        c = ex.__cause__
        while c is not None:
            out("    caused by:", c.__class__.__name__, "|", f"{c}")
            c = c.__cause__
    out("  lines:", repr(lines if lines is None else list(lines)))
    try:
        show_state(p)
    except Exception as ex:  # pylint: disable=W0718
        out("  STATE RAISED:", ex.__class__.__name__, "|", f"{ex}")
    printed = buf.getvalue()
    out("  stdout:")
    for ln in printed.splitlines():
        out("    |" + ln)


# ----------------------------------------------------------------------------
# 1. hand written csvpaths that walk every branch of next() / _consider_line()
# ----------------------------------------------------------------------------
HAND = [
    ("all-yes", "$basic.csv[*][yes()]"),
    ("all-no", "$basic.csv[*][no()]"),
    ("no-match-part", "$basic.csv[*][]"),
    ("range", "$basic.csv[1-4][yes()]"),
    ("range-reversed", "$basic.csv[6-2][#a]"),
    ("these", "$basic.csv[1+3+5+9][yes()]"),
    ("from", "$basic.csv[3*][#b]"),
    ("single-line", "$basic.csv[5][yes()]"),
    ("line-zero", "$basic.csv[0][yes()]"),
    ("beyond-end", "$basic.csv[50][yes()]"),
    ("header-eq", '$basic.csv[*][#a == "7"]'),
    ("header-eq-num", "$basic.csv[*][#a == 0]"),
    ("two-components", '$basic.csv[*][#a #b == "7"]'),
    ("assignment", "$basic.csv[*][@x = #a @y = add(@y, 1)]"),
    ("count", "$basic.csv[*][@c = count() #c]"),
    ("count-lines", "$basic.csv[*][@l = count_lines() @s = count_scans() gt(#a, 3)]"),
    ("when-do", '$basic.csv[*][#a == "x" -> @found = line_number()]'),
    ("when-do-print", '$basic.csv[*][gt(#a, 5) -> print("big $.csvpath.line_number: $.headers.a")]'),
    ("last", '$basic.csv[*][@n = count_lines() last() -> print("done $.variables.n")]'),
    ("last-trailing", '$trailing.csv[*][@n = count_lines() last() -> print("done $.variables.n")]'),
    ("last-trailing-collect", "$trailing.csv[*][yes() last() -> @end = yes()]"),
    ("trailing-range", "$trailing.csv[1-5][#a]"),
    ("trailing-no", "$trailing.csv[*][no()]"),
    ("header-only", "$header_only.csv[*][yes()]"),
    ("blanks-file", "$blanks.csv[*][yes()]"),
    ("blanks-file-b", "$blanks.csv[*][#1 == 2]"),
    ("single-dups", "$single.csv[1*][@d = has_dups(#0) #0]"),
    ("single-zero", "$single.csv[1*][#n == 0]"),
    ("single-math", "$single.csv[1*][@t = add(@t, #n) gt(@t, 1)]"),
    ("ragged", "$ragged.csv[*][#c]"),
    ("ragged-b", "$ragged.csv[*][not(#b)]"),
    ("stop", "$basic.csv[*][#a == 0 -> stop() yes()]"),
    ("stop-first", "$basic.csv[*][stop()]"),
    ("stop-line", "$basic.csv[*][stop(line_number() == 4) yes()]"),
    ("skip", "$basic.csv[*][skip(#a == 4) @seen = line_number()]"),
    ("skip-after", "$basic.csv[*][@seen = line_number() skip(#a == 4)]"),
    ("advance", "$basic.csv[*][#a == 1 -> advance(2) @seen = line_number()]"),
    ("advance-all", "$basic.csv[*][line_number() == 2 -> advance_all(3) yes()]"),
    ("advance-big", "$basic.csv[*][#a == 4 -> advance(100) yes()]"),
    ("fail", "$basic.csv[*][#a == 4 -> fail() yes()]"),
    ("fail-and-stop", "$basic.csv[*][#a == 4 -> fail_and_stop() yes()]"),
    ("collect-fn", '$basic.csv[*][collect("b", "a") #a]'),
    ("collect-fn-idx", "$basic.csv[1*][collect(2) yes()]"),
    ("collect-fn-short-row", "$basic.csv[1*][collect(3) yes()]"),
    ("collect-fn-unknown", '$basic.csv[1*][collect("nope") yes()]'),
    ("onmatch", "$basic.csv[*][@m.onmatch = count() gt(#a, 3)]"),
    ("onmatch-print", '$basic.csv[*][print.onmatch("m $.csvpath.match_count at $.csvpath.line_number") gt(#a, 3)]'),
    ("return-no-matches", "~ return-mode: no-matches ~ $basic.csv[*][gt(#a, 3)]"),
    ("return-no-matches-range", "~ return-mode: no-matches ~ $basic.csv[2-6][@m.onmatch = count() gt(#a, 3)]"),
    ("unmatched-keep", "~ unmatched-mode: keep ~ $basic.csv[*][gt(#a, 3)]"),
    ("unmatched-keep-collectfn", "~ unmatched-mode: keep ~ $basic.csv[1-7][collect(\"a\") gt(#a, 3)]"),
    ("unmatched-keep-invert", "~ unmatched-mode: keep return-mode: no-matches ~ $basic.csv[*][gt(#a, 3)]"),
    ("or-mode", '~ logic-mode: OR ~ $basic.csv[*][#a == "x" #b == 7 no()]'),
    ("or-mode-assign", "~ logic-mode: OR ~ $basic.csv[*][@x = #b gt(#a, 9)]"),
    ("no-run", "~ run-mode: no-run ~ $basic.csv[*][yes()]"),
    ("explain", "~ explain-mode: explain ~ $basic.csv[1-2][#a == 1]"),
    ("bad-arg", "$basic.csv[*][gt(add(#a, 1), 3)]"),
    ("bad-arg-noraise", "~ validation-mode: no-raise, no-stop, print ~ $basic.csv[*][gt(add(#a, 1), 3)]"),
    ("bad-arg-match", "~ validation-mode: no-raise, no-stop, no-print, match ~ $basic.csv[*][gt(add(#a, 1), 3)]"),
    ("bad-arg-fail", "~ validation-mode: no-raise, no-stop, no-print, fail ~ $basic.csv[*][gt(add(#a, 1), 3)]"),
    ("bad-arg-stop", "~ validation-mode: no-raise, stop, no-print ~ $basic.csv[*][gt(add(#a, 1), 3)]"),
    ("unknown-header", "$basic.csv[*][#nope == 1]"),
    ("div-zero", "$basic.csv[*][@d = divide(#c, #a) yes()]"),
    ("empty-file", "$empty.csv[*][yes()]"),
]

POLICIES = [
    None,
    ["collect", "print"],
    ["collect", "stop", "fail"],
    ["raise", "collect"],
    ["quiet", "collect"],
]

for label, path in HAND:
    run_standalone(label, path, how="collect")

for label, path in HAND:
    if label in (
        "all-yes",
        "stop",
        "skip",
        "advance",
        "collect-fn",
        "onmatch",
        "return-no-matches",
        "unmatched-keep",
        "last-trailing",
        "or-mode",
        "no-run",
    ):
        for how in ("next", "ff", "collect2", "next_break"):
            run_standalone(label, path, how=how, policy=["collect", "print"])

for label, path in HAND:
    if label in (
        "bad-arg",
        "bad-arg-noraise",
        "bad-arg-match",
        "unknown-header",
        "div-zero",
        "collect-fn-short-row",
        "collect-fn-unknown",
        "empty-file",
        "ragged",
    ):
        for policy in POLICIES[1:]:
            run_standalone(label, path, how="collect", policy=policy)
            run_standalone(label, path, how="next", policy=policy)


# programmatic switches that _consider_line() / next() read
def _no_skip_blanks(p):
    p.skip_blank_lines = False


def _collect_not_matched(p):
    p.collect_when_not_matched = True


def _unmatched(p):
    p.unmatched_available = True


def _advance3(p):
    p.advance_count = 3


def _limit(p):
    p.limit_collection_to = [2, 0]


def _limit_bad(p):
    p.limit_collection_to = [7]


for tname, tweak in (
    ("no_skip_blanks", _no_skip_blanks),
    ("collect_not_matched", _collect_not_matched),
    ("unmatched", _unmatched),
    ("advance3", _advance3),
    ("limit", _limit),
    ("limit_bad", _limit_bad),
):
    for label, path in (
        ("t-basic-gt", "$basic.csv[*][gt(#a, 3)]"),
        ("t-basic-range", "$basic.csv[2-7][@c = count() yes()]"),
        ("t-trailing", "$trailing.csv[*][@n = count_lines() #a last() -> @end = @n]"),
        ("t-blanks", "$blanks.csv[*][@s = count_scans() yes()]"),
    ):
        for how in ("collect", "next"):
            run_standalone(
                f"{label}/{tname}",
                path,
                how=how,
                policy=["collect", "print"],
                tweak=tweak,
            )

# repeated runs of the same instance: a second collect() on a finished path
out("=" * 78)
out("REPEAT")
p = CsvPath()
p.config.csvpath_errors_policy = ["collect", "print"]
p.parse("$basic.csv[*][@c = count() gt(#a, 3)]")
out("  first:", p.collect())
try:
    out("  second:", p.collect())
except Exception as ex:  # pylint: disable=W0718
    out("  second RAISED:", ex.__class__.__name__, "|", f"{ex}")
show_state(p)

# ----------------------------------------------------------------------------
# 2. generated csvpaths over the modelled function set
# ----------------------------------------------------------------------------
rnd = random.Random(20240101)
HEADERS = ["#a", "#b", "#c", "#0", "#2"]
TERMS = ['"x"', '"7"', "0", "1", "3", "7", "12", '""', '"z"', "200"]


def gen_value(depth):
    r = rnd.random()
    if depth <= 0 or r < 0.35:
        return rnd.choice(HEADERS + TERMS + ["@v", "@w"])
    k = rnd.choice(
        ["add", "subtract", "multiply", "concat", "length", "upper", "lower", "count", "line_number", "mod"]
    )
    if k in ("count", "line_number"):
        return f"{k}()"
    if k in ("length", "upper", "lower"):
        return f"{k}({gen_value(depth - 1)})"
    return f"{k}({gen_value(depth - 1)}, {gen_value(depth - 1)})"


def gen_bool(depth):
    r = rnd.random()
    if depth <= 0 or r < 0.2:
        return rnd.choice(["yes()", "no()", "#a", "#b", "#c", "@v", "empty(#b)", "exists(#c)"])
    k = rnd.choice(["eq", "gt", "lt", "not", "and", "or", "in", "between", "empty", "equals"])
    if k == "eq":
        # the grammar does not take a term on the left of ==
        left = gen_value(depth - 1)
        while left in TERMS:
            left = gen_value(depth - 1)
        return f"{left} == {gen_value(depth - 1)}"
    if k in ("gt", "lt"):
        return f"{k}({gen_value(depth - 1)}, {gen_value(depth - 1)})"
    if k == "not":
        return f"not({gen_bool(depth - 1)})"
    if k in ("and", "or"):
        return f"{k}({gen_bool(depth - 1)}, {gen_bool(depth - 1)})"
    if k == "in":
        return f'in({gen_value(depth - 1)}, "1|7|x|12")'
    if k == "between":
        return f"between({gen_value(depth - 1)}, 0, 10)"
    if k == "empty":
        return f"empty({gen_value(depth - 1)})"
    return f"equals({gen_value(depth - 1)}, {gen_value(depth - 1)})"


def gen_component(depth):
    r = rnd.random()
    if r < 0.2:
        return f"@{rnd.choice('vw')} = {gen_value(depth - 1)}"
    if r < 0.3:
        q = rnd.choice([".onmatch", ".latch", ".onchange", ".notnone", ".increase", ".asbool", ".nocontrib"])
        return f"@{rnd.choice('vw')}{q} = {gen_value(depth - 1)}"
    if r < 0.45:
        rhs = rnd.choice(
            [
                f"@{rnd.choice('vw')} = {gen_value(depth - 2)}",
                'print("p $.csvpath.line_number")',
                "@hits = add(@hits, 1)",
            ]
        )
        return f"{gen_bool(depth - 1)} -> {rhs}"
    return gen_bool(depth - 1)


def gen_path(filename):
    n = rnd.randint(1, 6)
    comps = [gen_component(rnd.randint(1, 4)) for _ in range(n)]
    if rnd.random() < 0.25:
        comps.append("last() -> @done = count_lines()")
    mode = rnd.choice(["AND", "AND", "OR"])
    if mode == "OR":
        comps = [c for c in comps if ".onmatch" not in c] or ["yes()"]
    scan = rnd.choice(["*", "*", "1*", "1-6", "2+4+5", "0-3"])
    extra = rnd.choice(["", "", "", " return-mode: no-matches", " unmatched-mode: keep"])
    comment = f"~ logic-mode: {mode}{extra} validation-mode: no-raise, no-stop, print ~ "
    return f"{comment}${filename}[{scan}][{' '.join(comps)}]"


GEN_FILES = ["basic.csv", "trailing.csv", "blanks.csv", "single.csv", "ragged.csv"]
for i in range(220):
    fname = GEN_FILES[i % len(GEN_FILES)]
    path = gen_path(fname)
    run_standalone(f"gen-{i}", path, how="collect" if i % 3 else "next", policy=["collect", "print"])


# ----------------------------------------------------------------------------
# 3. CsvPaths: collect_paths / fast_forward_paths / next_by_line / collect_by_line
# ----------------------------------------------------------------------------
def norm(s: str) -> str:
    s = re.sub(r"\d{4}-\d{2}-\d{2}_\d{2}-\d{2}-\d{2}(_\d+|\.\d+)?", "<RUNDIR>", s)
    s = re.sub(r"\d{4}-\d{2}-\d{2}[T ]\d{2}:\d{2}:\d{2}(\.\d+)?(\+00:00|Z)?", "<TIME>", s)
    s = re.sub(r"[0-9a-f]{8}-[0-9a-f]{4}-[0-9a-f]{4}-[0-9a-f]{4}-[0-9a-f]{12}", "<UUID>", s)
    s = re.sub(r"0x[0-9a-f]+", "0x?", s)
    return s


VOLATILE_KEYS = (
    "trace",
    "at",
    "time",
    "uuid",
    "run_uuid",
    "hostname",
    "ip_address",
    "username",
    "total_iteration_time",
    "rows_time",
    "last_row_time",
    "cwd",
    "pid",
)


def volatile(k: str) -> bool:
    return (
        k in VOLATILE_KEYS
        or k.endswith("_time")
        or k.endswith("_at")
        or k == "named_file_last_change"
        # fingerprints of files that hold timestamps, uuids and traces
        or k in ("meta.json", "errors.json", "manifest.json")
    )


def scrub(o):
    if isinstance(o, dict):
        return {
            k: ("<X>" if volatile(k) else scrub(v))
            for k, v in o.items()
        }
    if isinstance(o, list):
        return [scrub(_) for _ in o]
    if isinstance(o, str):
        return norm(o.replace(os.getcwd(), "<CWD>"))
    return o


def dump_tree(root: str) -> None:
    out(f"  TREE {root}")
    if not os.path.exists(root):
        out("    (missing)")
        return
    entries = []
    for dirpath, dirnames, filenames in os.walk(root):
        dirnames.sort()
        for fn in sorted(filenames):
            entries.append(os.path.join(dirpath, fn))
    # normalise first, then sort, so that ordering does not depend on timestamps
    for full in sorted(entries, key=norm):
        out("    FILE", norm(full))
        try:
            with open(full, "r", encoding="utf-8") as f:
                content = f.read()
        except Exception as ex:  # pylint: disable=W0718
            out("      (unreadable)", ex.__class__.__name__)
            continue
        if full.endswith(".json"):
            try:
                j = scrub(json.loads(content))
                content = json.dumps(j, indent=1, sort_keys=True)
            except Exception:  # pylint: disable=W0718
                content = norm(content)
        else:
            content = norm(content.replace(os.getcwd(), "<CWD>"))
        for ln in content.splitlines():
            out("      |" + ln)


GROUP = [
    "~ id: yes ~ $[*][yes()]",
    '~ id: three ~ $[*][#a == "4" @c = count()]',
    "~ id: big unmatched-mode: keep ~ $[*][gt(#a, 3) @l.onmatch = line_number()]",
    "~ id: inverted return-mode: no-matches ~ $[1*][gt(#a, 3)]",
    '~ id: stopper ~ $[*][#a == 0 -> stop() collect("a", "c") yes()]',
    '~ id: printer ~ $[*][last() -> print("the end: $.csvpath.count_lines") #b]',
    "~ id: err validation-mode: no-raise, no-stop, print ~ $[*][gt(add(#a, 1), 3)]",
    "~ id: norun run-mode: no-run ~ $[*][yes()]",
]


def result_lines(r):
    lines = r.lines
    if lines is None:
        return None
    if hasattr(lines, "next"):
        return [list(_) for _ in lines.next()]
    return [list(_) for _ in lines]


def run_group(method: str, filename: str, **kw) -> None:
    out("=" * 78)
    out(f"GROUP {method} file={filename} kw={kw}")
    shutil.rmtree("archive", ignore_errors=True)
    shutil.rmtree("inputs", ignore_errors=True)
    shutil.rmtree("cache", ignore_errors=True)
    buf = io.StringIO()
    cp = None
    got = None
    try:
        with contextlib.redirect_stdout(buf):
            cp = CsvPaths()
            cp.file_manager.add_named_file(name="f", path=filename)
            cp.paths_manager.add_named_paths(name="grp", paths=GROUP)
            m = getattr(cp, method)
            if method.startswith("next"):
                got = []
                for line in m(filename="f", pathsname="grp", **kw):
                    got.append(list(line))
            else:
                got = m(filename="f", pathsname="grp", **kw)
    except Exception as ex:  # pylint: disable=W0718
        out("  RAISED:", ex.__class__.__name__, "|", norm(f"{ex}"))
    out("  returned:", repr(got))
    if cp is not None:
        try:
            for r in cp.results_manager.get_named_results("grp"):
                c = r.csvpath
                out(
                    "  result",
                    c.identity,
                    "| lines",
                    result_lines(r),
                    "| unmatched",
                    repr(r.unmatched),
                )
                out(
                    "     valid",
                    c.is_valid,
                    "stopped",
                    c.stopped,
                    "match",
                    c.match_count,
                    "scan",
                    c.scan_count,
                    "vars",
                    repr(c.variables),
                    "errors",
                    len(r.errors or []),
                    "printouts",
                    norm(repr(r.get_printouts())),
                )
        except Exception as ex:  # pylint: disable=W0718
            out("  RESULTS RAISED:", ex.__class__.__name__, "|", norm(f"{ex}"))
    out("  stdout:")
    for ln in buf.getvalue().splitlines():
        out("    |" + norm(ln))
    dump_tree("archive")


for fname in ("basic.csv", "trailing.csv"):
    run_group("collect_paths", fname)
    run_group("fast_forward_paths", fname)
    run_group("next_paths", fname)
    run_group("collect_by_line", fname)
    run_group("collect_by_line", fname, if_all_agree=True)
    run_group("collect_by_line", fname, collect_when_not_matched=True)
    run_group("fast_forward_by_line", fname)
    run_group("next_by_line", fname, if_all_agree=False, collect_when_not_matched=True)
run_group("collect_paths", "blanks.csv")
run_group("collect_by_line", "ragged.csv")
out("DONE")
