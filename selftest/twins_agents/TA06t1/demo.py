"""Differential demo for refactoring t1 (LineCounter.get_lines_and_headers / clean_headers).

Run in an empty scratch directory (it creates ./config, ./data, ./cache, ./archive, ...):

    mkdir -p /tmp/demo_TWC06_1 && cd /tmp/demo_TWC06_1 && \
        PYTHONPATH=<tree> /venv/bin/python /tmp/wt/TWC06.out/t1/demo.py > out.txt

The transcript printed on stdout is deterministic: nothing in it depends on the
clock, on directory iteration order, or on absolute paths.
"""
import csv
import hashlib
import io
import os
import random
import re
import shutil
import sys
import contextlib

CONFIG = """[csvpath_files]
extensions = txt, csvpath, csvpaths

[csv_files]
extensions = txt, csv, tsv, dat, tab, psv, ssv

[errors]
csvpath = raise, collect, stop, fail, print
csvpaths = raise, collect

[logging]
csvpath = info
csvpaths = info
log_file = logs/csvpath.log
log_files_to_keep = 100
log_file_size = 52428800

[config]
path = config/config.ini

[cache]
path = cache

[listeners]
[marquez]
base_url = http://localhost:5000

[functions]
imports = config/functions.imports

[results]
archive = archive
transfers = transfers

[inputs]
files = inputs/named_files
csvpaths = inputs/named_paths
on_unmatched_file_fingerprints = halt
"""

HERE = os.getcwd()


def fresh_dirs():
    for d in ("config", "data", "cache", "archive", "inputs", "logs", "transfers"):
        shutil.rmtree(os.path.join(HERE, d), ignore_errors=True)
    os.makedirs("config")
    os.makedirs("data")
    with open("config/config.ini", "w", encoding="utf-8") as f:
        f.write(CONFIG)
    with open("config/functions.imports", "w", encoding="utf-8") as f:
        f.write("")


fresh_dirs()

from csvpath import CsvPath, CsvPaths  # noqa: E402
from csvpath.util.line_counter import LineCounter  # noqa: E402
from csvpath.util.line_monitor import LineMonitor  # noqa: E402

OUT = sys.stdout


def say(*a):
    print(*a, file=OUT)


def norm(s: str) -> str:
    """normalise run-dir timestamps, absolute paths, uuids and times"""
    s = s.replace(HERE, "<HERE>")
    s = re.sub(r"\b[0-9a-f]{64}\b", "<SHA256>", s)
    s = re.sub(r"\d{4}-\d{2}-\d{2}_\d{2}-\d{2}-\d{2}([_.]\d+)?", "<RUNDIR>", s)
    s = re.sub(r"\d{4}-\d{2}-\d{2}[T ]\d{2}:\d{2}:\d{2}(\.\d+)?(\+00:00|Z)?", "<TS>", s)
    return s


# ---------------------------------------------------------------------------
# deterministic CSV generation, following the quantifier of the property
# ---------------------------------------------------------------------------
ALPHABET = [
    "a", "b", "Z", "0", "1", "7", " ", " ", "  ", ",", ";", "|", "\t", "`", '"', "'",
    "\n", "é", "ß", "日本", " ", " ", "#", "$", "[", "]", "\\", "-", ".",
    "None", "nan", "x y", "\U0001F600", "́", "0.0", "00",
]
DELIMS = [",", ";", "|", "\t"]
QUOTES = ['"', "'"]


def gen_cell(rnd):
    k = rnd.choice([0, 0, 1, 1, 2, 3, 5])
    return "".join(rnd.choice(ALPHABET) for _ in range(k))


def gen_records(rnd):
    n = rnd.randint(0, 12)
    recs = []
    for _ in range(n):
        if rnd.random() < 0.25:
            recs.append([])  # blank record
        else:
            recs.append([gen_cell(rnd) for _ in range(rnd.randint(0, 6))])
    return recs


def write_csv(path, recs, delim, quote):
    with open(path, "w", encoding="utf-8", newline="") as f:
        w = csv.writer(f, delimiter=delim, quotechar=quote)
        for r in recs:
            w.writerow(r)


def attempt(label, fn):
    """runs fn, printing either its result or the exception it raised"""
    buf = io.StringIO()
    try:
        with contextlib.redirect_stdout(buf):
            r = fn()
        say(f"{label} -> {r!r}")
    except Exception as e:  # pylint: disable=W0718
        say(f"{label} !! {type(e).__name__}: {norm(str(e))}")
    printed = buf.getvalue()
    if printed:
        say(f"{label} printed: {norm(printed)!r}")


# ---------------------------------------------------------------------------
say("=== A. LineCounter.clean_headers, direct")
# ---------------------------------------------------------------------------
HEADER_CASES = [
    [],
    [""],
    ["a", "b", "c"],
    [" a ", "\tb\t", "\nc\n", " d e "],
    ["a;b", "a,b", "a|b", "a\tb", "a`b"],
    [";,|\t`", " ; , | \t ` ", "``;;"],
    ["; a ;", " ;a; ", ";\t a \t;"],
    ["'q'", '"q"', "#h", "$x", "a.b", "a b"],
    ["日本", " é ", " nbsp ", " em ", "x́"],
    ["a", "a", "A", ""],
    ["0", "00", " 1 ", "1,000"],
    ("t", "u;p", " le "),
    ["a\nb", "a\r\nb", "\x0b v \x0c"],
]
for i, hs in enumerate(HEADER_CASES):
    before = list(hs)
    attempt(f"A{i} clean_headers({hs!r})", lambda hs=hs: LineCounter.clean_headers(hs))
    say(f"A{i} input unchanged: {list(hs) == before}")
attempt("A-inst via instance", lambda: LineCounter(None).clean_headers([" x;y "]))
attempt("A-err None", lambda: LineCounter.clean_headers(None))
attempt("A-err int cell", lambda: LineCounter.clean_headers(["a", 5, "b"]))
attempt("A-err None cell", lambda: LineCounter.clean_headers([" a", None]))
attempt("A-err bytes cell", lambda: LineCounter.clean_headers([b" a;b "]))
attempt("A-str as list", lambda: LineCounter.clean_headers("a;b c"))
attempt("A-generator", lambda: LineCounter.clean_headers(x for x in [" g,1 ", "h"]))
rnd = random.Random(606)
for i in range(40):
    hs = [gen_cell(rnd) for _ in range(rnd.randint(0, 6))]
    attempt(f"A-rnd{i} {hs!r}", lambda hs=hs: LineCounter.clean_headers(hs))


# ---------------------------------------------------------------------------
say("=== B. LineCounter.get_lines_and_headers on generated files")
# ---------------------------------------------------------------------------
class Owner:
    """the minimum a LineCounter needs from its owner. records attribute reads
    of skip_blank_lines so that the number and order of reads is observable."""

    def __init__(self, delimiter, quotechar, skip):
        self.delimiter = delimiter
        self.quotechar = quotechar
        self._skip = skip
        self.skip_reads = 0
        self.logged = []

        class _L:
            def info(s, msg, *args):  # noqa: N805
                self.logged.append(msg)

        self.logger = _L()

    @property
    def skip_blank_lines(self):
        self.skip_reads += 1
        return self._skip


def count(path, delim, quote, skip):
    o = Owner(delim, quote, skip)
    lm, headers = LineCounter(o).get_lines_and_headers(path)
    return (lm.dump(), headers, type(headers).__name__, o.skip_reads, o.logged)


FIXED = {
    "empty": [],
    "one_blank": [[]],
    "only_blanks": [[], [], []],
    "blank_then_hdr": [[], [], ["h1", "h2"], ["1", "2"]],
    "hdr_then_blank": [["h1", "h2"], [], ["1", "2"], []],
    "hdr_empty_cell": [[""], ["x"]],
    "hdr_empty_cells": [["", ""], ["x", "y"]],
    "ragged": [["a", "b", "c"], ["1"], ["1", "2", "3", "4", "5"], [], ["1", "2"]],
    "junk_hdr": [[" a;a ", "b,b", "c|c", "d\td", "e`e", " f "], ["1", "2", "3", "4", "5", "6"]],
    "quoted": [['say "hi"', "it's", "a,b;c|d\te"], ["line\nbreak", "", " "]],
    "unicode": [["日本", "é", "\U0001F600"], ["ß", " ", "x́"]],
    "dup_hdr": [["a", "a", "b"], ["1", "2", "3"]],
    "numeric_hdr": [["0", "1", "2"], ["x", "y", "z"]],
    "trailing_blanks": [["a"], ["1"], [], []],
}
FILES = []  # (name, path, delim, quote, records)
for name, recs in FIXED.items():
    for d in DELIMS:
        for q in QUOTES:
            dn = {",": "c", ";": "s", "|": "p", "\t": "t"}[d]
            qn = {'"': "d", "'": "s"}[q]
            path = f"data/{name}_{dn}{qn}.csv"
            write_csv(path, recs, d, q)
            FILES.append((f"{name}_{dn}{qn}", path, d, q, recs))
rnd = random.Random(60606)
for i in range(60):
    recs = gen_records(rnd)
    d = rnd.choice(DELIMS)
    q = rnd.choice(QUOTES)
    path = f"data/rnd{i:02d}.csv"
    write_csv(path, recs, d, q)
    FILES.append((f"rnd{i:02d}", path, d, q, recs))

for name, path, d, q, recs in FILES:
    with open(path, "rb") as f:
        digest = hashlib.sha256(f.read()).hexdigest()[:12]
    say(f"B {name} delim={d!r} quote={q!r} sha={digest} records={recs!r}")
    for skip in (True, False):
        attempt(f"B {name} skip={skip}", lambda: count(path, d, q, skip))
    # read with the "wrong" dialect too: the default one
    attempt(f"B {name} default dialect", lambda: count(path, ",", '"', True))
    # None dialect: the reader falls back to its defaults
    attempt(f"B {name} None dialect", lambda: count(path, None, None, True))

attempt("B missing file", lambda: count("data/nope.csv", ",", '"', True))
attempt("B directory", lambda: count("data", ",", '"', True))
attempt("B sheet on csv", lambda: count("data/empty_cd.csv#sheet", ",", '"', True))
attempt("B bad delimiter", lambda: count("data/ragged_cd.csv", ",,", '"', True))
attempt("B None path", lambda: count(None, ",", '"', True))
with open("data/latin1.csv", "wb") as f:
    f.write("a,b\n\xe9,1\n".encode("latin-1"))
attempt("B undecodable", lambda: count("data/latin1.csv", ",", '"', True))
with open("data/cr_only.csv", "wb") as f:
    f.write(b"a,b\r1,2\r\r3,4")
attempt("B cr only", lambda: count("data/cr_only.csv", ",", '"', True))
with open("data/spaces.csv", "wb") as f:
    f.write(b"   \n \n a , b \n1,2\n")
attempt("B whitespace lines skip", lambda: count("data/spaces.csv", ",", '"', True))
attempt("B whitespace lines noskip", lambda: count("data/spaces.csv", ",", '"', False))
with open("data/unterminated.csv", "wb") as f:
    f.write(b'a,b\n"1,2\n3,4\n')
attempt("B unterminated quote", lambda: count("data/unterminated.csv", ",", '"', True))
# repeated runs with the same counter
o = Owner(",", '"', True)
lc = LineCounter(o)
for i in range(3):
    attempt(f"B repeat {i}", lambda: [x if not isinstance(x, LineMonitor) else x.dump() for x in lc.get_lines_and_headers("data/ragged_cd.csv")])
say(f"B repeat skip reads: {o.skip_reads} logged: {o.logged}")


# ---------------------------------------------------------------------------
say("=== C. standalone CsvPath: headers, line monitor, lines")
# ---------------------------------------------------------------------------
def standalone(path, d, q, skip, match):
    p = CsvPath(delimiter=d, quotechar=q, skip_blank_lines=skip)
    p.parse(f"${path}[*][{match}]")
    lines = []
    raised = None
    try:
        for line in p.next():
            lines.append(line)
    except Exception as e:  # pylint: disable=W0718
        raised = f"{type(e).__name__}: {norm(str(e))}"
    return {
        "lines": lines,
        "raised": raised,
        "headers": p.headers,
        "lm": p.line_monitor.dump(),
        "vars": p.variables,
        "valid": p.is_valid,
        "errors": [norm(str(e.message if hasattr(e, "message") else e)) for e in (p.errors or [])],
        "counts": (p.scan_count, p.match_count),
    }


for name, path, d, q, recs in FILES:
    for skip in (True, False):
        attempt(f"C {name} skip={skip} yes()", lambda: standalone(path, d, q, skip, "yes()"))
    first = next((r for r in recs if len(r) > 0), None)
    attempt(
        f"C {name} by index/name",
        lambda: standalone(
            path, d, q, True,
            "@c0 = #0 @c2 = #2 @n = count_headers() @hn = header_name(0) @last.onmatch = line_number()",
        ),
    )
    if first is not None:
        cleaned = LineCounter.clean_headers(first)
        for i, h in enumerate(cleaned):
            if re.fullmatch(r"[A-Za-z][A-Za-z0-9_]*", h):
                attempt(
                    f"C {name} #{h} vs #{i}",
                    lambda: standalone(path, d, q, True, f"@byname = #{h} @byindex = #{i} @idx = header_index(\"{h}\")"),
                )
                break

attempt("C total lines of ragged", lambda: (lambda p: (p.parse("$data/ragged_cd.csv[*][yes()]"), p.get_total_lines(), p.headers)[1:])(CsvPath()))
attempt("C headers before run", lambda: (lambda p: (p.parse("$data/junk_hdr_cd.csv[1][yes()]"), p.headers, p.line_monitor.dump(), p.collect())[1:])(CsvPath()))
attempt("C reset_headers", lambda: standalone("data/blank_then_hdr_cd.csv", ",", '"', True, "line_number()==3 -> reset_headers() @h = header_name(0) @n = count_headers()"))
with open("data/rehdr.csv", "w", encoding="utf-8", newline="") as f:
    f.write("a,b,c\n1,2,3\n\" x;x \",\"y,y\",\"z|z`\"\n4,5,6\n")
attempt("C reset_headers junk", lambda: standalone("data/rehdr.csv", ",", '"', True, "line_number()==2 -> reset_headers() @h0 = header_name(0) @h1 = header_name(1) @h2 = header_name(2) @v = #xx"))
attempt("C missing file", lambda: standalone("data/nope.csv", ",", '"', True, "yes()"))


# ---------------------------------------------------------------------------
say("=== D. CsvPaths: cached headers and line monitors, archive")
# ---------------------------------------------------------------------------
def tree(root):
    out = []
    for dp, dns, fns in os.walk(root):
        dns.sort()
        for fn in sorted(fns):
            out.append(os.path.join(dp, fn))
    return out


def show_tree(label, root, contents=True):
    for path in tree(root):
        shown = norm(path)
        if not contents:
            say(f"{label} file {shown}")
            continue
        with open(path, "rb") as f:
            data = f.read()
        if path.endswith((".csv", ".txt")) or "cache" in root:
            say(f"{label} file {shown}: {norm(data.decode('utf-8'))!r}")
        else:
            say(f"{label} file {shown}: {len(data) > 0}")


GROUP = ["ragged_cd", "junk_hdr_sd", "blank_then_hdr_ps", "quoted_td", "only_blanks_cd", "empty_cd", "rnd03", "rnd17", "rnd31"]
for skip in (True, False):
    for name, path, d, q, recs in FILES:
        if name not in GROUP:
            continue
        shutil.rmtree("cache", ignore_errors=True)
        shutil.rmtree("archive", ignore_errors=True)
        shutil.rmtree("inputs", ignore_errors=True)

        def run():
            cp = CsvPaths(delimiter=d, quotechar=q, skip_blank_lines=skip)
            cp.file_manager.add_named_file(name="f", path=path)
            cp.paths_manager.add_named_paths(
                name="p",
                paths=["~id:all~ $[*][yes()]", "~id:hdrs~ $[*][@n = count_headers() @h0 = header_name(0) @v0 = #0 no()]"],
            )
            res = []
            for rep in range(2):
                try:
                    cp.collect_paths(filename="f", pathsname="p")
                except Exception as e:  # pylint: disable=W0718
                    res.append((rep, "raised", f"{type(e).__name__}: {norm(str(e))}"))
                for r in cp.results_manager.get_named_results("p"):
                    res.append(
                        (
                            rep,
                            r.csvpath.identity,
                            list(r.lines.next()) if r.lines is not None else None,
                            r.csvpath.headers,
                            r.csvpath.line_monitor.dump(),
                            r.csvpath.variables,
                            r.csvpath.is_valid,
                            len(r.errors or []),
                        )
                    )
            # a second CsvPaths picks the headers up from ./cache
            cp2 = CsvPaths(delimiter=d, quotechar=q, skip_blank_lines=skip)
            key = cp.file_manager.get_named_file("f")
            res.append(("cached", cp2.file_manager.cacher.get_original_headers(key), cp2.file_manager.cacher.get_new_line_monitor(key).dump()))
            return res

        attempt(f"D {name} skip={skip}", run)
        show_tree(f"D {name} skip={skip} cache", "cache")
        rundirs = sorted(os.listdir("archive/p")) if os.path.isdir("archive/p") else []
        for path2 in tree("archive"):
            for k, rd in enumerate(rundirs):
                # run dirs are named for the second the run started, with a
                # numeric suffix when two runs share a second: name them by order
                if path2.startswith(f"archive/p/{rd}/"):
                    path2show = path2.replace(f"archive/p/{rd}/", f"archive/p/<RUN{k}>/")
                    break
            else:
                path2show = path2
            if path2.endswith("data.csv") or path2.endswith("unmatched.csv"):
                with open(path2, "rb") as f:
                    say(f"D {name} skip={skip} archive {norm(path2show)}: {f.read().decode('utf-8')!r}")
            else:
                say(f"D {name} skip={skip} archive {norm(path2show)}")

say("=== done")
