# Differential demonstration for property C06
#   "Lines are delivered as they are in the file; headers are the first data line"
#
# Run in an empty scratch directory (it writes ./config, ./logs, ./cache,
# ./archive, ./inputs and its data files there):
#
#     cd /tmp/demo_X && PYTHONPATH=<tree> /venv/bin/python demo.py > out.txt
#
# The transcript is deterministic: run directories, timestamps, uuids and the
# scratch directory's own path are normalised; tracebacks are never printed
# (they hold source line numbers, which any edit moves).
#
import csv
import io
import json
import os
import random
import re
import shutil
import sys

CONFIG = """[csvpath_files]
extensions = txt, csvpath, csvpaths

[csv_files]
extensions = txt, csv, tsv, dat, tab, psv, ssv

[errors]
csvpath = collect, fail, print
csvpaths = collect

[logging]
csvpath = info
csvpaths = info
log_file = logs/csvpath.log
log_files_to_keep = 100
log_file_size = 52428800

[config]
path = config/config.ini

[cache]
path = cache

[listeners]
[marquez]
base_url = http://localhost:5000

[functions]
imports = config/functions.imports

[results]
archive = archive
transfers = transfers

[inputs]
files = inputs/named_files
csvpaths = inputs/named_paths
on_unmatched_file_fingerprints = halt
"""

CWD = os.getcwd()
os.makedirs("config", exist_ok=True)
with open("config/config.ini", "w", encoding="utf-8") as _f:
    _f.write(CONFIG)
with open("config/functions.imports", "w", encoding="utf-8") as _f:
    _f.write("")

from csvpath import CsvPath, CsvPaths  # noqa: E402
from csvpath.util.line_counter import LineCounter  # noqa: E402
from csvpath.util.line_monitor import LineMonitor  # noqa: E402
from csvpath.util.file_readers import DataFileReader, CsvDataReader  # noqa: E402
from csvpath.matching.matcher import Matcher  # noqa: E402
from csvpath.matching.productions.header import Header  # noqa: E402


# ----------------------------------------------------------------------------
# transcript helpers
# ----------------------------------------------------------------------------
def norm(s: str) -> str:
    s = s.replace(CWD, "<CWD>")
    s = re.sub(r"\d{4}-\d{2}-\d{2}_\d{2}-\d{2}-\d{2}(_\d+)?", "<RUN>", s)
    s = re.sub(
        r"\d{4}-\d{2}-\d{2}[ T]\d{2}:\d{2}:\d{2}(\.\d+)?(\+00:00|Z)?", "<TIME>", s
    )
    s = re.sub(
        r"[0-9a-f]{8}-[0-9a-f]{4}-[0-9a-f]{4}-[0-9a-f]{4}-[0-9a-f]{12}", "<UUID>", s
    )
    s = re.sub(r" object at 0x[0-9a-f]+>", " object at <ADDR>>", s)
    return s


def out(*args) -> None:
    print(norm(" ".join(str(a) for a in args)))
    sys.stdout.flush()


def section(title: str) -> None:
    out("")
    out("=" * 8, title)


def exc(e: Exception) -> str:
    msg = f"{e}"
    # lark lists what it expected from a set, in no fixed order
    i = msg.find("Expected one of")
    if i > -1:
        msg = msg[0:i] + "Expected one of: <SET>"
    return f"{e.__class__.__name__}: {msg}"


def errors_of(p) -> list:
    es = p.errors
    if not es:
        return []
    return [
        (e.line_count, e.error.__class__.__name__, str(e.error), e.source.__class__.__name__)
        for e in es
    ]


class Capture:
    """a printer that keeps what the csvpath prints"""

    def __init__(self):
        self.lines = []
        self.last_line = None
        self.lines_printed = 0

    def print(self, string):
        self.print_to(None, string)

    def print_to(self, name, string):
        self.lines.append((name, string))
        self.last_line = string
        self.lines_printed += 1


def write_csv(path, rows, delimiter=",", quotechar='"'):
    with open(path, "w", newline="", encoding="utf-8") as f:
        w = csv.writer(f, delimiter=delimiter, quotechar=quotechar)
        for r in rows:
            w.writerow(r)


def run(
    csvpath,
    *,
    method="collect",
    delimiter=",",
    quotechar='"',
    skip_blank_lines=True,
    label=None,
    show_headers=True,
):
    """one standalone CsvPath run; prints everything observable"""
    out("--", label if label else csvpath.replace("\n", " "))
    cap = Capture()
    p = None
    try:
        p = CsvPath(
            delimiter=delimiter,
            quotechar=quotechar,
            skip_blank_lines=skip_blank_lines,
            print_default=False,
        )
        p.add_printer(cap)
        p.parse(csvpath)
        if show_headers:
            out("   headers:", p.headers)
        lines = None
        if method == "collect":
            lines = p.collect()
        elif method == "next":
            lines = []
            for line in p.next():
                lines.append(line[:])
        else:
            p.fast_forward()
        if lines is not None:
            out("   lines  :", len(lines))
            for line in lines:
                out("     ", repr(line))
    except Exception as e:  # pylint: disable=W0718
        out("   raised :", exc(e))
        c = e.__cause__
        while c is not None:
            out("     cause:", exc(c))
            c = c.__cause__
    if p is not None:
        out("   vars   :", repr(p.variables))
        out("   valid  :", p.is_valid, "stopped:", p.stopped, "aborted:", p.aborted)
        out("   counts :", p.scan_count, p.match_count)
        out("   hdrs   :", repr(p._headers))  # pylint: disable=W0212
        if p.unmatched is not None:
            out("   unmatch:", repr(p.unmatched))
        if p._line_monitor is not None:  # pylint: disable=W0212
            out("   monitor:", p._line_monitor.dump())  # pylint: disable=W0212
        for e in errors_of(p):
            out("   error  :", repr(e))
    for name, s in cap.lines:
        out("   print  :", repr(name), repr(s))
    return p


# ----------------------------------------------------------------------------
# data
# ----------------------------------------------------------------------------
DIALECTS = [(",", '"'), (";", '"'), ("|", "'"), ("\t", "'"), (",", "'"), ("\t", '"')]

ALPHABET = [
    "a",
    "b",
    "Z",
    "0",
    "1",
    "7",
    " ",
    "  ",
    ",",
    ";",
    "|",
    "\t",
    '"',
    "'",
    "\n",
    "`",
    "é",
    "ü",
    "日本",
    "😀",
    "-",
    ".",
    "_",
    "#",
    "$",
    " ",
    "٣",
]


def random_cell(rnd):
    n = rnd.choice([0, 0, 1, 1, 2, 3, 5])
    return "".join(rnd.choice(ALPHABET) for _ in range(n))


def random_rows(rnd):
    rows = []
    for _ in range(rnd.randint(0, 12)):
        if rnd.random() < 0.2:
            rows.append([])
        else:
            rows.append([random_cell(rnd) for _ in range(rnd.randint(0, 6))])
    return rows


FIXED = [
    ["id", "first name", "b", "3", "c.d", "e_f"],
    ["1", "Ann", "x", "three", "cd1", ""],
    [],
    ["2", "Bob"],
    ["3", " Cy ", "0", "", "cd3", "ef3", "extra"],
    ["", "", "", "", "", ""],
    ["5", 'D"e', "q,r;s|t\tu", "l\nm", "日本", "😀"],
    [],
    ["6"],
    ["7", "Gus", "false", "3", "cd7", "ef7"],
]


# ----------------------------------------------------------------------------
# 1. lines are delivered as they are in the file, for every dialect
# ----------------------------------------------------------------------------
def part_lines():
    section("1. generated files, every dialect: lines, headers, name == index")
    rnd = random.Random(6006)
    for i in range(36):
        delimiter, quotechar = DIALECTS[i % len(DIALECTS)]
        rows = random_rows(rnd)
        name = f"gen{i}.csv"
        write_csv(name, rows, delimiter, quotechar)
        out("")
        out("file", name, "delimiter", repr(delimiter), "quotechar", repr(quotechar))
        out("rows", repr(rows))
        skip = i % 5 != 4
        p = run(
            f"${name}[*][yes()]",
            delimiter=delimiter,
            quotechar=quotechar,
            skip_blank_lines=skip,
            method="collect" if i % 2 == 0 else "next",
        )
        #
        # every cell by index, into variables, with last() reporting on a
        # possibly blank last line
        #
        width = max([len(r) for r in rows] + [1])
        sets = " ".join(f"push(\"c{k}\", #{k})" for k in range(width + 1))
        run(
            f"${name}[*][{sets} last.nocontrib() -> @done = line_number()]",
            delimiter=delimiter,
            quotechar=quotechar,
            skip_blank_lines=skip,
            method="fast_forward",
            show_headers=False,
        )
        #
        # the header names the file has, looked up both ways
        #
        if p is not None and p._headers:  # pylint: disable=W0212
            for k, h in enumerate(p._headers):  # pylint: disable=W0212
                try:
                    out(
                        "   header_index",
                        k,
                        repr(h),
                        "csvpath:",
                        p.header_index(h),
                        "matcher:",
                        p.matcher.header_index(h) if p.matcher else None,
                        "name:",
                        repr(p.matcher.header_name(k)) if p.matcher else None,
                    )
                except Exception as e:  # pylint: disable=W0718
                    out("   header_index raised", exc(e))


# ----------------------------------------------------------------------------
# 2. #name and #index address the same cell; short rows read as absent
# ----------------------------------------------------------------------------
HEADER_PATHS = [
    "[@id=#id @i0=#0 @b=#b @i2=#2 @three=#3 @e=#e_f @i5=#5 @i6=#6 @i60=#60]",
    '[@n=#"first name" @i1=#1 @cd=#c.d @i4=#4]',
    '[#b]',
    '[#2]',
    '[#9]',
    '[#nosuch]',
    '[not(#nosuch)]',
    '[#b.asbool]',
    '[#2.asbool]',
    '[#b == #2 #0 == #id #"first name" == #1]',
    '[#b == "x"]',
    '[#3 == "three"]',
    '[#1 == "Cy"]',
    '[@l = length(#1) @u = upper(#"first name")]',
    '[print("$.headers.id|$.headers.0|$.headers.b|$.headers.2|$.headers.5|$.headers.9")]',
    '[print("$.headers.\'first name\'|$.csvpath.headers")]',
    '[@a=header_name(0) @b=header_name(5) @c=header_name(6) @d=header_index("id") @e=header_index("e_f") @f=header_index("zzz")]',
    '[header_name(0, "id") header_index("b", 2)]',
    '[header_name(0, "b")]',
    '[header_name("b")]',
    '[header_index(2)]',
    '[headers("b") headers(2)]',
    '[headers("nope")]',
    '[headers(17)]',
    '[@e=end() @e1=end(1) @ch=count_headers() @cl=count_headers_in_line()]',
    '[@m=mismatch() @ms=mismatch("signed")]',
    '[collect("id", 2, "e_f")]',
    '[collect(0)]',
    '[collect("id", "nosuch")]',
    '[collect(1, 7)]',
    '[#0 == "1" collect("first name", "b")]',
    '[replace("b", "B!") replace(0, line_number())]',
    '[replace(#id, "nope")]',
    '[append("line", line_number(), yes())]',
    '[append("b", "again")]',
    '[line_number() == 3 -> reset_headers() @z=#0 @nm=header_name(0) push("hs", header_name(1))]',
    '[line_number() == 4 -> reset_headers(skip()) push("first", #0) push("five", #5) push("cy", #Cy)]',
    '[header_names_mismatch("id|first name|b|3|c.d|e_f")]',
    '[header_names_mismatch("id|b|first name|zzz")]',
    '[line(string("id"), string("first name"), blank("b"), blank("3"), blank("c.d"), blank("e_f"))]',
    '[line(integer("id"), string("first name"), blank(), blank(), blank(), none("e_f"))]',
    '[integer("id")]',
    '[integer("b")]',
    '[integer("nosuch")]',
    '[integer(5)]',
    '[none("e_f")]',
    '[none("nosuch")]',
    '[boolean("b")]',
    '[string("first name", 3)]',
    '[string.notnone("3")]',
    '[decimal("id") date("b", "%Y")]',
    '[empty(#e_f)]',
    '[empty_stack(#b, #3)]',
    '[all(#id, #1)]',
    '[any(headers())]',
    '[all(headers())]',
    '[exists(#5)]',
    '[@t = total_lines() @d = count_lines() last() -> @l = line_number()]',
    '[firstline() -> @f=#0 firstscan() -> @s=#1 firstmatch() -> @m=#2]',
    '[print_line() print_line(" / ", "single")]',
    '[has_dups(#b)]',
    '[@mx = max(#id) @mn = min(#0)]',
    '[tally(#b) count(#2) == 1]',
    '[above(#id, 2) stop(#id == "6")]',
    '[skip(#id == "2") @seen = #id]',
    '[fail(#id == "3") #id]',
    '[after_blank() -> @ab = #0]',
]


def part_headers():
    section("2. one fixed file, header by name and by index, every dialect")
    for delimiter, quotechar in DIALECTS[0:4]:
        name = "fixed.csv" if delimiter == "," else "fixed.dat"
        write_csv(name, FIXED, delimiter, quotechar)
        out("")
        out("file", name, "delimiter", repr(delimiter), "quotechar", repr(quotechar))
        paths = HEADER_PATHS if delimiter in [",", "|"] else HEADER_PATHS[0:16]
        for i, mp in enumerate(paths):
            run(
                f"${name}[*]{mp}",
                delimiter=delimiter,
                quotechar=quotechar,
                method=["collect", "next", "fast_forward"][i % 3] if i > 2 else "collect",
                show_headers=False,
            )
    section("2b. scans, modes, blank lines kept")
    write_csv("fixed.csv", FIXED)
    for scan in ["1*", "0", "2", "2-4", "3+5+8", "7*", "1-3"]:
        run(f"$fixed.csv[{scan}][@id=#id @z=#0 #1]", show_headers=False)
    run("$fixed.csv[*][@id=#id @i0=#0 @b=#b @i2=#2]", skip_blank_lines=False)
    run("$fixed.csv[*][yes()]", skip_blank_lines=False)
    run("$fixed.csv[*][collect(0, 1)]", skip_blank_lines=False)
    run("~ return-mode: no-matches ~ $fixed.csv[*][#b]")
    run("~ logic-mode: OR ~ $fixed.csv[*][#b == \"x\" #id == \"7\"]")
    run("~ unmatched-mode: keep ~ $fixed.csv[*][#b collect(\"id\", \"b\")]")
    run("~ unmatched-mode: keep ~ $fixed.csv[*][#3]", skip_blank_lines=False)
    run("~ validation-mode: raise, print ~ $fixed.csv[*][integer(\"b\")]")
    run("~ validation-mode: raise ~ $fixed.csv[*][collect(\"nosuch\")]")
    run("~ validation-mode: no-raise, no-print, no-fail ~ $fixed.csv[*][integer(\"nosuch\") none(\"id\")]")
    run("~ validation-mode: raise ~ $fixed.csv[*][integer(\"nosuch\")]")
    run("~ validation-mode: raise, no-print ~ $fixed.csv[*][string(\"e_f\")]", method="fast_forward")
    run("~ validation-mode: raise ~ $fixed.csv[*][boolean(\"b\")]", method="next")
    run("~ validation-mode: no-raise, no-stop, print ~ $fixed.csv[*][string(\"e_f\") none(\"nosuch\") boolean(\"c.d\")]")
    run("~ validation-mode: no-raise, no-stop, no-print, no-fail ~ $fixed.csv[*][string(\"5\") integer(\"0\") none(\"6\")]")
    run("~ run-mode: no-run ~ $fixed.csv[*][yes()]")
    run("~ explain-mode: explain ~ $fixed.csv[1][#b #2 @x=#id]")
    section("2c. files with odd first lines")
    odd = {
        "empty.csv": [],
        "blanks.csv": [[], [], []],
        "late.csv": [[], [], ["h1", "h2"], ["a", "b"], []],
        "emptyheads.csv": [["", "", ""], ["a", "b", "c"]],
        "onecell.csv": [["only"]],
        "dirty.csv": [[" a ", "b;c", "d,e", "f|g", "h\ti", "j`k", "  ", "a"], ["1", "2", "3", "4", "5", "6", "7", "8"]],
        "dups.csv": [["a", "b", "a", "b"], ["1", "2", "3", "4"], ["5", "6"]],
        "numeric.csv": [["2", "0", "1"], ["x", "y", "z"]],
        "trailing.csv": [["a", "b"], ["1", "2"], [], []],
        "unicode.csv": [["名前", "émile", "٣"], ["一", "deux", "٤"]],
    }
    for name, rows in odd.items():
        write_csv(name, rows)
        out("")
        out("file", name, repr(rows))
        run(f"${name}[*][yes()]")
        run(f"${name}[*][yes()]", skip_blank_lines=False)
        run(
            f"${name}[*][@a=#a @b=#b @i0=#0 @i1=#1 @i2=#2 @h=header_name(0) @x=header_index(\"a\") last() -> @l = line_number()]",
            method="fast_forward",
        )
    run("$dirty.csv[*][@bc=#bc @de=#de @fg=#fg @hi=#hi @jk=#jk @a=#a @i7=#7]")
    run("$dups.csv[*][@a=#a @b=#b @i2=#2 collect(\"a\", \"b\")]")
    run("$numeric.csv[*][@two=#2 @zero=#0 @one=#1 @hi=header_index(\"2\") @hn=header_name(2)]")
    run("$unicode.csv[*][@i0=#0 @i2=#2]")
    run("$nothere.csv[*][yes()]")
    run("$fixed.csv[*]")
    run("$fixed.csv[*][")
    run("$fixed.csv[*][#]")
    run("$fixed.csv[*][@x = #1 #2 #\"a b\" #a-b.c_d]")


# ----------------------------------------------------------------------------
# 3. the pieces, called directly
# ----------------------------------------------------------------------------
class FakeLogger:
    def __init__(self):
        self.said = []

    def _say(self, level, msg, *args):
        try:
            self.said.append((level, msg % args if args else msg))
        except Exception:  # pylint: disable=W0718
            self.said.append((level, str(msg), args))

    def debug(self, msg, *args):
        self._say("debug", msg, *args)

    def info(self, msg, *args):
        self._say("info", msg, *args)

    def warning(self, msg, *args):
        self._say("warning", msg, *args)

    def error(self, msg, *args):
        self._say("error", msg, *args)


class FakeOwner:
    """what LineCounter needs of a CsvPath or CsvPaths"""

    def __init__(self, delimiter=",", quotechar='"', skip_blank_lines=True):
        self.delimiter = delimiter
        self.quotechar = quotechar
        self.skip_blank_lines = skip_blank_lines
        self.logger = FakeLogger()


def attempt(label, fn):
    try:
        out("  ", label, "->", repr(fn()))
    except Exception as e:  # pylint: disable=W0718
        out("  ", label, "raised", exc(e))


def part_units():
    section("3a. CsvDataReader / DataFileReader")
    rows = [["a", "b"], [], ["1", 'x"y', "p\nq"], [" "], ["", ""], ["é;", "|", "\t"]]
    for delimiter, quotechar in DIALECTS:
        write_csv("reader.csv", rows, delimiter, quotechar)
        for args in [
            {"delimiter": delimiter, "quotechar": quotechar},
            {"delimiter": None, "quotechar": None},
            {"delimiter": delimiter},
            {},
        ]:
            def read():
                r = DataFileReader("reader.csv", **args)
                return (r.__class__.__name__, r.path, list(r.next()), list(r.next()))
            attempt(f"read {delimiter!r} {quotechar!r} with {args!r}", read)
    attempt("sheet on csv", lambda: DataFileReader("reader.csv#sheet1"))
    attempt("csv reader with sheet", lambda: CsvDataReader("reader.csv", sheet="s"))
    attempt("missing file", lambda: list(DataFileReader("missing.csv").next()))
    attempt("two-char delimiter", lambda: list(DataFileReader("reader.csv", delimiter=";;").next()))

    section("3b. LineCounter")
    headsets = [
        [],
        [""],
        ["a", " b ", "c;d", "e,f", "g|h", "i\tj", "k`l", "\t;,|` x `|,;\t", "日本", "a"],
        [" ", "\n", " x "],
        ["a", None],
        ["a", 1],
        ("t", "u"),
        None,
    ]
    for hs in headsets:
        attempt(f"clean_headers({hs!r})", lambda hs=hs: LineCounter.clean_headers(hs))
    files = {
        "lc_empty.csv": [],
        "lc_blank.csv": [[], []],
        "lc_late.csv": [[], ["h;1", " h2 "], [], ["a"], []],
        "lc_plain.csv": [["x", "y"], ["1", "2"], ["3"]],
        "lc_space.csv": [[" "], ["x"]],
        "lc_emptycell.csv": [[""], ["x", "y"]],
    }
    for name, rows in files.items():
        for delimiter, quotechar in DIALECTS[0:3]:
            write_csv(name, rows, delimiter, quotechar)
            for skip in [True, False]:
                for readas in [(delimiter, quotechar), (",", '"')]:
                    owner = FakeOwner(readas[0], readas[1], skip)

                    def count():
                        lm, headers = LineCounter(owner).get_lines_and_headers(name)
                        return (headers, lm.dump(), lm.last_line is not None, [m[0] for m in owner.logger.said])
                    attempt(f"{name} written {delimiter!r}{quotechar!r} read {readas[0]!r}{readas[1]!r} skip={skip}", count)
    attempt("count a missing file", lambda: LineCounter(FakeOwner()).get_lines_and_headers("missing.csv"))
    attempt("count with delimiter None", lambda: LineCounter(FakeOwner(None, None))
            .get_lines_and_headers("lc_plain.csv")[1])

    section("3c. LineMonitor")
    for seq in [[], [[]], [["a"]], [["a"], []], [[], ["a"], [], []], [["a"], ["b", "c"], [""]]]:
        lm = LineMonitor()
        out("  sequence", repr(seq))
        for line in [None, [], ["x"], [""], ()]:
            attempt(f"unset   blank?({line!r}) empty?", lambda line=line: (lm.is_last_line_and_blank(line), lm.is_last_line_and_empty(line)))
        for d in seq:
            lm.next_line(last_line=[], data=d)
        out("   counted", lm.dump())
        lm.set_end_lines_and_reset()
        out("   ended  ", lm.dump(), lm.is_last_line())
        cp = lm.copy()
        for d in seq:
            cp.next_line(last_line=None, data=d)
            for line in [None, [], ["x"], [""], [" ", ""], (), "", 5]:
                attempt(
                    f"at {cp.physical_line_number} blank?({line!r}) empty? last?",
                    lambda line=line: (cp.is_last_line_and_blank(line), cp.is_last_line_and_empty(line), cp.is_last_line()),
                )
        cp2 = LineMonitor()
        cp2.load(cp.dump())
        out("   reloaded", cp2.dump() == cp.dump())
        cp.reset()
        out("   reset  ", cp.dump())

    section("3d. Header, Matcher and CsvPath lookups, called directly")
    write_csv("fixed.csv", FIXED)
    p = CsvPath(print_default=False)
    p.parse("$fixed.csv[*][@b=#b @two=#2 yes()]")
    p.collect()
    m = p.matcher
    out("  line after run", repr(m.line))
    lines = [
        ["7", "Gus", "false", "3", "cd7", "ef7"],
        ["only"],
        [],
        ["", " padded ", None, 0, 4.5, False, "end"],
    ]
    names = ["id", "first name", "b", "3", "c.d", "e_f", "nosuch", "", " b ", "0", "2", " 2 ", "07", "٣", "-1", "1.0", "2,000", "1e3", "$3", "1.e999", 0, 2, 6, -1, True, False, None, 2.0, 2.7]
    for line in lines:
        m.line = line
        out("  with line", repr(line))
        for n in names:
            attempt(f"matcher.header_index({n!r})", lambda n=n: m.header_index(n))
            attempt(f"csvpath.header_index({n!r})", lambda n=n: p.header_index(n))
            for quiet in [True, False]:
                def ghv(n=n, quiet=quiet):
                    before = len(p.errors) if p.errors else 0
                    v = m.get_header_value(m.expressions[0][0].children[0], n, quiet=quiet)
                    m.clear_errors()
                    after = errors_of(p)[before:]
                    return (v, after)
                attempt(f"get_header_value({n!r}, quiet={quiet})", ghv)
        for i in [0, 5, 6, -1, 100, "1", None]:
            attempt(f"header_name({i!r})", lambda i=i: m.header_name(i))
        attempt("last_header_index/name", lambda: (m.last_header_index(), m.last_header_name()))
    for hs in [None, [], ["a"], ["a", "b", "a", ""], ("t", "a"), ["A", "a", 0, None]]:
        p.headers = hs
        m.line = ["l0", "l1", "l2", "l3"]
        out("  with headers", repr(hs))
        for n in ["a", "b", "", "A", "t", 0, None, "0", "zz"]:
            attempt(f"lookups({n!r})", lambda n=n: (p.header_index(n), m.header_index(n)))
        for i in [0, 1, 3, 4, -1]:
            attempt(f"header_name({i!r})", lambda i=i: m.header_name(i))
        attempt("last_header_name", lambda: m.last_header_name())
        m.line = []
        attempt("last_header_name, empty line", lambda: m.last_header_name())
        m.line = None
        attempt("last_header_name, no line", lambda: m.last_header_name())
    fresh = CsvPath(print_default=False)
    attempt("unparsed csvpath.headers", lambda: fresh.headers)
    attempt("unparsed csvpath.header_index", lambda: fresh.header_index("a"))
    attempt("unparsed csvpath.line_monitor", lambda: fresh.line_monitor)

    out("  Header objects")
    p.headers = ["id", "first name", "b", "3", "c.d", "e_f"]
    for name in ["0", "2", "5", "9", "b", "first name", '"first name"', "3", "nosuch", " 2 ", "b.asbool", "2.asbool", "2.notnone", "٣", "²", 2, 0, True, None, ""]:
        def header_values(name=name):
            h = Header(m, name=name)
            res = [(h.name, h.qualifiers)]
            for line in [["a0", "a1", " a2 ", "a3"], ["b0"], [], ["c0", "c1", "true", "c3", "c4", "c5", "c6"], None]:
                m.line = line
                h.reset()
                try:
                    res.append((h.to_value(skip=[]), h.to_value(skip=[]), h.matches(skip=[])))
                except Exception as e:  # pylint: disable=W0718
                    res.append(exc(e))
            return res
        attempt(f"Header({name!r})", header_values)
    # one Header object whose name is changed under it
    def renamed():
        h = Header(m, name="1")
        res = []
        for nm in ["1", "b", "2", "2", 0, "0", "nosuch", "3", "b", None, "1"]:
            h.name = nm
            for line in [["x0", "x1", "x2", "x3"], ["y0", "y1"]]:
                m.line = line
                h.reset()
                try:
                    res.append((nm, h.to_value(skip=[])))
                except Exception as e:  # pylint: disable=W0718
                    res.append((nm, exc(e)))
        return res
    attempt("Header renamed between lines", renamed)
    # headers changed under a Header
    def reheadered():
        h = Header(m, name="b")
        h2 = Header(m, name="2")
        res = []
        for hs in [["id", "first name", "b"], ["b", "id"], ["x"], [], None, ["b", "b"], ["2", "b"]]:
            p.headers = hs
            m.line = ["z0", "z1", "z2"]
            h.reset()
            h2.reset()
            res.append((h.to_value(skip=[]), h2.to_value(skip=[])))
        p.headers = ["q"]
        p.headers.append("b")
        h.reset()
        res.append(h.to_value(skip=[]))
        p.headers[0] = "b"
        h.reset()
        res.append(h.to_value(skip=[]))
        return res
    attempt("headers changed under a Header", reheadered)


# ----------------------------------------------------------------------------
# 4. repeated runs, rewritten files, changed dialect
# ----------------------------------------------------------------------------
def part_repeats():
    section("4. repeated runs, rewritten files, changed dialect")
    write_csv("again.csv", [["a", "b"], ["1", "2"], [], ["3"]])
    p = CsvPath(print_default=False)
    p.parse("$again.csv[*][@a=#a @i1=#1 push(\"as\", #a)]")
    for i in range(3):
        try:
            out("  same instance, run", i, repr(p.collect()), repr(p.variables), p.headers)
        except Exception as e:  # pylint: disable=W0718
            out("  same instance, run", i, "raised", exc(e))
    write_csv("again.csv", [["b", "a", "c"], ["10", "20", "30"]])
    try:
        out("  same instance, file rewritten", repr(p.collect()), repr(p.variables), p.headers)
    except Exception as e:  # pylint: disable=W0718
        out("  same instance, file rewritten raised", exc(e))
    run("$again.csv[*][@a=#a @i1=#1]")
    write_csv("again.csv", [["a;b", "c"], ["1;2", "3"]])
    run("$again.csv[*][@a=#a @ab=#ab @i1=#1 @c=#c]")
    run("$again.csv[*][@a=#a @ab=#ab @i1=#1 @c=#c]", delimiter=";")
    p = CsvPath(print_default=False)
    p.parse("$again.csv[*][@a=#a @i1=#1]")
    p.delimiter = ";"
    out("  delimiter changed after parse", repr(p.collect()), repr(p.variables), p.headers)
    p = CsvPath(print_default=False)
    p.parse("$again.csv[*][@a=#a @i1=#1]")
    out("  next, step by step")
    for line in p.next():
        out("    ", repr(line), repr(p.variables), p.line_monitor.physical_line_number)
    p = CsvPath(print_default=False)
    p.parse("$fixed.csv[*][@id=#id]")
    out("  collect nexts=2", repr(p.collect(nexts=2)), repr(p.variables))
    out("  and on", repr(p.collect()), repr(p.variables))
    p = CsvPath(print_default=False)
    p.parse("$fixed.csv[*][@id=#id advance(#id == \"2\", 2)]")
    try:
        out("  advance", repr(p.collect()), repr(p.variables))
    except Exception as e:  # pylint: disable=W0718
        out("  advance raised", exc(e))
    p = CsvPath(print_default=False)
    p.parse("$fixed.csv[*][@id=#id]")
    p.headers = ["x", "id"]
    out("  headers set by hand", repr(p.collect()), repr(p.variables))
    p = CsvPath(print_default=False)
    p.parse("$fixed.csv[*][@id=#id]")
    p.limit_collection_to = [1, 0]
    out("  limit set by hand", end_of(p))
    for limit in [[5], [None], [-1], [], [0, 0]]:
        p = CsvPath(print_default=False)
        p.parse("$fixed.csv[1][yes()]")
        p.limit_collection_to = limit
        out("  limit", repr(limit), end_of(p))


def end_of(p):
    try:
        return repr(p.collect())
    except Exception as e:  # pylint: disable=W0718
        return "raised " + exc(e)


# ----------------------------------------------------------------------------
# 5. CsvPaths: named files and paths, the archive
# ----------------------------------------------------------------------------
SHOW = ["data.csv", "unmatched.csv", "vars.json", "printouts.txt", "errors.json"]


RUN_DIR = re.compile(r"^(\d{4}-\d{2}-\d{2}_\d{2}-\d{2}-\d{2})(?:\.(\d+))?$")
META_KEYS = [
    "delimiter",
    "quotechar",
    "file_name",
    "total_lines",
    "count_lines",
    "line_number",
    "count_matches",
    "count_scans",
    "headers",
    "valid",
    "stopped",
    "lines_collected",
    "unmatched-mode",
    "validation-mode",
    "return-mode",
    "logic-mode",
]
MANIFEST_KEYS = [
    "valid",
    "completed",
    "files_expected",
    "file_count",
    "named_file_name",
    "actual_data_file",
    "instance_identity",
]


def _run_order(name):
    m = RUN_DIR.match(name)
    return (m.group(1), -1 if m.group(2) is None else int(m.group(2)))


def show_archive(top="archive", shown=None):
    """lists the archive. run directories are named for the second they
    started in, with a counter when two start in one second; here they are
    shown by their order instead"""
    shown = top if shown is None else shown
    names = sorted(os.listdir(top))
    files = [n for n in names if os.path.isfile(os.path.join(top, n))]
    dirs = [n for n in names if os.path.isdir(os.path.join(top, n))]
    out("  dir ", shown, files)
    for f in files:
        path = os.path.join(top, f)
        label = os.path.join(shown, f)
        if f in SHOW:
            with open(path, "r", encoding="utf-8", newline="") as fh:
                text = fh.read()
            if f == "errors.json":
                try:
                    es = json.loads(text)
                    for e in es:
                        e["trace"] = "<TRACE>" if e.get("trace") else e.get("trace")
                        e["at"] = "<TIME>"
                    text = json.dumps(es, sort_keys=True)
                except Exception as e:  # pylint: disable=W0718
                    text = f"unreadable: {exc(e)}: {text}"
            out("  file", label, repr(text))
        elif f == "meta.json":
            with open(path, "r", encoding="utf-8") as fh:
                j = json.load(fh)
            rt = j.get("runtime_data", {})
            out("  meta", label, repr({k: rt.get(k) for k in META_KEYS}))
            out("  meta", label, "metadata", repr(j.get("metadata")))
        elif f == "manifest.json" and os.path.exists(os.path.join(top, "meta.json")):
            with open(path, "r", encoding="utf-8") as fh:
                j = json.load(fh)
            prints = j.get("file_fingerprints", {})
            out(
                "  mani",
                label,
                repr({k: j.get(k) for k in MANIFEST_KEYS}),
                repr({k: prints.get(k) for k in ["data.csv", "unmatched.csv", "vars.json", "printouts.txt"]}),
            )
    runs = sorted([d for d in dirs if RUN_DIR.match(d)], key=_run_order)
    for d in sorted([d for d in dirs if not RUN_DIR.match(d)]):
        show_archive(os.path.join(top, d), os.path.join(shown, d))
    for i, d in enumerate(runs):
        show_archive(os.path.join(top, d), os.path.join(shown, f"run-{i + 1}"))


def results_of(cp, name):
    try:
        rs = cp.results_manager.get_named_results(name)
    except Exception as e:  # pylint: disable=W0718
        out("  results raised", exc(e))
        return
    for r in rs:
        try:
            lines = r.lines
            if lines is not None and not isinstance(lines, list):
                lines = list(lines.next())
            out(
                "  result",
                r.csvpath.identity,
                "lines",
                repr(lines),
            )
            out("        vars", repr(r.csvpath.variables), "valid", r.is_valid, "headers", r.csvpath._headers)  # pylint: disable=W0212
            out("        unmatched", repr(r.unmatched if hasattr(r, "unmatched") else None))
            out("        errors", repr([(e.line_count, e.error.__class__.__name__, str(e.error)) for e in (r.errors or [])]))
            out("        printouts", repr(r.get_printouts() if hasattr(r, "get_printouts") else None))
        except Exception as e:  # pylint: disable=W0718
            out("  result raised", exc(e))


PATHS = [
    "~id:all~ $[*][yes()]",
    '~id:byname unmatched-mode:keep~ $[*][#b == "x" @b=#b @two=#2 print("b is $.headers.b, 2 is $.headers.2")]',
    '~id:typed validation-mode:no-raise,print~ $[*][line(integer("id"), string("first name"), blank("b"), blank("3"), blank("c.d"), none("e_f"))]',
    '~id:narrow~ $[*][collect("id", "first name") #b]',
    '~id:wider~ $[*][append("n", line_number(), yes()) replace("b", upper(#b))]',
    '~id:reset~ $[3*][firstscan() -> reset_headers() @first=#0 push("names", header_name(0))]',
    '~id:short validation-mode:no-raise~ $[*][@six=#6 @ef=#e_f not(#6) collect(0, 5)]',
]


def part_csvpaths():
    section("5. CsvPaths, named files and paths, archive")
    for d in ["archive", "cache", "inputs", "transfers"]:
        shutil.rmtree(d, ignore_errors=True)
    write_csv("fixed.csv", FIXED)
    write_csv("fixed.psv", FIXED, "|", "'")
    for delimiter, quotechar, fname in [(",", '"', "fixed.csv"), ("|", "'", "fixed.psv")]:
        out("")
        out("CsvPaths reading", fname, repr(delimiter), repr(quotechar))
        try:
            cp = CsvPaths(delimiter=delimiter, quotechar=quotechar)
            cp.file_manager.add_named_file(name="fixed", path=fname)
            cp.paths_manager.add_named_paths(name="hdrs", paths=PATHS)
            for method in ["collect_paths", "fast_forward_paths", "collect_by_line", "fast_forward_by_line"]:
                out(" method", method)
                try:
                    getattr(cp, method)(filename="fixed", pathsname="hdrs")
                except Exception as e:  # pylint: disable=W0718
                    out("  raised", exc(e))
                results_of(cp, "hdrs")
            out(" method next_paths")
            try:
                for line in cp.next_paths(filename="fixed", pathsname="hdrs"):
                    out("   ", repr(line))
            except Exception as e:  # pylint: disable=W0718
                out("  raised", exc(e))
            out(" method next_by_line")
            try:
                for line in cp.next_by_line(filename="fixed", pathsname="hdrs"):
                    out("   ", repr(line))
            except Exception as e:  # pylint: disable=W0718
                out("  raised", exc(e))
            out(" cached headers", cp.file_manager.cacher.get_original_headers(cp.file_manager.get_named_file("fixed")))
            out(" cached monitor", cp.file_manager.cacher.get_new_line_monitor(cp.file_manager.get_named_file("fixed")).dump())
        except Exception as e:  # pylint: disable=W0718
            out(" raised", exc(e))
        show_archive()
        shutil.rmtree("archive", ignore_errors=True)
    out("")
    out("the same CsvPaths, the file rewritten at the same path")
    cp = CsvPaths()
    write_csv("chg.csv", [["a", "b"], ["1", "2"], ["3", "4"]])
    cp.file_manager.add_named_file(name="chg", path="chg.csv")
    cp.paths_manager.add_named_paths(name="ab", paths=["~id:ab~ $[*][@a=#a @b=#b @i0=#0 last() -> @l=line_number()]"])
    cp.collect_paths(filename="chg", pathsname="ab")
    results_of(cp, "ab")
    write_csv("chg.csv", [[], ["b", "x", "a"], ["10", "20", "30"], ["40"], []])
    try:
        cp.collect_paths(filename="chg", pathsname="ab")
    except Exception as e:  # pylint: disable=W0718
        out("  stale named file raised", exc(e))
    try:
        cp.file_manager.add_named_file(name="chg", path="chg.csv")
        cp.collect_paths(filename="chg", pathsname="ab")
    except Exception as e:  # pylint: disable=W0718
        out("  raised", exc(e))
    results_of(cp, "ab")
    out("the same path again, same size, other cells")
    write_csv("chg.csv", [[], ["a", "x", "b"], ["11", "21", "31"], ["41"], []])
    try:
        cp.file_manager.add_named_file(name="chg", path="chg.csv")
        cp.collect_paths(filename="chg", pathsname="ab")
    except Exception as e:  # pylint: disable=W0718
        out("  raised", exc(e))
    results_of(cp, "ab")
    out("another CsvPaths reading it with another delimiter")
    write_csv("chg.csv", [["a;b", "c"], ["1;2", "3"]])
    cp2 = CsvPaths(delimiter=";")
    cp2.file_manager.add_named_file(name="chg", path="chg.csv")
    cp2.paths_manager.add_named_paths(name="ab", paths=["~id:ab~ $[*][@a=#a @b=#b @i0=#0 last() -> @l=line_number()]"])
    try:
        cp2.collect_paths(filename="chg", pathsname="ab")
    except Exception as e:  # pylint: disable=W0718
        out("  raised", exc(e))
    results_of(cp2, "ab")
    out("and the first CsvPaths on that file")
    try:
        cp.file_manager.add_named_file(name="chg", path="chg.csv")
        cp.collect_paths(filename="chg", pathsname="ab")
    except Exception as e:  # pylint: disable=W0718
        out("  raised", exc(e))
    results_of(cp, "ab")
    show_archive()


if __name__ == "__main__":
    part_lines()
    part_headers()
    part_units()
    part_repeats()
    part_csvpaths()
    out("")
    out("done")
