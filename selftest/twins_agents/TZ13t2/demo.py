"""Differential demonstration for property C13 (stop / skip / advance / last).

Standalone: run it in an empty scratch directory with PYTHONPATH pointing at the
csvpath tree under test.  It writes its own ./config/config.ini and data files,
runs a few hundred csvpaths and prints a deterministic transcript of everything
observable: returned lines, unmatched lines, variables, validity, stop state,
counters, line-monitor position, collected errors (class + message, never the
traceback because tracebacks carry source line numbers), printouts, raised
exceptions and, for the CsvPaths section, the archive listing and contents with
run-directory timestamps normalised.
"""
import os
import re
import sys
import json
import shutil

HERE = os.getcwd()

CONFIG = """[csvpath_files]
extensions = txt, csvpath, csvpaths
[csv_files]
extensions = txt, csv, tsv, dat, tab, psv, ssv
[errors]
csvpath = collect, fail, print
csvpaths = raise, collect
[logging]
csvpath = info
csvpaths = info
log_file = logs/csvpath.log
log_files_to_keep = 100
log_file_size = 52428800
[config]
path =
[functions]
imports =
[cache]
path =
[results]
archive = archive
transfers = transfers
[inputs]
files = inputs/named_files
csvpaths = inputs/named_paths
on_unmatched_file_fingerprints = halt
"""

for d in ("archive", "inputs", "cache", "logs", "transfers", "config"):
    shutil.rmtree(os.path.join(HERE, d), ignore_errors=True)
os.makedirs("config", exist_ok=True)
with open("config/config.ini", "w", encoding="utf-8") as f:
    f.write(CONFIG)

from csvpath import CsvPath, CsvPaths  # noqa: E402
from csvpath.util.printer import Printer  # noqa: E402

FILES = {
    "plain.csv": "a,b,c\n1,2,3\n4,5,6\n7,8,9\n10,11,12\n13,14,15\n",
    "noeol.csv": "a,b,c\n1,2,3\n4,5,6\n7,8,9\n10,11,12\n13,14,15",
    "trail1.csv": "a,b,c\n1,2,3\n4,5,6\n7,8,9\n10,11,12\n13,14,15\n\n",
    "trail2.csv": "a,b,c\n1,2,3\n4,5,6\n7,8,9\n10,11,12\n\n\n",
    "interior.csv": "a,b,c\n1,2,3\n\n4,5,6\n\n\n7,8,9\n10,11,12\n",
    "interior_trail.csv": "a,b,c\n\n1,2,3\n4,5,6\n\n7,8,9\n\n",
    "ragged.csv": "a,b,c\n1\n4,5\n7,8,9,99\n,,\n10,,12\n7\n",
    "zero.csv": "a,b,c\n0,0,0\n,0,\n7,,0\n0,,\n4,5,6\n",
    "ws_last.csv": "a,b,c\n1,2,3\n4,5,6\n7,8,9\n   \n",
    "one.csv": "a,b,c\n",
    "blank_only.csv": "\n",
    "two_blank.csv": "a,b,c\n\n",
    "empty.csv": "",
    "pipes.csv": "a|b|c\n1|2|3\n4|'5|5'|6\n7|8|9\n\n",
}
os.makedirs("data", exist_ok=True)
for name, content in FILES.items():
    with open(os.path.join("data", name), "w", encoding="utf-8", newline="") as f:
        f.write(content)


class Capture(Printer):
    """keeps every printout, with the name of the stream it was sent to"""

    def __init__(self):
        self.lines = []

    @property
    def lines_printed(self) -> int:
        return len(self.lines)

    @property
    def last_line(self):
        return self.lines[-1] if self.lines else None

    def print(self, string: str) -> None:
        self.print_to(None, string)

    def print_to(self, name: str, string: str) -> None:
        self.lines.append(f"[{name}] {string}" if name else f"{string}")


def norm(s) -> str:
    s = f"{s}"
    s = re.sub(r" at 0x[0-9a-fA-F]+", " at 0xX", s)
    s = s.replace(HERE, "<cwd>")
    s = re.sub(r"\d{4}-\d\d-\d\d[ T_]\d\d[:\-]\d\d[:\-]\d\d(\.\d+)?(\+00:00)?", "<ts>", s)
    return s


def first(e) -> str:
    """first line of an exception message. lark lists the tokens it expected
    after that, in set (i.e. hash-seed dependent) order."""
    ls = f"{e}".splitlines()
    return ls[0] if ls else ""


def out(*args) -> None:
    print(*[norm(a) for a in args])


def show_errors(p) -> None:
    es = p.errors
    if not es:
        out("   errors:", es)
        return
    out("   errors:", len(es))
    for e in es:
        out(
            "     -",
            e.exception_class if hasattr(e, "exception_class") else None,
            "| line", e.line_count,
            "| scan", e.scan_count,
            "| match", e.match_count,
            "| msg", e.message,
            "| err", e.error,
            "| src", type(e.source).__name__,
        )


def state(p, cap) -> None:
    lm = p.line_monitor
    out("   variables:", json.dumps(p.variables, sort_keys=True, default=str))
    out(
        "   valid:", p.is_valid,
        "stopped:", p.stopped,
        "aborted:", p.aborted,
        "completed:", p.completed,
        "frozen:", p.is_frozen,
    )
    out(
        "   scan_count:", p.scan_count,
        "match_count:", p.match_count,
        "advance_count:", p.advance_count,
        "matcher.skip:", p.matcher.skip if p.matcher else None,
    )
    out(
        "   physical line:", lm.physical_line_number,
        "of", lm.physical_end_line_number,
        "data line:", lm.data_line_number,
        "of", lm.data_end_line_number,
    )
    out("   unmatched:", p.unmatched)
    show_errors(p)
    out("   printouts:", len(cap.lines))
    for line in cap.lines:
        out("     >", line)


def new_path(**kw):
    cap = Capture()
    p = CsvPath(print_default=False, **kw)
    p.add_printer(cap)
    return p, cap


def run(title, csvpath, *, method="collect", nexts=-1, again=False, **kw):
    out("=" * 78)
    out("RUN", title)
    out("   csvpath:", csvpath)
    out("   method:", method, "nexts:", nexts, "kw:", kw)
    p, cap = new_path(**kw)
    try:
        p.parse(csvpath)
    except Exception as e:  # pylint: disable=W0718
        out("   PARSE RAISED:", type(e).__name__, first(e))
        return None
    rounds = 2 if again else 1
    for r in range(rounds):
        if again:
            out("   -- round", r)
        try:
            if method == "collect":
                lines = p.collect(nexts=nexts)
                out("   lines:", lines)
            elif method == "fast_forward":
                p.fast_forward()
                out("   fast_forward done")
            elif method == "next":
                got = []
                for line in p.next():
                    got.append((p.line_monitor.physical_line_number, line[:]))
                out("   next:", got)
            else:
                raise ValueError(method)
        except Exception as e:  # pylint: disable=W0718
            out("   RUN RAISED:", type(e).__name__, first(e))
            c = e.__cause__
            if c is not None:
                out("   CAUSE:", type(c).__name__, first(c))
        state(p, cap)
    return p


# ---------------------------------------------------------------------------
# section 1: a conditional stop/skip/advance/last at every position among
# 1-5 side-effecting components, for several firing lines and scan windows
# ---------------------------------------------------------------------------
SIDE = [
    'push("s1", line_number())',
    '@s2 = add(@s2, 1)',
    'print("s3 at $.csvpath.line_number")',
    'push("s4", #a)',
    '@s5.onmatch = count()',
]

CONTROLS = [
    'stop(#a=="7")',
    'stop(line_number()==2)',
    'skip(#a=="7")',
    'skip(line_number()==2)',
    'skip.once(#b=="5")',
    '#a=="4" -> advance(2)',
    'line_number()==1 -> advance(3)',
    'last() -> push("lasts", line_number())',
    'last.nocontrib() -> print("last fired at $.csvpath.line_number")',
    'fail_and_stop(#a=="7")',
    'last() -> stop()',
    'last() -> skip()',
]


def assemble(ctrl, n, pos):
    parts = SIDE[:n]
    parts = parts[:pos] + [ctrl] + parts[pos:]
    return " ".join(parts)


def section1():
    out("#" * 78)
    out("# SECTION 1: positions")
    files = ["plain.csv", "trail1.csv", "interior_trail.csv", "ragged.csv"]
    scans = ["*", "1*", "2-4", "1+3+4", "0-3"]
    k = 0
    for ci, ctrl in enumerate(CONTROLS):
        for n in (1, 2, 3, 5):
            for pos in range(n + 1):
                # rotate through files and scans rather than the full product
                fname = files[k % len(files)]
                scan = scans[(k // len(files)) % len(scans)]
                k += 1
                method = ("collect", "fast_forward", "next")[k % 3]
                match = assemble(ctrl, n, pos)
                run(
                    f"s1 c{ci} n{n} p{pos} {fname} [{scan}]",
                    f"$data/{fname}[{scan}][ {match} ]",
                    method=method,
                )


# ---------------------------------------------------------------------------
# section 2: every file x every window for a fixed set of control paths
# ---------------------------------------------------------------------------
FIXED = [
    'push("seen", line_number()) last() -> @last_line = line_number() yes()',
    'push("seen", line_number()) last.nocontrib() -> print("LAST $.csvpath.line_number $.csvpath.count_lines") ',
    '@n = count_lines() stop(#a=="7") push("after", line_number())',
    'push("before", line_number()) skip(#a=="7") push("after", line_number())',
    'push("before", line_number()) #a=="1" -> advance(2) push("after", line_number()) last() -> @l = "yes"',
    'push("before", line_number()) last() -> stop() push("after", line_number())',
    'push("before", line_number()) stop(last()) push("after", line_number())',
    'push("before", line_number()) skip(last()) push("after", line_number())',
    'advance(1) push("after", line_number())',
    'push("before", line_number()) stop()',
    'push("before", line_number()) skip() push("after", line_number())',
    'last()',
    'not(last())',
    '@x = last() push("x", @x)',
    'last() -> fail() last() -> print("failing at $.csvpath.line_number")',
]


def section2():
    out("#" * 78)
    out("# SECTION 2: files x windows")
    scans = ["*", "0", "1", "3", "1*", "3*", "1-3", "3-1", "2+4", "1+2+6", "0-20", "6", "7*"]
    k = 0
    for fname in FILES:
        if fname == "pipes.csv":
            continue
        for si, scan in enumerate(scans):
            for mi, match in enumerate(FIXED):
                k += 1
                # a third of the product, deterministic choice
                if (k + si + mi) % 3 != 0:
                    continue
                method = ("collect", "next", "fast_forward")[(k // 3) % 3]
                run(
                    f"s2 {fname} [{scan}] m{mi}",
                    f"$data/{fname}[{scan}][ {match} ]",
                    method=method,
                )


# ---------------------------------------------------------------------------
# section 3: modes, qualifiers, error cases, repeated runs, options
# ---------------------------------------------------------------------------
def section3():
    out("#" * 78)
    out("# SECTION 3: modes, errors, reruns")
    t = "$data/trail1.csv"
    i = "$data/interior_trail.csv"
    r = "$data/ragged.csv"
    z = "$data/zero.csv"
    cases = [
        ("or-mode stop", f'~ logic-mode: OR ~ {t}[*][ push("b", line_number()) stop(#a=="7") #a=="1" ]', {}),
        ("or-mode skip", f'~ logic-mode: OR ~ {t}[*][ skip(#a=="7") #a=="1" #a=="7" push("x", #a) ]', {}),
        ("or-mode last", f'~ logic-mode: OR ~ {t}[*][ last() -> @l = line_number() no() ]', {}),
        ("no-matches stop", f'~ return-mode: no-matches ~ {t}[*][ stop(#a=="7") #a=="4" ]', {}),
        ("no-matches skip", f'~ return-mode: no-matches ~ {t}[*][ skip(#a=="7") #a=="4" ]', {}),
        ("no-matches advance", f'~ return-mode: no-matches ~ {t}[*][ #a=="4" -> advance(1) ]', {}),
        ("unmatched keep", f'~ unmatched-mode: keep ~ {t}[*][ skip(#a=="7") #a=="4" -> advance(1) last() -> @l = 1 ]', {}),
        ("unmatched keep collect()", f'~ unmatched-mode: keep ~ {i}[*][ collect("b") skip(#a=="4") stop(#a=="7") ]', {}),
        ("no-run", f'~ run-mode: no-run ~ {t}[*][ stop() ]', {}),
        ("explain", f'~ explain-mode: explain ~ {t}[1-3][ skip(#a=="4") last() -> @l = line_number() ]', {}),
        ("keep blanks", f'{i}[*][ push("n", line_number()) skip(#a=="4") last() -> @l = line_number() ]', {"skip_blank_lines": False}),
        ("keep blanks stop", f'{i}[*][ push("n", line_number()) stop(line_number()==4) ]', {"skip_blank_lines": False}),
        ("keep blanks advance", f'{i}[*][ push("n", line_number()) line_number()==0 -> advance(3) last() -> @l = line_number() ]', {"skip_blank_lines": False}),
        ("pipes", '$data/pipes.csv[*][ push("b", #b) skip(#a=="4") last() -> @l = line_number() ]', {"delimiter": "|", "quotechar": "'"}),
        ("skip onmatch", f'{t}[*][ skip.onmatch() #a=="4" push("x", #a) ]', {}),
        ("stop onmatch", f'{t}[*][ push("x", #a) stop.onmatch() #a=="4" ]', {}),
        ("advance onmatch", f'{t}[*][ push("x", #a) advance.onmatch(1) #a=="4" ]', {}),
        ("last onmatch", f'{t}[*][ last.onmatch() -> @l = line_number() #a=="13" ]', {}),
        ("last onmatch no", f'{t}[*][ last.onmatch() -> @l = line_number() #a=="4" ]', {}),
        ("skip once twice", f'{t}[*][ push("n", #a) skip.once(gt(#a, 3)) push("m", #a) ]', {}),
        ("stop nocontrib", f'{t}[*][ stop.nocontrib(#a=="7") push("m", #a) no() ]', {}),
        ("advance big", f'{t}[*][ push("n", #a) #a=="4" -> advance(100) last() -> @l = line_number() ]', {}),
        ("advance zero", f'{t}[*][ push("n", #a) advance(0) ]', {}),
        ("advance var", f'{z}[1*][ @k = int(#a) push("n", line_number()) advance(@k) ]', {}),
        ("advance header", f'{z}[1*][ push("n", line_number()) advance(#b) ]', {}),
        ("advance neg", f'{t}[*][ push("n", line_number()) advance(-1) ]', {}),
        ("advance bad", f'{t}[*][ push("n", line_number()) advance("x") ]', {}),
        ("advance none", f'{r}[1*][ push("n", line_number()) advance(#c) push("m", line_number()) ]', {}),
        ("advance 2 args", f'{t}[*][ advance(1, 2) ]', {}),
        ("advance no arg", f'{t}[*][ advance() ]', {}),
        ("skip bad arg", f'{t}[*][ skip("x") ]', {}),
        ("skip 2 args", f'{t}[*][ skip(yes(), no()) ]', {}),
        ("stop term", f'{t}[*][ stop(5) ]', {}),
        ("last with arg", f'{t}[*][ last(print("in last $.csvpath.line_number")) ]', {}),
        ("last bad arg", f'{t}[*][ last("x") ]', {}),
        ("error then stop", f'{r}[*][ push("n", line_number()) @d = divide(1, 0) stop(#a=="7") push("m", line_number()) ]', {}),
        ("error in stop child", f'{r}[1*][ push("n", line_number()) stop(gt(divide(1, 0), 1)) push("m", line_number()) ]', {}),
        ("error in skip child", f'{r}[1*][ push("n", line_number()) skip(gt(divide(1, 0), 1)) push("m", line_number()) ]', {}),
        ("error in last do", f'{t}[*][ push("n", line_number()) last() -> @d = divide(1, 0) ]', {}),
        ("raise in skip child", f'~ validation-mode: raise ~ {r}[1*][ push("n", line_number()) skip(gt(divide(1, 0), 1)) ]', {}),
        ("raise in last do", f'~ validation-mode: raise ~ {t}[*][ push("n", line_number()) last() -> @d = divide(1, 0) ]', {}),
        ("stop on error", f'~ validation-mode: stop, no-raise ~ {r}[1*][ push("n", line_number()) @d = add("x", 1) push("m", line_number()) ]', {}),
        ("match on error", f'~ validation-mode: match, no-raise, no-print ~ {r}[1*][ push("n", line_number()) advance("x") last() -> @l = line_number() ]', {}),
        ("stop_all alone", f'{t}[*][ push("n", line_number()) stop_all(#a=="7") ]', {}),
        ("skip_all alone", f'{t}[*][ push("n", line_number()) skip_all(#a=="7") push("m", line_number()) ]', {}),
        ("skip_all once", f'{t}[*][ push("n", line_number()) skip_all.once(gt(#a, 3)) push("m", line_number()) ]', {}),
        ("advance_all alone", f'{t}[*][ push("n", line_number()) #a=="4" -> advance_all(2) ]', {}),
        ("fail_and_stop bare", f'{t}[2*][ push("n", line_number()) fail_and_stop() ]', {}),
        ("stop in last blank", f'{t}[*][ last() -> stop() last() -> @never = 1 ]', {}),
        ("skip in last blank", f'{t}[*][ last() -> skip() last() -> print("second last() ran") ]', {}),
        ("nested last", f'{t}[*][ push("n", line_number()) or(last(), #a=="4") -> push("hit", line_number()) ]', {}),
        ("last in and", f'{t}[*][ and(last(), yes()) -> push("hit", line_number()) ]', {}),
        ("last value", f'{t}[*][ @v = last() print("v=$.variables.v at $.csvpath.line_number") ]', {}),
        ("two lasts", f'{t}[*][ last() -> push("l", "one") last() -> push("l", "two") last.nocontrib() -> print("three") ]', {}),
        ("last on the right", f'{t}[*][ push("n", line_number()) #a=="13" -> last() yes() -> @r = last() ]', {}),
        ("last both sides", f'{t}[*][ last() -> last(print("inner last at $.csvpath.line_number")) ]', {}),
        ("when-do without last", f'{t}[*][ #a=="13" -> push("w", line_number()) last() -> push("w", "L") ]', {}),
        ("last deep", f'{t}[*][ push("d", or(and(yes(), last()), no())) ]', {}),
        ("last assigned when", f'{t}[*][ @q = last() -> print("never?") ]', {}),
        ("last scan window + blank", f'{t}[2-4][ last() -> push("l", line_number()) push("n", line_number()) ]', {}),
        ("last these + blank", f'{t}[1+3+6][ last() -> push("l", line_number()) push("n", line_number()) ]', {}),
        ("count and last", f'{t}[1*][ @c = count() last() -> print("count $.variables.c scans $.csvpath.count_scans") ]', {}),
    ]
    for n, (title, csvpath, kw) in enumerate(cases):
        for method in ("collect", "next", "fast_forward"):
            run(f"s3.{n} {title}", csvpath, method=method, **kw)
    out("# reruns on the same instance and collect(nexts=)")
    for n, (title, csvpath, kw) in enumerate(cases[:8] + cases[14:24]):
        run(f"s3r.{n} {title}", csvpath, method="collect", again=True, **kw)
        run(f"s3n.{n} {title}", csvpath, method="collect", nexts=2, again=True, **kw)


# ---------------------------------------------------------------------------
# section 4: the programmatic api: CsvPath.advance()/stop() while iterating
# ---------------------------------------------------------------------------
def section4():
    out("#" * 78)
    out("# SECTION 4: programmatic advance()/stop()")
    for fname in ("plain.csv", "trail1.csv", "interior_trail.csv", "one.csv", "ragged.csv"):
        for scan in ("*", "1*", "1-3", "2+4"):
            for ff in (0, 1, 2, -1, 50, None, "2"):
                out("=" * 78)
                out("API", fname, scan, "advance", repr(ff))
                p, cap = new_path()
                p.parse(
                    f'$data/{fname}[{scan}][ push("n", line_number()) '
                    f'last() -> @l = line_number() #a=="7" -> advance(1) ]'
                )
                got = []
                try:
                    for line in p.next():
                        got.append((p.line_monitor.physical_line_number, line[:]))
                        if len(got) in (1, 3):
                            try:
                                p.advance(ff)
                                out("   advance ok ->", p.advance_count)
                            except Exception as e:  # pylint: disable=W0718
                                out("   advance raised:", type(e).__name__, first(e))
                        if len(got) == 5:
                            p.stop()
                except Exception as e:  # pylint: disable=W0718
                    out("   RUN RAISED:", type(e).__name__, first(e))
                out("   next:", got)
                state(p, cap)
    out("=" * 78)
    out("API advance before any line is read")
    p, cap = new_path()
    p.parse('$data/plain.csv[*][ push("n", line_number()) ]')
    for ff in (2, -1):
        try:
            p.advance(ff)
            out("   advance", ff, "->", p.advance_count)
        except Exception as e:  # pylint: disable=W0718
            out("   advance raised:", type(e).__name__, first(e))
    out("   lines:", p.collect())
    state(p, cap)


# ---------------------------------------------------------------------------
# section 5: CsvPaths: serial and breadth-first runs, *_all functions, archive
# ---------------------------------------------------------------------------
def normalise_run_dirs(path: str) -> str:
    return re.sub(r"\d{4}-\d\d-\d\d_\d\d-\d\d-\d\d(_\d+)?", "<run>", path)


def dump_archive():
    if not os.path.exists("archive"):
        out("   no archive")
        return
    listing = []
    for root, dirs, files in os.walk("archive"):
        dirs.sort()
        for fn in sorted(files):
            listing.append(os.path.join(root, fn))
    # run dirs sort in time order; keep that order but hide the stamp
    for path in listing:
        out("   FILE", normalise_run_dirs(path))
        base = os.path.basename(path)
        if base in ("data.csv", "unmatched.csv", "printouts.txt", "vars.json"):
            with open(path, "r", encoding="utf-8") as f:
                for line in f.read().splitlines():
                    out("      |", line)
        elif base == "errors.json":
            with open(path, "r", encoding="utf-8") as f:
                try:
                    es = json.load(f)
                except Exception:  # pylint: disable=W0718
                    es = []
            for e in es:
                out(
                    "      | error line", e.get("line_count"),
                    "scan", e.get("scan_count"),
                    "match", e.get("match_count"),
                    "msg", e.get("message"),
                    "err", e.get("error"),
                )
        elif base == "meta.json":
            with open(path, "r", encoding="utf-8") as f:
                try:
                    m = json.load(f)
                except Exception:  # pylint: disable=W0718
                    m = {}
            rt = m.get("runtime_data", {})
            keep = {
                k: rt.get(k)
                for k in (
                    "count_lines",
                    "count_matches",
                    "count_scans",
                    "valid",
                    "stopped",
                    "completed",
                    "lines_collected",
                    "unmatched_lines",
                    "errors_count",
                )
                if k in rt
            }
            out("      | runtime:", json.dumps(keep, sort_keys=True))


def as_list(lines):
    if lines is None:
        return None
    if hasattr(lines, "next"):
        return [ln for ln in lines.next()]
    return [ln for ln in lines]


def section5():
    out("#" * 78)
    out("# SECTION 5: CsvPaths")
    groups = {
        "stops": [
            '~ id: a ~ $[*][ push("n", line_number()) stop(#a=="7") ]',
            '~ id: b ~ $[*][ push("n", line_number()) last() -> print("b last $.csvpath.line_number") ]',
        ],
        "stopall": [
            '~ id: a ~ $[*][ push("n", line_number()) stop_all(#a=="7") ]',
            '~ id: b ~ $[*][ push("n", line_number()) last() -> print("b last $.csvpath.line_number") ]',
        ],
        "skipall": [
            '~ id: a unmatched-mode: keep ~ $[*][ push("n", line_number()) skip_all(#a=="4") ]',
            '~ id: b ~ $[*][ push("n", line_number()) last() -> @l = line_number() ]',
            '~ id: c ~ $[1-3][ push("n", line_number()) skip(#a=="1") last() -> @l = line_number() ]',
        ],
        "advall": [
            '~ id: a ~ $[*][ push("n", line_number()) #a=="4" -> advance_all(2) ]',
            '~ id: b ~ $[*][ push("n", line_number()) #a=="1" -> advance(1) last() -> @l = line_number() ]',
            '~ id: c ~ $[2*][ push("n", line_number()) last() -> stop() ]',
        ],
    }
    methods = ["collect_paths", "fast_forward_paths", "collect_by_line", "fast_forward_by_line"]
    for fname in ("trail1.csv", "interior_trail.csv", "plain.csv"):
        for gname, paths in groups.items():
            for method in methods:
                shutil.rmtree("archive", ignore_errors=True)
                shutil.rmtree("inputs", ignore_errors=True)
                shutil.rmtree("cache", ignore_errors=True)
                out("=" * 78)
                out("GROUP", gname, fname, method)
                try:
                    cp = CsvPaths()
                    cp.file_manager.add_named_file(name="f", path=f"data/{fname}")
                    cp.paths_manager.add_named_paths(name=gname, paths=paths)
                    m = getattr(cp, method)
                    if method.endswith("by_line"):
                        if method.startswith("collect"):
                            got = [line for line in cp.next_by_line(filename="f", pathsname=gname)]
                            out("   next_by_line:", got)
                        else:
                            m(filename="f", pathsname=gname)
                    else:
                        m(filename="f", pathsname=gname)
                    for res in cp.results_manager.get_named_results(gname):
                        c = res.csvpath
                        out(
                            "   RESULT", c.identity,
                            "lines:", as_list(res.lines),
                        )
                        out("      variables:", json.dumps(res.variables, sort_keys=True, default=str))
                        out(
                            "      valid:", c.is_valid, "stopped:", c.stopped,
                            "completed:", c.completed,
                            "scan:", c.scan_count, "match:", c.match_count,
                            "advance:", c.advance_count,
                            "line:", c.line_monitor.physical_line_number,
                        )
                        out("      printouts:", res.printouts if hasattr(res, "printouts") else None)
                        out("      errors:", len(res.errors) if res.errors else res.errors)
                        out("      unmatched:", as_list(res.unmatched))
                except Exception as e:  # pylint: disable=W0718
                    out("   GROUP RAISED:", type(e).__name__, first(e))
                dump_archive()


# ---------------------------------------------------------------------------
# section 6: what the run controls wrote to the (info level) log, in order
# ---------------------------------------------------------------------------
LOGGED = re.compile(
    r"stopping at|skipping (physical )?line|setting invalid|has been stopped"
    r"|last line is empty|Skipping line|override_frozen|Stop-all|Skip-all|Advance-all"
    r"|variables are frozen"
)


def section6():
    out("#" * 78)
    out("# SECTION 6: log digest")
    path = os.path.join("logs", "csvpath.log")
    if not os.path.exists(path):
        out("   no log")
        return
    n = 0
    with open(path, "r", encoding="utf-8") as f:
        for line in f:
            if LOGGED.search(line):
                n += 1
                line = re.sub(r"^\S+ \S+ - ", "", line.rstrip("\n"))
                out("   LOG", line)
    out("   log lines shown:", n)


# ---------------------------------------------------------------------------
# section 7: the small helpers, called directly
# ---------------------------------------------------------------------------
def section7():
    from csvpath.util.line_monitor import LineMonitor

    out("#" * 78)
    out("# SECTION 7: helpers")

    class Sized:
        def __init__(self, n):
            self.n = n

        def __len__(self):
            return self.n

    lines = [None, [], [""], ["", " "], ["a"], (), ("",), "", "x", {}, Sized(0), Sized(2)]
    numbers = [None, 0, 3, 5]
    for end in numbers:
        for num in numbers:
            lm = LineMonitor()
            lm._physical_end_line_number = end
            lm._physical_line_number = num
            row = []
            for line in lines:
                try:
                    row.append(lm.is_last_line_and_blank(line))
                except Exception as e:  # pylint: disable=W0718
                    row.append(type(e).__name__)
            out("   LM end", end, "num", num, "is_last_line", lm.is_last_line(), "blank:", row)
    lm = LineMonitor()
    for data in (["a", "b"], [], ["1"], [], []):
        lm.next_line(last_line=None, data=data)
    lm.set_end_lines_and_reset()
    out("   LM fresh:", lm.dump(), lm.is_last_line_and_blank([]), lm.is_last_line())
    for data in (["a", "b"], [], ["1"], [], []):
        lm.next_line(last_line=None, data=data)
        out(
            "   LM at", lm.physical_line_number,
            "blank([])", lm.is_last_line_and_blank([]),
            "blank(data)", lm.is_last_line_and_blank(data),
            "last", lm.is_last_line(),
        )
    lm2 = LineMonitor()
    lm2.load(lm.dump())
    out("   LM loaded:", lm2.is_last_line_and_blank([]), lm2.is_last_line_and_blank(["x"]))
    lm2.reset()
    out("   LM reset:", lm2.is_last_line_and_blank([]), lm2.is_last_line_and_blank(None))

    # Scanner.is_last / includes against a parsed csvpath's scanner
    for scan in ("*", "2*", "1-3", "3-1", "1+3", "0", "4+2+3"):
        p, _ = new_path()
        p.parse(f"$data/trail1.csv[{scan}][yes()]")
        row = []
        for n in (None, 0, 1, 2, 3, 4, 5, 6, 7):
            row.append((n, p.scanner.includes(n), p.scanner.is_last(n)))
        out("   SCAN", scan, row)

    # SkipAll/Skip/Stop/Advance/Last values and matches, via print and variables
    for fn in ("skip_all()", "skip()", "stop()", "stop_all()", "advance(1)", "advance_all(1)", "last()"):
        run(
            f"s7 value of {fn}",
            f'$data/trail1.csv[1-2][ @v = {fn} push("n", line_number()) ]',
        )
        run(
            f"s7 value of {fn} in print",
            f'$data/trail1.csv[4*][ push("n", line_number()) @w = {fn} print("w is $.variables.w") ]',
            method="fast_forward",
        )


SECTIONS = [section1, section2, section3, section4, section5, section6, section7]

if __name__ == "__main__":
    for s in SECTIONS:
        s()
    out("DONE")
