#!/venv/bin/python
"""Differential demonstration for refactoring t2 (C06).

t2 replaces hand-written loops by generator helpers / comprehensions / functools:
LineCounter.get_lines_and_headers (counting generator + next() + deque),
LineCounter.clean_headers (reduce over a table of characters),
CsvPath.header_index (next() over a generator) and the expression list built in
Matcher.__init__ (comprehension).

Run with cwd = an empty scratch directory and PYTHONPATH = the csvpath tree
under test.  Prints a deterministic transcript of everything observable.
"""
import builtins
import contextlib
import csv
import io
import json
import os
import random
import re
import shutil
import sys
import types

CONFIG = """[csvpath_files]
extensions = txt, csvpath, csvpaths

[csv_files]
extensions = txt, csv, tsv, dat, tab, psv, ssv

[errors]
csvpath = raise, collect, stop, fail, print
csvpaths = raise, collect

[logging]
csvpath = info
csvpaths = info
log_file = logs/csvpath.log
log_files_to_keep = 100
log_file_size = 52428800

[config]
path = config/config.ini

[cache]
path = cache

[listeners]
[marquez]
base_url = http://localhost:5000

[functions]
imports = config/functions.imports

[results]
archive = archive
transfers = transfers

[inputs]
files = inputs/named_files
csvpaths = inputs/named_paths
on_unmatched_file_fingerprints = halt
"""


def setup_env():
    for d in ("archive", "cache", "inputs", "logs", "transfers", "config", "data"):
        if os.path.exists(d):
            shutil.rmtree(d)
    os.makedirs("config")
    os.makedirs("data")
    with open("config/config.ini", "w", encoding="utf-8") as f:
        f.write(CONFIG)
    with open("config/functions.imports", "w", encoding="utf-8") as f:
        f.write("")


setup_env()

OUT = []


def say(*a):
    OUT.append(" ".join(str(_) for _ in a))


from csvpath import CsvPath, CsvPaths  # noqa: E402
from csvpath.util.file_readers import (  # noqa: E402
    DataFileReader,
    CsvDataReader,
    XlsxDataReader,
)
from csvpath.util.line_counter import LineCounter  # noqa: E402
from csvpath.util.line_monitor import LineMonitor  # noqa: E402
from csvpath.matching.matcher import Matcher  # noqa: E402

TS = re.compile(r"\d{4}-\d{2}-\d{2}_\d{2}-\d{2}-\d{2}(\.\d+)?")


def attempt(label, fn):
    """runs fn capturing stdout and any exception; everything goes to the transcript"""
    buf = io.StringIO()
    try:
        with contextlib.redirect_stdout(buf):
            r = fn()
        say(f"{label} -> {r!r}")
    except BaseException as e:  # pylint: disable=W0718
        # first line only: lark lists the expected terminals in set (hash) order
        msg = TS.sub("<TS>", (str(e).splitlines() or [""])[0])
        say(f"{label} !! {type(e).__name__}: {msg}")
    printed = buf.getvalue()
    if printed:
        for ln in printed.splitlines():
            say(f"   stdout| {TS.sub('<TS>', ln)}")


# ---------------------------------------------------------------------------
# data
# ---------------------------------------------------------------------------
ALPHABET = [
    "a", "B", "0", "7", " ", "  ", ",", ";", "|", "\t", '"', "'", "\n", "`", "#",
    "é", "ß", "日本", "🙂", " ", "x y", "-1", "0.0", "None", "", "$", "\\",
]


def make_cell(rnd):
    n = rnd.choice([0, 1, 1, 2, 3, 5])
    return "".join(rnd.choice(ALPHABET) for _ in range(n))


def make_records(rnd):
    nrec = rnd.randint(0, 12)
    recs = []
    for _ in range(nrec):
        if rnd.random() < 0.2:
            recs.append([])
        else:
            recs.append([make_cell(rnd) for _ in range(rnd.randint(0, 6))])
    return recs


def write_csv(path, recs, delimiter, quotechar):
    with open(path, "w", encoding="utf-8", newline="") as f:
        w = csv.writer(f, delimiter=delimiter, quotechar=quotechar)
        for r in recs:
            w.writerow(r)


FIXED = {
    "empty": [],
    "only_blank": [[], [], []],
    "header_only": [["a", "b", "c"]],
    "blank_first": [[], [], [" a ", "b;", "c,|"], ["1", "2", "3"], [], ["4"]],
    "ragged": [["a", "b", "c"], ["1"], ["1", "2"], ["1", "2", "3"], ["1", "2", "3", "4"], []],
    "zeros": [["n", "m"], ["0", ""], ["", "0"], ["0", "0"], ["", ""], [" ", "  "]],
    "quoted": [["q,1", 'q"2', "q'3", "q\n4"], ["a,b", 'c"d', "e'f", "g\nh"], ["\n", ",", '"', "'"]],
    "unicode": [["名前", "größe", "🙂"], ["日本", "ß", "é"], [" ", "x y", "ｆｕｌｌ"]],
    "trailing_blank": [["a", "b"], ["1", "2"], [], []],
    "single_empty_cell": [[""], [""], ["x"]],
    "numeric_headers": [["0", "1", "2"], ["p", "q", "r"], ["s", "t"]],
    "dup_headers": [["a", "a", "b"], ["1", "2", "3"]],
}
DIALECTS = [(",", '"'), (";", '"'), ("|", "'"), ("\t", "'"), (",", "'"), ("\t", '"')]


def dialect_name(d, q):
    return {",": "comma", ";": "semi", "|": "pipe", "\t": "tab"}[d] + (
        "_dq" if q == '"' else "_sq"
    )


FILES = []  # (name, path, delimiter, quotechar, records)
for name, recs in FIXED.items():
    for d, q in DIALECTS[:4]:
        path = f"data/{name}_{dialect_name(d, q)}.csv"
        write_csv(path, recs, d, q)
        FILES.append((f"{name}_{dialect_name(d, q)}", path, d, q, recs))
rnd = random.Random(60606)
for i in range(40):
    recs = make_records(rnd)
    d, q = DIALECTS[i % len(DIALECTS)]
    path = f"data/rnd{i:02d}_{dialect_name(d, q)}.csv"
    write_csv(path, recs, d, q)
    FILES.append((f"rnd{i:02d}_{dialect_name(d, q)}", path, d, q, recs))


# ---------------------------------------------------------------------------
# 1. LineCounter directly
# ---------------------------------------------------------------------------
class Log:
    def __init__(self):
        self.records = []

    def info(self, msg, *args):
        # the only log call made by LineCounter carries a duration: keep the format only
        self.records.append(("info", msg, len(args)))

    def __getattr__(self, name):
        def f(msg, *args):
            self.records.append((name, msg, len(args)))

        return f


class Owner:
    """stands in for the CsvPath/CsvPaths a LineCounter works for and records
    every read of the three settings so that the order of reads is observable"""

    def __init__(self, delimiter, quotechar, skip):
        self._d, self._q, self._s = delimiter, quotechar, skip
        self.reads = []
        self.logger = Log()

    @property
    def delimiter(self):
        self.reads.append("delimiter")
        return self._d

    @property
    def quotechar(self):
        self.reads.append("quotechar")
        return self._q

    @property
    def skip_blank_lines(self):
        self.reads.append("skip")
        return self._s


class NoSkip:
    """an owner without the skip_blank_lines setting"""

    def __init__(self, delimiter, quotechar):
        self.delimiter, self.quotechar = delimiter, quotechar
        self.logger = Log()


say("=== 1. LineCounter.get_lines_and_headers")
for name, path, d, q, recs in FILES:
    say(f"--- {name} delimiter={d!r} quotechar={q!r} records={len(recs)}")
    for skip in (True, False, 0, "yes", None):
        o = Owner(d, q, skip)
        lc = LineCounter(o)
        lm, hs = lc.get_lines_and_headers(path)
        say(f"  skip={skip!r} headers {hs} monitor {lm.dump()} last {lm.last_line is not None}")
        say(f"    reads {o.reads} log {o.logger.records}")
        # a second count with the same counter gives a fresh monitor and list
        lm2, hs2 = lc.get_lines_and_headers(path)
        say("    again", hs2 == hs, lm2.dump() == lm.dump(), lm2 is not lm, hs2 is not hs)
    first = next((r for r in recs if len(r) > 0), [])
    say("  first non-blank record", first)
    attempt("  owner without skip setting", lambda: LineCounter(NoSkip(d, q)).get_lines_and_headers(path)[1])
    # wrong dialect still counts and cleans
    o = Owner(",", '"', True)
    attempt("  default dialect", lambda: (lambda r: (r[1], r[0].dump()))(LineCounter(o).get_lines_and_headers(path)))

say("=== 1b. get_lines_and_headers failure modes")
for label, path in (
    ("missing", "data/nope.csv"),
    ("directory", "data"),
    ("hash in name", "data/ragged_comma_dq.csv#x"),
    ("xlsx missing", "data/nope.xlsx"),
):
    o = Owner(",", '"', True)
    attempt(f"{label}", lambda: LineCounter(o).get_lines_and_headers(path))
    say("   reads", o.reads, "log", o.logger.records)
with open("data/latin1.csv", "wb") as f:
    f.write("a,b\n\n\xe9,1\n".encode("latin-1"))
with open("data/nul.csv", "wb") as f:
    f.write(b"\n a;,b|\n1,\x002\n\n3,4\n")
with open("data/crlf.csv", "wb") as f:
    f.write(b"\r\n\r\n a ,`b`\r\n1,2\r\n\r\n3,\"x\r\ny\"\r\n")
with open("data/noeol.csv", "wb") as f:
    f.write(b"a,b\n1,2")
with open("data/openquote.csv", "wb") as f:
    f.write(b'a,b\n1,"2\n\n3,4\n')
with open("data/spaces.csv", "wb") as f:
    f.write(b" \n\t\n  ,  \nx,y\n")
with open("data/bigfield.csv", "wb") as f:
    f.write(b"a,b\n\n" + b"x" * 140000 + b",1\n2,3\n")
for fn in ("latin1", "nul", "crlf", "noeol", "openquote", "spaces", "bigfield"):
    for skip in (True, False):
        o = Owner(",", '"', skip)
        attempt(f"{fn} skip={skip}", lambda: (lambda r: (r[1], r[0].dump()))(LineCounter(o).get_lines_and_headers(f"data/{fn}.csv")))
        say("   reads", o.reads, "log", o.logger.records)
attempt("bad delimiter", lambda: LineCounter(Owner(",,", '"', True)).get_lines_and_headers("data/noeol.csv"))
attempt("None dialect", lambda: LineCounter(Owner(None, None, True)).get_lines_and_headers("data/noeol.csv")[1])

say("=== 1c. clean_headers")
HEADER_SETS = [
    [],
    [""],
    [" "],
    ["a"],
    [" a ", "\tb\t", "c\n", " d ", "　e"],
    ["a;b", "a,b", "a|b", "a\tb", "a`b", ";,|\t`", " ; ", ";a;", "`;`,|"],
    ["a; b", " ;a", "a ;", "; a ;", "\t a \t", " \t "],
    ["0", "1", "-1", "0.0", "None", "True"],
    ["名前", "größe", "🙂", "q\"2", "q'3", "q\n4", "x y", "#", "$", "\\"],
    ["a", "a", "A", "a "],
    [c for c in ALPHABET],
    ("tuple", " of; ", "headers|"),
]
for hs in HEADER_SETS:
    res = LineCounter.clean_headers(hs)
    say(f"  {hs!r} -> {res!r} type {type(res).__name__} new {res is not hs}")
    say("    via instance", LineCounter(None).clean_headers(hs) == res, "idempotent", LineCounter.clean_headers(res) == res)
say("  generator input", LineCounter.clean_headers(h for h in [" a;", "b "]))
say("  string input", LineCounter.clean_headers(" a;b"))
say("  dict input", LineCounter.clean_headers({" k; ": 1, "j": 2}))
for bad in (None, [None], ["a", None, "b"], [1], ["a", 2], [b" a;"], [[" a"]], 5, [" a", object]):
    attempt(f"  clean_headers({bad!r})", lambda: LineCounter.clean_headers(bad))


class Tracer(str):
    """a str that records the calls clean_headers makes on it"""

    calls = []

    def strip(self, *a):
        Tracer.calls.append(("strip", str(self), a))
        return Tracer(str.strip(self, *a))

    def replace(self, *a):
        Tracer.calls.append(("replace", str(self), a))
        return Tracer(str.replace(self, *a))


res = LineCounter.clean_headers([Tracer(" a;,|\t` "), Tracer("b")])
say("  traced result", res, [type(r).__name__ for r in res])
say("  traced calls", Tracer.calls)

say("=== 1d. CsvPath.header_index / Matcher.header_index / Matcher expressions")


class Eq:
    """records comparisons made against it"""

    def __init__(self, tag, equal_to):
        self.tag, self.equal_to, self.seen = tag, equal_to, []

    def __eq__(self, other):
        self.seen.append(other)
        return other == self.equal_to

    def __hash__(self):
        return 1

    def __repr__(self):
        return f"Eq({self.tag})"


for headers in (None, [], ["a"], ["a", "b", "c"], ["a", "a", "b"], ["", " ", "b"], ["0", "1", "2"], ["b", None, 0, "0", 0.0, False], ("t", "u")):
    p = CsvPath()
    p.headers = headers
    if headers is None:
        # a None header list makes the property go and look for a file: there is none
        attempt("  header_index on None headers", lambda: p.header_index("a"))
        continue
    for name in ("a", "b", "c", "", " ", "0", 0, None, "zzz", False, 0.0, "u"):
        say(f"  headers={headers!r} header_index({name!r}) -> {p.header_index(name)!r}")
p = CsvPath()
e1, e2, e3 = Eq("e1", "x"), Eq("e2", "y"), Eq("e3", "y")
p.headers = [e1, e2, e3]
say("  first of equal headers", p.header_index("y"), e1.seen, e2.seen, e3.seen)
say("  none equal", p.header_index("q"), e1.seen, e2.seen, e3.seen)

for d, q in DIALECTS[:4]:
    path = f"data/dup_headers_{dialect_name(d, q)}.csv"
    p = CsvPath(delimiter=d, quotechar=q)
    p.parse(f"${path}[*][yes()]")
    p.fast_forward()
    m = p.matcher
    for name in ("a", "b", "c", 0, 1, 7, "0", "2", " 1 ", "$1", "1.9", "", None, True, False):
        attempt(f"  matcher.header_index({name!r})", lambda: m.header_index(name))
    for i in (-1, 0, 1, 2, 3):
        attempt(f"  matcher.header_name({i})", lambda: m.header_name(i))

for match in (
    "[yes()]",
    "[yes() no()]",
    "[ #0 #1 @a = #2 ]",
    "[ @a = 1 @b = 2 @c = add(@a, @b) print(\"x\") ]",
    "[ ~ a comment ~ yes() ]",
    "[ #0 == \"a\" -> @hit = yes() ]",
    "[]",
    "[ nosuchfunction() ]",
    "[ yes( ]",
):
    def build():
        p = CsvPath()
        p.parse(f"$data/ragged_comma_dq.csv[*]{match}")
        m = Matcher(csvpath=p, data=match, line=["1", "2", "3"], headers=["a", "b", "c"], myid="x")
        return [
            (type(et).__name__, len(et), type(et[0]).__name__, et[1], [type(c).__name__ for c in et[0].children])
            for et in m.expressions
        ]

    attempt(f"  Matcher({match!r}).expressions", build)
attempt("  Matcher without data", lambda: Matcher(csvpath=None, data=None))
attempt("  Matcher empty data", lambda: Matcher(csvpath=None, data=""))
attempt("  Matcher without csvpath", lambda: len(Matcher(csvpath=None, data="[yes() no()]").expressions))


# ---------------------------------------------------------------------------
# 2. CsvPath on top of the readers
# ---------------------------------------------------------------------------
def run_path(path, d, q, pathstr, *, skip_blank=True, method="collect"):
    p = CsvPath(delimiter=d, quotechar=q, skip_blank_lines=skip_blank)
    p.config.csvpath_errors_policy = ["collect", "print"]
    res = {}

    def go():
        p.parse(pathstr.replace("FILE", path))
        if method == "collect":
            return p.collect()
        if method == "next":
            return [ln for ln in p.next()]
        p.fast_forward()
        return None

    attempt(f"  {method} {pathstr!r} skip_blank={skip_blank}", go)
    say("    headers", p._headers, "valid", p.is_valid, "stopped", p.stopped)
    say("    vars", json.dumps(p.variables, sort_keys=True, default=str, ensure_ascii=False))
    say("    counts", p.scan_count, p.match_count, "monitor", p._line_monitor.dump() if p._line_monitor else None)
    say("    errors", [(type(e).__name__, e.message, e.line_count) for e in (p.errors or [])])
    return res


say("=== 2. CsvPath collect/next/fast_forward")
for name, path, d, q, recs in FILES:
    say(f"--- {name}")
    p = CsvPath(delimiter=d, quotechar=q)
    p.parse(f"${path}[*][yes()]")
    got = p.collect()
    expect = [r for r in recs if len(r) > 0]
    say("  all lines", got)
    say("  equals nonblank records", got == expect)
    first = next((r for r in recs if len(r) > 0), [])
    say("  headers", p.headers, "expected-first", first)
    p2 = CsvPath(delimiter=d, quotechar=q, skip_blank_lines=False)
    p2.parse(f"${path}[*][yes()]")
    attempt("  keep blanks", p2.collect)
    lc = LineCounter(CsvPath(delimiter=d, quotechar=q))
    lm, hs = lc.get_lines_and_headers(path)
    say("  counter", hs, lm.dump())

say("=== 2b. header name / index / missing on short rows")
for name in ("ragged", "blank_first", "zeros", "numeric_headers", "dup_headers", "quoted", "unicode"):
    for d, q in DIALECTS[:4]:
        path = f"data/{name}_{dialect_name(d, q)}.csv"
        say(f"--- {name} {dialect_name(d, q)}")
        run_path(path, d, q, "$FILE[*][ @n0 = #0 @n1 = #1 @n2 = #2 @n3 = #3 push(\"c\", count_headers_in_line()) ]")
        run_path(path, d, q, "$FILE[1*][ #2 push(\"two\", #2) ]")
        run_path(path, d, q, "$FILE[1*][ not(#2) push(\"lines\", line_number()) ]", method="next")
        run_path(path, d, q, "$FILE[*][ collect(0) ]")
        run_path(path, d, q, "$FILE[*][ collect(0, 2) ]")
        run_path(path, d, q, "$FILE[*][ yes() ]", skip_blank=False, method="next")
        run_path(path, d, q, "$FILE[*][ last() -> @last = line_number() @t = total_lines() ]", method="fast_forward")
for d, q in DIALECTS[:4]:
    path = f"data/ragged_{dialect_name(d, q)}.csv"
    say(f"--- ragged by name {dialect_name(d, q)}")
    run_path(path, d, q, "$FILE[*][ @a = #a @b = #b @c = #c #c == #2 ]")
    run_path(path, d, q, "$FILE[*][ @same = equals(#b, #1) push(\"b\", #b) push(\"i\", #1) ]")
    run_path(path, d, q, "$FILE[*][ #nosuch ]")
    run_path(path, d, q, "$FILE[1-3][ append(\"x\", \"y\") ]")
    run_path(path, d, q, "$FILE[*][ replace(#0, \"z\") ]")
    run_path(path, d, q, "$FILE[2*][ reset_headers() push(\"h\", header_name(0)) ]")
    path = f"data/blank_first_{dialect_name(d, q)}.csv"
    say(f"--- blank_first by cleaned name {dialect_name(d, q)}")
    run_path(path, d, q, "$FILE[*][ @a = #a @b = #b @c = #c ]")
    run_path(path, d, q, "$FILE[*][ @a = #a ]", skip_blank=False)

say("=== 2c. missing / odd files through CsvPath")
run_path("data/nope.csv", ",", '"', "$FILE[*][yes()]")
run_path("data/openquote.csv", ",", '"', "$FILE[*][yes()]")
run_path("data/nul.csv", ",", '"', "$FILE[*][yes()]")
run_path("data/crlf.csv", ",", '"', "$FILE[*][yes()]")


# ---------------------------------------------------------------------------
# 3. CsvPaths with archive
# ---------------------------------------------------------------------------
VOLATILE = re.compile(r"^(time|time_completed|run_time|lines_time|last_line_time|uuid|named_paths_uuid|run_started_at|file_fingerprints|trace|run)$")
RUNSFX = re.compile(r"<TS>\.\d+")


def scrub(o):
    if isinstance(o, dict):
        return {k: ("<V>" if VOLATILE.search(k) else scrub(v)) for k, v in o.items()}
    if isinstance(o, list):
        return [scrub(v) for v in o]
    if isinstance(o, str):
        s = RUNSFX.sub("<TS>", TS.sub("<TS>", o))
        s = s.replace(os.getcwd(), "<CWD>")
        s = re.sub(r"\d{4}-\d{2}-\d{2}[T ]\d{2}:\d{2}:\d{2}[.\d+:Z]*", "<DT>", s)
        return s
    return o


def run_key(name):
    m = re.fullmatch(r"(\d{4}-\d{2}-\d{2}_\d{2}-\d{2}-\d{2})(?:\.(\d+))?", name)
    if not m:
        return (name, -2)
    return (m.group(1), -1 if m.group(2) is None else int(m.group(2)))


def dump_tree(root):
    if not os.path.exists(root):
        say(f"  (no {root})")
        return
    for dirpath, dirnames, filenames in os.walk(root):
        # run directories are <timestamp>[.<n>]; order them chronologically and
        # show them by ordinal so that the transcript does not depend on the clock
        dirnames.sort(key=run_key)
        for fn in sorted(filenames):
            full = os.path.join(dirpath, fn)
            parts = []
            for i, part in enumerate(full.split(os.sep)):
                if TS.fullmatch(part.split(".")[0]) and os.path.isdir(os.sep.join(full.split(os.sep)[: i + 1])):
                    parent = os.sep.join(full.split(os.sep)[:i])
                    sibs = sorted((d for d in os.listdir(parent) if TS.match(d)), key=run_key)
                    part = f"<RUN {sibs.index(part)}>"
                parts.append(part)
            shown = os.sep.join(parts)
            say(f"  file {shown}")
            if fn.endswith(".json"):
                try:
                    with open(full, encoding="utf-8") as f:
                        j = json.load(f)
                    say("     ", json.dumps(scrub(j), sort_keys=True, ensure_ascii=False))
                except Exception as e:  # pylint: disable=W0718
                    say("      unreadable json", type(e).__name__)
            elif fn.endswith((".csv", ".txt")):
                with open(full, encoding="utf-8", newline="") as f:
                    say("     ", repr(scrub(f.read())))


say("=== 3. CsvPaths")
for tag, d, q in (("comma_dq", ",", '"'), ("pipe_sq", "|", "'"), ("tab_sq", "\t", "'")):
    cp = CsvPaths(delimiter=d, quotechar=q)
    for name in ("ragged", "blank_first", "quoted", "unicode", "empty", "trailing_blank"):
        cp.file_manager.add_named_file(name=f"{name}_{tag}", path=f"data/{name}_{tag}.csv")
    cp.paths_manager.add_named_paths(
        name=f"p_{tag}",
        paths=[
            "~id:all~ $[*][yes()]",
            "~id:two unmatched-mode:keep~ $[*][#2]",
            "~id:proj~ $[*][collect(0)]",
            "~id:pr~ $[*][print(\"$.csvpath.line_number: $.headers.0 / $.headers.1\")]",
        ],
    )
    for name in ("ragged", "blank_first", "quoted", "unicode", "empty", "trailing_blank"):
        say(f"--- {tag} {name}")
        attempt("  collect_paths", lambda: cp.collect_paths(filename=f"{name}_{tag}", pathsname=f"p_{tag}"))
        try:
            for r in cp.results_manager.get_named_results(f"p_{tag}"):
                say("   result", r.csvpath.identity, "valid", r.is_valid, "lines", list(r.lines.next()) if r.lines is not None else None)
                say("     unmatched", r.unmatched, "errors", [e.message for e in (r.errors or [])])
                say("     printouts", r.printouts, "headers", r.csvpath.headers)
        except BaseException as e:  # pylint: disable=W0718
            say("   results !!", type(e).__name__, e)
    say(f"--- {tag} by-line run")
    attempt("  collect_by_line", lambda: cp.collect_by_line(filename=f"ragged_{tag}", pathsname=f"p_{tag}"))
    attempt("  fast_forward_paths", lambda: cp.fast_forward_paths(filename=f"quoted_{tag}", pathsname=f"p_{tag}"))
    attempt("  next_paths", lambda: [ln for ln in cp.next_paths(filename=f"unicode_{tag}", pathsname=f"p_{tag}")])
say("--- archive")
dump_tree("archive")
say("--- cache (entry names are hashes of path+size+mtime: shown by content only)")
entries = []
for fn in os.listdir("cache"):
    with open(os.path.join("cache", fn), encoding="utf-8", newline="") as f:
        entries.append((fn.split(".")[-1], f.read()))
for ext, content in sorted(entries):
    say(f"  cache <SHA>.{ext} {content!r}")

sys.stdout.write("\n".join(OUT) + "\n")
