#!/usr/bin/env python
"""Differential demonstration for property C04 (validity verdict).

Run in an EMPTY scratch directory (cwd), e.g.

    mkdir /tmp/demo_TYC04_2 && cd /tmp/demo_TYC04_2 && \
        PYTHONPATH=<tree under test> /venv/bin/python <this file>  > out.txt

The script is self-contained: it writes ./config/config.ini (offline, no
OpenLineage listeners), its own CSV files, runs a matrix of csvpaths x files x
error policies x run methods through CsvPath and CsvPaths and prints a
deterministic transcript of everything observable: returned lines, variables,
validity verdicts (also line by line), stopped flags, collected errors,
printouts, the ./archive tree and file contents (timestamps, uuids, timing
figures, run directory names and traceback line numbers normalised) and the
interesting csvpath.log lines.
"""
import json
import os
import re
import shutil
import sys
import time

CONFIG = """[csvpath_files]
extensions = txt, csvpath, csvpaths

[csv_files]
extensions = txt, csv, tsv, dat, tab, psv, ssv

[errors]
csvpath = raise, collect, stop, fail, print
csvpaths = raise, collect

[logging]
csvpath = info
csvpaths = info
log_file = logs/csvpath.log
log_files_to_keep = 100
log_file_size = 52428800

[config]
path = config/config.ini

[cache]
path = cache

[listeners]
[marquez]
base_url = http://localhost:5000

[functions]
imports = config/functions.imports

[results]
archive = archive
transfers = transfers

[inputs]
files = inputs/named_files
csvpaths = inputs/named_paths
on_unmatched_file_fingerprints = halt
"""

FILES = {
    # blank line, empty value, ragged long row, ragged short row, zeros
    "mixed.csv": "a,b,c\n1,2,3\n\n4,,6\nx,0,9,10\n7\n0,0,0\n",
    # nothing provokes an error and nothing fails
    "clean.csv": "a,b,c\n1,2,3\n2,3,4\n3,4,5\n",
    # header only
    "header.csv": "a,b,c\n",
    # blank last lines
    "blanks.csv": "a,b,c\n4,5,6\n\n\n",
    # first data line already bad
    "bad_first.csv": "a,b,c\nx,y,z\n1,2,3\n4,5,6\n",
    # empty file
    "empty.csv": "",
}


def setup() -> None:
    for d in ("config", "archive", "inputs", "cache", "logs", "transfers", "data"):
        if os.path.exists(d):
            shutil.rmtree(d)
    os.makedirs("config")
    os.makedirs("data")
    with open("config/config.ini", "w", encoding="utf-8") as f:
        f.write(CONFIG)
    with open("config/functions.imports", "w", encoding="utf-8") as f:
        f.write("")
    for name, content in FILES.items():
        with open(os.path.join("data", name), "w", encoding="utf-8") as f:
            f.write(content)


setup()

from csvpath import CsvPath, CsvPaths  # noqa: E402  pylint: disable=C0413

# ---------------------------------------------------------------- normalising

TS = re.compile(r"\d{4}-\d\d-\d\d[ T]\d\d:\d\d:\d\d(\.\d+)?(\+00:00)?")
UUID = re.compile(r"[0-9a-f]{8}-[0-9a-f]{4}-[0-9a-f]{4}-[0-9a-f]{4}-[0-9a-f]{12}")
RUNDIR = re.compile(r"\d{4}-\d\d-\d\d_\d\d-\d\d-\d\d(\.\d+)?")
TRACE_FILE = re.compile(r'File \\?"[^"]*?([A-Za-z_0-9]+\.py)\\?", line \d+')
ADDR = re.compile(r" at 0x[0-9a-f]+")
CTIME = re.compile(r"[A-Z][a-z]{2} [A-Z][a-z]{2} [ \d]\d \d\d:\d\d:\d\d \d{4}")
VOLATILE_KEYS = {
    "lines_time",
    "last_line_time",
    "named_file_last_change",
}
VOLATILE_FINGERPRINTS = {"meta.json", "errors.json", "manifest.json"}

RUN_NAMES = {}


def norm(s: str) -> str:
    s = f"{s}"
    for k in sorted(RUN_NAMES, key=len, reverse=True):
        s = s.replace(k, RUN_NAMES[k])
    s = RUNDIR.sub("<run>", s)
    s = TS.sub("<ts>", s)
    s = CTIME.sub("<ctime>", s)
    s = UUID.sub("<uuid>", s)
    s = ADDR.sub(" at 0x<addr>", s)
    s = TRACE_FILE.sub(r'File "\1"', s)
    return s


def scrub(o, key=None):
    if isinstance(o, dict):
        out = {}
        for k, v in o.items():
            if k in VOLATILE_KEYS:
                out[k] = "<volatile>"
            elif k == "file_fingerprints" and isinstance(v, dict):
                out[k] = {
                    fk: ("<fp>" if fk in VOLATILE_FINGERPRINTS else fv)
                    for fk, fv in v.items()
                }
            else:
                out[k] = scrub(v, k)
        return out
    if isinstance(o, list):
        return [scrub(i) for i in o]
    return o


def say(*a) -> None:
    print(norm(" ".join(f"{x}" for x in a)))
    sys.stdout.flush()


def errs(errors) -> list:
    out = []
    for e in errors or []:
        out.append(
            (
                e.line_count,
                e.match_count,
                e.scan_count,
                e.error.__class__.__name__,
                f"{e.error}",
                e.filename,
            )
        )
    return out


# ---------------------------------------------------------------- standalone


def run_one(label, csvpath, filename, policy, method) -> None:
    path = csvpath.replace("$[", f"$data/{filename}[")
    say(f"--- {label} | {filename} | policy={policy} | {method}")
    say(f"    {path}")
    p = CsvPath()
    if policy is not None:
        p.config.csvpath_errors_policy = list(policy)
    lines = None
    verdicts = []
    try:
        p.parse(path)
        if method == "collect":
            lines = p.collect()
        elif method == "fast_forward":
            p.fast_forward()
        elif method == "next":
            lines = []
            for line in p.next():
                lines.append(line)
                verdicts.append(
                    (
                        p.line_monitor.physical_line_number,
                        p.is_valid,
                        p.stopped,
                    )
                )
        elif method == "collect2":
            lines = p.collect(nexts=2)
    except Exception as ex:  # pylint: disable=W0718
        cause = ex.__cause__
        say(f"    EXCEPTION {type(ex).__name__}: {ex} | cause: {type(cause).__name__}: {cause}")
    say(f"    lines: {lines}")
    if verdicts:
        say(f"    (line, is_valid, stopped) as of each returned line: {verdicts}")
    say(f"    is_valid: {p.is_valid} stopped: {p.stopped}")
    say(f"    variables: {p.variables}")
    say(f"    errors: {errs(p.errors)}")
    lm = p.line_monitor
    if lm is not None:
        say(
            f"    counts: line={lm.physical_line_number} data={lm.data_line_number} match={p.match_count} scan={p.scan_count}"
        )


# the recorder variables give the verdict as seen by failed()/valid() on every line
REC = 'push("valid", valid()) push("failed", failed())'

PATHS = [
    ("no-fail", f"$[*][ {REC} yes() ]"),
    ("fail-when", f'$[*][ {REC} #a == "4" -> fail() ]'),
    ("fail-before-rec", f'$[*][ #a == "4" -> fail() {REC} ]'),
    ("fail-every-line", f"$[*][ fail() {REC} ]"),
    ("fail-zero", f"$[*][ {REC} #b == 0 -> fail() ]"),
    ("fail-empty", f"$[*][ {REC} empty(#b) -> fail() ]"),
    ("fail-onmatch-nomatch", f"$[*][ {REC} fail.onmatch() no() ]"),
    ("fail_and_stop-cond", f'$[*][ {REC} fail_and_stop(#a == "4") ]'),
    ("fail_and_stop-never", f'$[*][ {REC} fail_and_stop(#a == "nope") ]'),
    ("fail_and_stop-bare", f'$[*][ {REC} #a == "x" -> fail_and_stop() ]'),
    ("stop-only", f'$[*][ {REC} stop(#a == "4") ]'),
    ("stop-bare-when", f'$[*][ {REC} #a == "4" -> stop() ]'),
    ("failed-then-stop", f'$[*][ #a == "4" -> fail() failed() -> stop() {REC} ]'),
    ("valid-gate", f'$[*][ #a == "4" -> fail() valid() ]'),
    ("failed-gate", f'$[*][ #a == "4" -> fail() failed() ]'),
    ("not-failed", f'$[*][ #a == "4" -> fail() not(failed()) ]'),
    ("fail_all-standalone", f'$[*][ {REC} #a == "4" -> fail_all() ]'),
    ("skip-then-fail", f'$[*][ skip(#a == "4") {REC} fail() ]'),
    ("last-fail", f"$[*][ {REC} last() -> fail() ]"),
    ("error-add", f"$[*][ {REC} @s = add(#a, 1) ]"),
    ("error-int", f"$[*][ {REC} int(#a) ]"),
    ("error-then-fail", f'$[*][ {REC} @s = add(#a, 1) #a == "7" -> fail() ]'),
    ("error-end-rule", f"$[*][ {REC} @e = end(-1) ]"),
    ("scan-some", f'$[2-4][ {REC} #a == "4" -> fail() ]'),
    ("or-logic", f'~ logic-mode: OR ~ $[*][ {REC} #a == "4" -> fail() no() ]'),
]

# validation-mode settings: the per-csvpath override of the error policy
VMODES = [
    None,
    "no-raise, no-stop",
    "no-raise, fail",
    "no-raise, no-fail",
    "no-raise, stop",
    "no-raise, stop, fail",
    "no-raise, match",
    "no-raise, match, fail",
    "no-raise, match, stop",
    "no-raise, match, stop, fail",
    "no-raise, match, no-fail, no-stop",
    "no-raise, no-match, fail",
    "no-raise, no-match, stop",
    "raise, fail",
    "raise, match, fail",
    "no-raise, no-print, match, fail",
    "no-raise, print, no-match",
]

VPATHS = [
    ("v-add", f"$[*][ {REC} @s = add(#a, 1) ]"),
    ("v-add-match", f"$[*][ {REC} add(#a, 1) ]"),
    ("v-int", f"$[*][ {REC} int(#a) ]"),
    ("v-two-errors", f"$[*][ {REC} add(#a, 1) subtract(#c, 1) ]"),
    ("v-notnone", f"$[*][ {REC} @l = length.notnone(#b) ]"),
    ("v-fail-too", f'$[*][ {REC} add(#a, 1) #a == "7" -> fail() ]'),
    ("v-onmatch", f"$[*][ {REC} add.onmatch(#a, 1) ]"),
    ("v-nested", f"$[*][ {REC} @s = add(add(#a, 1), 1) ]"),
]

POLICIES = [
    None,
    ["collect"],
    ["collect", "fail"],
    ["fail"],
    ["stop", "collect"],
    ["stop", "fail", "collect"],
    ["quiet", "collect", "fail"],
    ["print"],
    ["print", "fail"],
    ["raise"],
    ["raise", "fail", "collect"],
]


def standalone() -> None:
    say("=" * 30, "STANDALONE: csvpaths x policies on mixed.csv (collect)")
    for label, path in PATHS:
        for policy in POLICIES:
            if not label.startswith("error") and policy not in (
                None,
                ["collect"],
                ["collect", "fail"],
            ):
                continue
            run_one(label, path, "mixed.csv", policy, "collect")
    say("=" * 30, "STANDALONE: every file, three methods")
    for label, path in PATHS:
        if label not in (
            "no-fail",
            "fail-when",
            "fail-every-line",
            "fail_and_stop-cond",
            "fail_and_stop-bare",
            "failed-then-stop",
            "last-fail",
            "error-add",
            "error-then-fail",
        ):
            continue
        for filename in FILES:
            for method in ("fast_forward", "next", "collect2"):
                for policy in (["collect"], ["collect", "fail"], ["stop", "fail"]):
                    if not label.startswith("error") and policy != ["collect"]:
                        continue
                    run_one(label, path, filename, policy, method)
    say("=" * 30, "STANDALONE: validation-mode x policy (args validation errors)")
    for label, path in VPATHS:
        for vm in VMODES:
            for policy in (["collect"], ["collect", "fail"], ["stop", "collect"], None):
                for filename in ("mixed.csv", "bad_first.csv", "clean.csv"):
                    if filename != "mixed.csv" and policy not in (
                        ["collect"],
                        ["collect", "fail"],
                    ):
                        continue
                    p = path if vm is None else f"~ validation-mode: {vm} ~ {path}"
                    run_one(f"{label} vm={vm}", p, filename, policy, "next")
    say("=" * 30, "STANDALONE: repeated runs give the same verdicts")
    for _ in range(3):
        run_one("repeat", PATHS[1][1], "mixed.csv", ["collect", "fail"], "collect")
        run_one("repeat-err", PATHS[19][1], "mixed.csv", ["collect", "fail"], "collect")


# ---------------------------------------------------------------- named-paths runs

GROUPS = {
    "allgood": ["$[*][ yes() ]", '~ id: second ~ $[*][ #a == "nope" -> fail() ]'],
    "onefails": [
        "~ id: first ~ $[*][ yes() ]",
        f'~ id: failing ~ $[*][ {REC} #a == "4" -> fail() ]',
        "~ id: third ~ $[*][ @n = count() ]",
    ],
    "failall": [
        f"~ id: one ~ $[*][ {REC} yes() ]",
        f'~ id: two ~ $[*][ {REC} #a == "4" -> fail_all() ]',
        f"~ id: three ~ $[*][ {REC} yes() ]",
    ],
    "failstop": [
        f'~ id: fs ~ $[*][ {REC} fail_and_stop(#a == "4") ]',
        f"~ id: after ~ $[*][ {REC} yes() ]",
    ],
    "stopall": [
        f'~ id: sa ~ $[*][ {REC} stop_all(#a == "4") ]',
        f"~ id: after ~ $[*][ {REC} yes() ]",
    ],
    "errors": [
        f"~ id: plain ~ $[*][ {REC} @s = add(#a, 1) ]",
        f"~ id: vfail validation-mode: no-raise, fail ~ $[*][ {REC} @s = add(#a, 1) ]",
        f"~ id: vnofail validation-mode: no-raise, no-fail ~ $[*][ {REC} @s = add(#a, 1) ]",
        f"~ id: vmatch validation-mode: no-raise, match, fail, stop ~ $[*][ {REC} add(#a, 1) ]",
        f'~ id: printing ~ $[*][ #a == "7" -> print("seven at $.csvpath.line_number valid: $.csvpath.valid") ]',
    ],
    "allfail": ["~ id: f1 ~ $[*][ fail() ]", "~ id: f2 ~ $[1][ fail_and_stop() ]"],
}

METHODS = [
    "collect_paths",
    "fast_forward_paths",
    "next_paths",
    "collect_by_line",
    "fast_forward_by_line",
    "next_by_line",
]


def dump_archive() -> None:
    if not os.path.exists("archive"):
        say("    no archive")
        return
    # name the run dirs in creation order within each named-paths dir
    for name in sorted(os.listdir("archive")):
        d = os.path.join("archive", name)
        if not os.path.isdir(d):
            continue

        def key(x):
            t, dot, n = x.partition(".")
            return (t, int(n) if dot else -1)

        for i, r in enumerate(sorted(os.listdir(d), key=key)):
            RUN_NAMES[r] = f"RUN{i}"
    listing = []
    for root, _dirs, files in os.walk("archive"):
        for f in files:
            listing.append(norm(os.path.join(root, f)))
    for f in sorted(listing):
        say(f"    file: {f}")
    paths = []
    for root, _dirs, files in os.walk("archive"):
        for f in files:
            paths.append(os.path.join(root, f))
    for p in sorted(paths, key=norm):
        with open(p, "r", encoding="utf-8") as fh:
            content = fh.read()
        if p.endswith(".json"):
            try:
                content = json.dumps(scrub(json.loads(content)), indent=1, sort_keys=True)
            except Exception as ex:  # pylint: disable=W0718
                content = f"UNPARSEABLE {ex}: {content}"
        say(f"    ---- content of {p}")
        for line in content.split("\n"):
            say(f"    | {line}")


def run_group(group, filename, method, policy) -> None:
    for d in ("archive", "inputs", "cache"):
        if os.path.exists(d):
            shutil.rmtree(d)
    RUN_NAMES.clear()
    say(f"--- group={group} file={filename} method={method} policy={policy}")
    cp = CsvPaths()
    cp.config.csvpath_errors_policy = list(policy)
    cp.file_manager.add_named_file(name="f", path=f"data/{filename}")
    cp.paths_manager.add_named_paths(name=group, paths=GROUPS[group])
    runs = 2 if group in ("onefails", "allgood") and method == "collect_paths" else 1
    for run in range(runs):
        if run == 1:
            # the second run of the same CsvPaths uses the other file, so that a
            # failed verdict of the first run must not leak into the second
            cp.file_manager.add_named_file(name="f2", path="data/clean.csv")
            # run directories are named for the second the run started in (with
            # a .N suffix for collisions). make sure the two runs never share a
            # second so that the names do not depend on the wall clock.
            time.sleep(1.1)
        fname = "f" if run == 0 else "f2"
        ret = None
        try:
            m = getattr(cp, method)
            if method.startswith("next"):
                ret = []
                for line in m(filename=fname, pathsname=group):
                    ret.append(line)
            else:
                ret = m(filename=fname, pathsname=group)
        except Exception as ex:  # pylint: disable=W0718
            cause = ex.__cause__
            say(f"    EXCEPTION {type(ex).__name__}: {ex} | cause: {type(cause).__name__}: {cause}")
        say(f"    run {run} returned: {ret}")
        try:
            results = cp.results_manager.get_named_results(group)
        except Exception as ex:  # pylint: disable=W0718
            say(f"    no results: {type(ex).__name__}")
            continue
        say(f"    results_manager.is_valid: {cp.results_manager.is_valid(group)}")
        say(f"    results_manager.has_errors: {cp.results_manager.has_errors(group)}")
        say(f"    number of results: {cp.results_manager.get_number_of_results(group)}")
        try:
            meta = cp.results_manager.get_metadata(group)
            say(f"    get_metadata valid: {meta.get('valid')} completed: {meta.get('csvpaths_completed')}")
        except Exception as ex:  # pylint: disable=W0718
            say(f"    get_metadata EXCEPTION {type(ex).__name__}: {ex}")
        for r in results:
            try:
                n = len(r)
            except Exception as ex:  # pylint: disable=W0718
                n = f"EXC {type(ex).__name__}"
            say(
                f"    result {r.identity_or_index}: is_valid={r.is_valid} csvpath.is_valid={r.csvpath.is_valid}"
                f" stopped={r.csvpath.stopped} lines={n} errors={errs(r.errors)}"
            )
            say(f"      variables: {r.csvpath.variables}")
            say(f"      printouts: {r.get_printouts()}")
            say(f"      unmatched: {r.unmatched}")
        say(f"    csvpaths errors: {errs(cp.errors)}")
    dump_archive()


def groups() -> None:
    say("=" * 30, "NAMED-PATHS RUNS")
    for group in GROUPS:
        for method in METHODS:
            for filename in ("mixed.csv", "clean.csv", "header.csv"):
                for policy in (["collect", "print"], ["collect", "fail", "print"]):
                    if group != "errors" and policy != ["collect", "print"]:
                        continue
                    if filename != "mixed.csv" and method not in (
                        "collect_paths",
                        "collect_by_line",
                    ):
                        continue
                    run_group(group, filename, method, policy)
    # raise policy through a group: the exception is handled by CsvPaths
    run_group("errors", "mixed.csv", "collect_paths", ["raise", "collect", "fail"])
    run_group("errors", "mixed.csv", "collect_by_line", ["raise", "collect", "fail"])
    run_group("errors", "mixed.csv", "collect_paths", ["quiet", "stop", "fail"])


LOG_KEEP = re.compile(
    r"stopping at|setting invalid|Fail-all|Stop-all|Skip-all|Quiet error|has been stopped|skipping"
)


def log_lines() -> None:
    say("=" * 30, "LOG LINES (selected, timestamps removed)")
    path = "logs/csvpath.log"
    if not os.path.exists(path):
        say("no log")
        return
    with open(path, "r", encoding="utf-8") as f:
        for line in f:
            if LOG_KEEP.search(line):
                line = line.rstrip("\n")
                line = re.sub(r"^\d{4}-\d\d-\d\d \d\d:\d\d:\d\d,\d+ - ", "", line)
                say(f"    log: {line}")


if __name__ == "__main__":
    standalone()
    groups()
    log_lines()
    say("DONE")
