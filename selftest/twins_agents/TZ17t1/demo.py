# ---------------------------------------------------------------------------
# shared demo scaffolding (inlined into every demo.py so each is standalone)
# ---------------------------------------------------------------------------
import contextlib
import io
import json
import os
import random
import re
import shutil
import sys
import traceback

CONFIG_INI = """[csvpath_files]
extensions = txt, csvpath, csvpaths

[csv_files]
extensions = txt, csv, tsv, dat, tab, psv, ssv

[errors]
csvpath = raise, collect, stop, fail, print
csvpaths = raise, collect

[logging]
csvpath = info
csvpaths = info
log_file = logs/csvpath.log
log_files_to_keep = 100
log_file_size = 52428800

[config]
path = config/config.ini

[cache]
path = cache

[listeners]
[marquez]
base_url = http://localhost:5000

[functions]
imports = config/functions.imports

[results]
archive = archive
transfers = transfers

[inputs]
files = inputs/named_files
csvpaths = inputs/named_paths
on_unmatched_file_fingerprints = halt
"""

DATA = {
    # blank line in the middle, ragged rows, empty values, zero, blank last line
    "f.csv": 'a,b,c\n1,2,3\n\n4,,6\n7,8\n0,0,0\n"x y", z ,\n9,10,11,12\n\n',
    # header names with spaces and dots need quoting in a csvpath
    "g.csv": "First Name,Last.Name,n\nAda,Lovelace,1\nAlan,Turing,0\n,,\nGrace,Hopper,-2.5\n",
    # only a header line
    "h.csv": "a,b,c\n",
    # no lines at all
    "e.csv": "",
}

CWD = os.getcwd()


def prepare_workdir():
    """the demo runs in the current directory, which must be a scratch dir"""
    #
    # lark reports the terminals it expected in set order. pin the string hash
    # seed so that such messages (which also end up in printouts and their
    # fingerprints) are the same in every process.
    #
    if os.environ.get("PYTHONHASHSEED") != "0":
        env = dict(os.environ)
        env["PYTHONHASHSEED"] = "0"
        sys.stdout.flush()
        os.execve(sys.executable, [sys.executable] + sys.argv, env)
    if os.path.exists(os.path.join(CWD, "csvpath", "__init__.py")):
        raise SystemExit("run this demo in a scratch directory, not in a source tree")
    for d in ["archive", "inputs", "cache", "logs", "transfers", "config", "saved"]:
        shutil.rmtree(os.path.join(CWD, d), ignore_errors=True)
    os.makedirs("config")
    with open("config/config.ini", "w", encoding="utf-8") as f:
        f.write(CONFIG_INI)
    with open("config/functions.imports", "w", encoding="utf-8") as f:
        f.write("")
    for name, text in DATA.items():
        with open(name, "w", encoding="utf-8", newline="") as f:
            f.write(text)


_TRANSCRIPT = sys.stdout


def out(*args):
    # always to the transcript, also while the library's own printing is captured
    _TRANSCRIPT.write(" ".join(f"{a}" for a in args) + "\n")


_TS = [
    (re.compile(r"\d{4}-\d{2}-\d{2}[ T_]\d{2}[:-]\d{2}[:-]\d{2}(\.\d+)?(\+00:00)?(_\d+)?"), "<TIME>"),
    (re.compile(r"[0-9a-f]{8}-[0-9a-f]{4}-[0-9a-f]{4}-[0-9a-f]{4}-[0-9a-f]{12}"), "<UUID>"),
]


def _sort_expected(s: str) -> str:
    """lark lists the terminals it expected in set order, which changes from
    process to process. sort each run of such lines."""
    lines = s.split("\n")
    ret = []
    run = []
    for line in lines:
        if line.startswith("\t* "):
            run.append(line)
            continue
        ret += sorted(run)
        run = []
        ret.append(line)
    ret += sorted(run)
    return "\n".join(ret)


def norm(s) -> str:
    s = f"{s}"
    s = s.replace(CWD, "<CWD>")
    for rx, rep in _TS:
        s = rx.sub(rep, s)
    s = re.sub(r" at 0x[0-9a-fA-F]+", " at 0x<ADDR>", s)
    if "\t* " in s:
        s = _sort_expected(s)
    return s


def show_exception(e) -> str:
    msg = norm(e)
    # lark messages are long and multi-line. keep them whole, they are deterministic.
    return f"{type(e).__name__}: {msg}"


def dump_node(n, depth=0, lines=None):
    """prints everything the property talks about: kind, name, qualifiers,
    operator, argument order and literal values (with their python type)"""
    if lines is None:
        lines = []
    pad = "  " * depth
    if n is None:
        lines.append(f"{pad}None")
        return lines
    kind = type(n).__name__
    bits = [kind]
    if getattr(n, "name", None) is not None:
        bits.append(f"name={n.name!r}")
    if getattr(n, "qualified_name", None) is not None:
        bits.append(f"qname={n.qualified_name!r}")
    if getattr(n, "qualifiers", None):
        bits.append(f"quals={n.qualifiers!r}")
    if getattr(n, "qualifier", None) is not None:
        bits.append(f"qual={n.qualifier!r}")
    if hasattr(n, "op"):
        bits.append(f"op={n.op!r}")
    if kind == "Term":
        bits.append(f"value={type(n.value).__name__}:{n.value!r}")
    if kind == "Reference":
        bits.append(f"parts={n.name_parts!r}")
    par = n.parent
    bits.append(f"parent={type(par).__name__ if par is not None else None}")
    lines.append(pad + " ".join(bits))
    for c in n.children:
        dump_node(c, depth + 1, lines)
    return lines


def dump_matcher(m) -> str:
    lines = []
    if m is None:
        return "  <no matcher>"
    for i, et in enumerate(m.expressions):
        lines.append(f"  expression[{i}] vote={et[1]!r}")
        dump_node(et[0], 2, lines)
    return "\n".join(lines)


def show_errors(errors) -> str:
    if not errors:
        return f"{errors!r}"
    ret = []
    for e in errors:
        ret.append(
            norm(
                f"(line={e.line_count} scan={e.scan_count} match={e.match_count} "
                f"error={type(e.error).__name__}:{e.error} message={e.message!r} source={e.source})"
            )
        )
    return "[" + ", ".join(ret) + "]"


def sorted_vars(v):
    try:
        return json.dumps(v, sort_keys=True, default=str)
    except TypeError:
        return repr(v)


def run_standalone(label, csvpath, how="collect", tree=True, **kwargs):
    """parse + run one csvpath with a standalone CsvPath and print all that
    can be observed afterwards"""
    from csvpath import CsvPath

    out(f"--- {label} [{how}]")
    out("csvpath:", repr(csvpath))
    buf = io.StringIO()
    p = None
    lines = None
    exc = None
    with contextlib.redirect_stdout(buf):
        try:
            p = CsvPath(**kwargs)
            p.parse(csvpath)
            if how == "collect":
                lines = p.collect()
            elif how == "fast_forward":
                p.fast_forward()
            elif how == "next":
                lines = []
                for line in p.next():
                    lines.append(list(line))
            elif how == "collect2":
                lines = p.collect(nexts=2)
            elif how == "parse":
                pass
        except Exception as e:  # pylint: disable=W0718
            exc = e
    if exc is not None:
        out("raised:", show_exception(exc))
    if p is not None:
        out("scan:", repr(p.scan), "match:", repr(p.match))
        out("metadata:", sorted_vars(p.metadata))
        out("lines:", repr(lines))
        out("variables:", norm(sorted_vars(p.variables)))
        out(
            "is_valid:", p.is_valid, "stopped:", p.stopped,
            "scan_count:", p.scan_count, "match_count:", p.match_count,
        )
        out("errors:", show_errors(p.errors))
        if p.unmatched is not None:
            out("unmatched:", repr(p.unmatched))
        if tree and p.matcher is not None:
            out("tree after run:")
            out(dump_matcher(p.matcher))
    printed = buf.getvalue()
    out("printed:", repr(norm(printed)))
    return p


def parse_tree(label, csvpath):
    """the component tree only, no run"""
    from csvpath import CsvPath

    out(f"--- {label} [tree]")
    out("csvpath:", repr(csvpath))
    buf = io.StringIO()
    with contextlib.redirect_stdout(buf):
        try:
            p = CsvPath()
            m = p.parse(csvpath, disposably=True)
            res = dump_matcher(m)
            meta = sorted_vars(p.metadata)
            parts = f"scan: {p.scan!r} match: {p.match!r}"
        except Exception as e:  # pylint: disable=W0718
            res = "raised: " + show_exception(e)
            meta = None
            parts = None
    out(res)
    if parts is not None:
        out(parts)
        out("metadata:", meta)
    if buf.getvalue():
        out("printed:", repr(norm(buf.getvalue())))
    return res


_REDACT_KEYS = {
    "time", "uuid", "named_paths_uuid", "time_completed", "run_time", "run_started_at",
    "lines_time", "last_line_time", "trace", "at", "run", "named_file_last_change",
}
_TIME_DEPENDENT_FILES = {"meta.json", "errors.json", "manifest.json"}


def _redact(o, parent_key=None):
    if isinstance(o, dict):
        ret = {}
        for k, v in o.items():
            if k in _REDACT_KEYS:
                ret[k] = "<REDACTED>" if v is not None else None
            elif parent_key == "file_fingerprints" and k in _TIME_DEPENDENT_FILES:
                ret[k] = "<REDACTED>"
            else:
                ret[k] = _redact(v, k)
        return ret
    if isinstance(o, list):
        return [_redact(_, parent_key) for _ in o]
    if isinstance(o, str):
        return norm(o)
    return o


def dump_dir(root):
    """lists and prints every file under root with run-directory timestamps,
    uuids and timings normalised"""
    if not os.path.exists(root):
        out(f"<{root} does not exist>")
        return
    entries = []
    for base, dirs, files in os.walk(root):
        dirs.sort()
        for f in sorted(files):
            entries.append(os.path.join(base, f))
    named = sorted((norm(e), e) for e in entries)
    for shown, real in named:
        out(f"== {shown}")
        with open(real, "r", encoding="utf-8") as fh:
            text = fh.read()
        if real.endswith(".json"):
            try:
                j = json.loads(text)
                out(json.dumps(_redact(j), indent=1, sort_keys=True))
                continue
            except ValueError:
                pass
        out(norm(text))


def run_group(label, paths, filename="f", datafile="f.csv", how="collect", pathsname=None):
    from csvpath import CsvPaths

    pathsname = pathsname or re.sub(r"\W", "_", label)
    out(f"--- {label} [group {how}] paths={paths!r}")
    buf = io.StringIO()
    exc = None
    cp = None
    with contextlib.redirect_stdout(buf):
        try:
            cp = CsvPaths()
            cp.file_manager.add_named_file(name=filename, path=datafile)
            cp.paths_manager.add_named_paths(name=pathsname, paths=paths)
            if how == "collect":
                cp.collect_paths(filename=filename, pathsname=pathsname)
            elif how == "fast_forward":
                cp.fast_forward_paths(filename=filename, pathsname=pathsname)
            elif how == "by_line":
                cp.collect_by_line(filename=filename, pathsname=pathsname)
        except Exception as e:  # pylint: disable=W0718
            exc = e
    if exc is not None:
        out("raised:", show_exception(exc))
    if cp is not None:
        try:
            rs = cp.results_manager.get_named_results(pathsname)
        except Exception as e:  # pylint: disable=W0718
            rs = None
            out("no results:", show_exception(e))
        for r in rs or []:
            c = r.csvpath
            out(" result identity:", repr(c.identity))
            out("  scan:", norm(repr(c.scan)), "match:", repr(c.match))
            out("  metadata:", sorted_vars(c.metadata))
            try:
                ls = r.lines
                ls = list(ls.next()) if hasattr(ls, "next") else ls
            except Exception as e:  # pylint: disable=W0718
                ls = show_exception(e)
            out("  lines:", repr(ls))
            out("  variables:", sorted_vars(r.variables))
            out("  is_valid:", c.is_valid, "stopped:", c.stopped, "errors:", show_errors(r.errors))
            out("  printouts:", repr(r.printouts if hasattr(r, "printouts") else None))
    out("printed:", repr(norm(buf.getvalue())))
    return cp


# ---------------------------------------------------------------------------
# t1 demo: the outer-comment / csvpath splitter of MetadataParser and what is
# built on it (CsvPath.parse, CsvPaths runs)
# ---------------------------------------------------------------------------
def section_splitter():
    from csvpath import CsvPath
    from csvpath.util.metadata_parser import MetadataParser

    out("##### 1. MetadataParser.extract_csvpath_and_comment on hand-written strings")
    holder = CsvPath()
    mp = MetadataParser(holder)
    cases = [
        "",
        " ",
        "$f.csv[*][yes()]",
        "$[*][yes()]",
        "~ c ~ $f.csv[*][yes()]",
        "~ c ~\n$f.csv[*][yes()]\n",
        "$f.csv[*][yes()] ~ after ~",
        "~ before ~ $f.csv[*][yes()] ~ after ~",
        "~ id: x ~ $f.csv[*][ ~ inner ~ yes() ]",
        "~ id: x ~ $f.csv[*][ ~ inner ~ yes() ] ~ name: late ~",
        "~ has [brackets] inside ~ $f.csv[*][yes()]",
        "~ has ] inside ~ $f.csv[*][yes()]",
        "~ has [ inside ~ $f.csv[*][yes()]",
        "~ has $ inside ~ $f.csv[*][yes()]",
        '$f.csv[*][print("a]b")]',
        '$f.csv[*][print("a]b") ~ x ~ ]',
        '$f.csv[*][print("a]b")] ~ t ~',
        "$f.csv[*][regex(#a, /[0-9]+/)]",
        "$f.csv[*][regex(#a, /[0-9]+/)] ~ tail: [1] ~",
        "$f.csv[1-3][yes()]]]",
        "$f.csv[1-3]]][yes()]",
        "$f.csv[*]",
        "$f.csv[*] ~ c ~",
        "$f.csv",
        "$",
        "]",
        "]]",
        "[",
        "[]",
        "][",
        "~",
        "~~",
        "~ ~ ~",
        "~ a ~ ~ b ~ $f[*][yes()]",
        "~ a ~ $f[*][yes()] ~ b ~ ~ c ~",
        "$f[*][yes()] $g[*][no()]",
        "$f[*][ @a = $g.variables.b ]",
        "$f[*][ @a = $g.variables.b ] ~ $x ~",
        "\n\n~\n multi\n line: yes\n~\n\n$f.csv[*]\n[\n yes()\n]\n\n",
        "$f.csv[*][yes()]" + " " * 40,
        "$f.csv[*][" + "yes() " * 50 + "]",
        "$f.csv[*][" + "in(#a, \"]\") " * 20 + "]",
        "~" + "]" * 30 + "~" + "$f[*][" + "]" * 30,
    ]
    for c in cases:
        try:
            r = mp.extract_csvpath_and_comment(c)
        except Exception as e:  # pylint: disable=W0718
            r = show_exception(e)
        out(repr(c), "=>", repr(r))

    out("##### 2. the same on 4000 generated strings (fixed seed)")
    rnd = random.Random(1717)
    alphabet = ["~", "[", "]", "$", "a", " ", ":", "\n", '"', "]", "[", "x"]
    for i in range(4000):
        n = rnd.randint(0, 24)
        s = "".join(rnd.choice(alphabet) for _ in range(n))
        try:
            r = mp.extract_csvpath_and_comment(s)
        except Exception as e:  # pylint: disable=W0718
            r = show_exception(e)
        out(i, repr(s), "=>", repr(r))

    out("##### 3. extract_metadata: returned csvpath and the metadata it collects")
    metas = [
        "$f.csv[*][yes()]",
        "~ name: one ~ $f.csv[*][yes()]",
        "~ name: one id: first description: d [x] ~ $f.csv[*][yes()]",
        "~ name: one ~ $f.csv[*][yes()] ~ id: trailing ~",
        "  \n ~ a: 1\n b: two words\n c: /tmp/x ~ \n $f.csv[1*][ #a ] \n",
        "~ validation-mode: no-raise, print ~ $f.csv[*][ add(\"x\", 1) ]",
        "~~$f.csv[*][yes()]",
        "~ ~ $f.csv[*][yes()]",
        "yes()",
        "",
        "   ",
        "~ only a comment ~",
        "~ unterminated $f.csv[*][yes()]",
    ]
    for m in metas:
        c = CsvPath()
        try:
            r = MetadataParser(c).extract_metadata(instance=c, csvpath=m)
        except Exception as e:  # pylint: disable=W0718
            r = show_exception(e)
        out(repr(m), "=>", repr(r), "metadata:", sorted_vars(c.metadata), "identity:", repr(c.identity))


BASE_PATHS = [
    # (label, scan, [components])  -- laid out in several ways below
    ("yes", "$f.csv[*]", ["yes()"]),
    ("header-eq", "$f.csv[1*]", ['#a == "4"']),
    ("assign-count", "$f.csv[*]", ["@n.onmatch = count()", 'not(#b == "")']),
    ("when-print", "$f.csv[1*]", ['above(int(#0), 3) -> print("big: $.headers.a in line $.csvpath.line_number")']),
    ("quoted-header", "$g.csv[1*]", ['#"First Name"', '@ln = #"Last.Name"', "@n = add(#n, -2.5)"]),
    ("brackets-in-strings", "$f.csv[1*]", ['@s = concat("[", #a, "]")', 'print("]$.variables.s[")']),
    ("regex-with-brackets", "$f.csv[1*]", ["regex(#a, /^[0-9]+$/)", "@hit = regex(/[x-z] [x-z]/, #0)"]),
    ("last-on-blank", "$f.csv[*]", ['last() -> print("done at $.csvpath.line_number")', "@c = count_lines()"]),
    ("numbers", "$f.csv[1*]", ["@z = 0", "@m = -1", "@d = 3.50", '#b == 0', "@e = equals(#c, 0.0)"]),
    ("nested", "$f.csv[1*]", ['or(and(exists(#a), not(empty(#b))), in(#c, "6|11"))', "@l = length(concat(#a, upper(lower(#b))))"]),
]


def layouts(scan, comps, rnd):
    """the same csvpath in different layouts: whitespace, newlines, inner
    comments and outer comments without mode settings"""
    yield f"{scan}[{' '.join(comps)}]"
    yield f"{scan}[\n    " + "\n    ".join(comps) + "\n]"
    yield f"  {scan}  [  " + "   ".join(comps) + "  ]  "
    yield f"{scan}[ ~ first ~ " + " ~ between ~ ".join(comps) + " ~ last ~ ]"
    yield f"~ an outer comment ~ {scan}[{' '.join(comps)}]"
    yield f"~ outer with [brackets] and description: a ] b ~\n{scan}[{' '.join(comps)}]"
    yield f"{scan}[{' '.join(comps)}] ~ trailing comment ~"
    yield f"~ name: both ~ {scan}[ ~ in ~ {' '.join(comps)}]\n~ trailing: too ~\n"
    # a couple of random ones
    for _ in range(2):
        seps = [rnd.choice([" ", "\n", "\t ", "  ", " ~ c ~ ", "\n~ x\ny ~\n"]) for _ in comps]
        body = "".join(s + c for s, c in zip(seps, comps))
        yield f"{scan}[{body}{rnd.choice(['', ' ', chr(10)])}]"


def section_runs():
    out("##### 4. standalone runs of the same csvpaths in different layouts")
    rnd = random.Random(42)
    for label, scan, comps in BASE_PATHS:
        for i, path in enumerate(layouts(scan, comps, rnd)):
            how = ["collect", "fast_forward", "next"][i % 3]
            parse_tree(f"{label}/{i}", path)
            run_standalone(f"{label}/{i}", path, how=how, tree=False)

    out("##### 5. error cases and odd inputs through CsvPath.parse")
    bad = [
        None,
        17,
        "",
        "   ",
        "no dollar",
        "$f.csv",
        "$f.csv[*]",
        "$f.csv[*] ~ c ~",
        "$f.csv[*][",
        "$f.csv[*]]",
        "$f.csv[*][yes()",
        "$f.csv[*] yes()]",
        "$f.csv[*][yes()] trailing",
        "$f.csv[*][yes()] ~ c",
        "$f.csv[*][nosuchfunction()]",
        "$f.csv[*][yes() ~ unterminated inner ]",
        "$missing.csv[*][yes()]",
        "$[*][yes()]",
        "~ c ~",
        "$e.csv[*][yes()]",
        "$h.csv[*][yes()]",
        "$f.csv[*][yes()]]",
        "$f.csv[2][yes()] $f.csv[3][yes()]",
    ]
    for i, b in enumerate(bad):
        run_standalone(f"bad/{i}", b, how="collect")

    out("##### 6. repeated parse and runs on one instance")
    from csvpath import CsvPath

    p = CsvPath()
    buf = io.StringIO()
    with contextlib.redirect_stdout(buf):
        p.parse("~ id: first ~ $f.csv[1-3][ @a = #a ]")
        l1 = p.collect()
        m1 = dict(p.metadata)
        p.parse("~ name: second ~ $f.csv[1*][ @b = #b ] ~ late: yes ~")
        l2 = p.collect()
    out("first:", l1, sorted_vars(m1))
    out("second:", l2, sorted_vars(p.metadata), sorted_vars(p.variables), repr(p.scan), repr(p.match))
    out("printed:", repr(buf.getvalue()))


def section_group():
    out("##### 7. CsvPaths runs: comments decide the identities and the archive layout")
    run_group(
        "grp one",
        [
            "$[*][yes()]",
            '~id:two~ $[*][#a=="4"]',
            '~ name: three\n description: no brackets in it ~\n$[1*][ ~ inner ] ~ @s = concat("]", #b) print("$.variables.s") ]',
            '$[1-2][ @x = #c ] ~ id: four ~',
        ],
    )
    run_group(
        "grp brackets in comment",
        ['~ id: ok ~ $[*][yes()]', '~ name: three\n description: has [brackets] in it ~\n$[1*][ @s = #b ]'],
    )
    run_group(
        "grp two",
        [
            '~ id: quoted ~ $[1*][ #"First Name" @ln = #"Last.Name" ]',
            '~ validation-mode: no-raise, no-stop, print  id: witherror ~ $[1*][ @q = add(#"First Name", 1) ]',
        ],
        filename="g",
        datafile="g.csv",
        how="fast_forward",
    )
    run_group(
        "grp three",
        ['~ id: byline1 ~ $[*][ @c = count() ]', '$[*][ last() -> print("bye") ] ~ id: byline2 ~'],
        how="by_line",
    )
    run_group("grp bad", ["~ id: nomatch ~ $[*]", "$[*][yes()]"])
    dump_dir("archive")
    dump_dir(os.path.join("inputs", "named_paths"))


if __name__ == "__main__":
    prepare_workdir()
    section_splitter()
    section_runs()
    section_group()
    out("##### done")
