"""
differential demo for refactoring t1 (Scanner.includes / Scanner.is_last /
Scanner._scan_settings).

run in an empty temp dir:   PYTHONPATH=<worktree> python demo.py > out.txt
the transcript is deterministic: no timestamps, no paths outside cwd.
"""
import contextlib
import io
import itertools
import logging
import os
import sys

CONFIG = """[csvpath_files]
extensions = txt, csvpath, csvpaths

[csv_files]
extensions = txt, csv, tsv, dat, tab, psv, ssv

[errors]
csvpath = raise, collect, stop, fail, print
csvpaths = raise, collect

[logging]
csvpath = info
csvpaths = info
log_file = logs/csvpath.log
log_files_to_keep = 100
log_file_size = 52428800

[config]
path = config/config.ini

[cache]
path = cache

[listeners]
[marquez]
base_url = http://localhost:5000

[functions]
imports = config/functions.imports

[results]
archive = archive
transfers = transfers

[inputs]
files = inputs/named_files
csvpaths = inputs/named_paths
on_unmatched_file_fingerprints = halt
"""

os.makedirs("config", exist_ok=True)
with open("config/config.ini", "w", encoding="utf-8") as f:
    f.write(CONFIG)
if not os.path.exists("config/functions.imports"):
    with open("config/functions.imports", "w", encoding="utf-8") as f:
        f.write("")

from csvpath import CsvPath  # noqa: E402
from csvpath.scanning.scanner import Scanner  # noqa: E402

OUT = sys.stdout


def say(*a):
    print(*a, file=OUT)


# ----------------------------------------------------------------------
# part A: direct calls of includes()/is_last() over a grid of settings
# ----------------------------------------------------------------------
class FakeMonitor:
    def __init__(self, end):
        self.physical_end_line_number = end


class FakeCsvPath:
    """just enough of a CsvPath for Scanner.is_last(all_lines=True)"""

    def __init__(self, end):
        self.line_monitor = FakeMonitor(end)
        self.logger = logging.getLogger("demo-null")
        self.logger.addHandler(logging.NullHandler())
        self.logger.propagate = False


U = "U"  # means: do not pass the keyword
LINES = [None, -1, 0, 1, 2, 3, 4, 5, 6, 7, 8, 9, 10, 11]
FROMS = [U, None, 0, 2, 5]
TOS = [U, None, 0, 2, 5, 9]
ALLS = [U, True, False]
THESE = [U, [], [3], [1, 7, 4]]
SCANS = ["*", "3*", "4", "2-6", "6-2", "1+3+8", "0-1+4-5+9", "0", "0*", "5+2"]


def ch(fn, line, kw):
    try:
        r = fn(line, **kw)
    except Exception as e:  # pylint: disable=W0718
        return "<" + type(e).__name__ + ">"
    if r is True:
        return "T"
    if r is False:
        return "F"
    return "<" + repr(r) + ">"


def part_a():
    say("=== part A: direct includes()/is_last() grid")
    for scan in SCANS:
        for end in (7, None):
            sc = Scanner(csvpath=FakeCsvPath(end))
            buf = io.StringIO()
            with contextlib.redirect_stdout(buf):
                sc.parse(f"$x.csv[{scan}]")
            say(
                f"--- scan [{scan}] end={end} from={sc.from_line} to={sc.to_line} "
                f"all={sc.all_lines} these={sc.these} file={sc.filename}"
            )
            for fl, tl, al, th in itertools.product(FROMS, TOS, ALLS, THESE):
                if end is None and not (fl == U or tl == U):
                    continue  # keep the transcript a reasonable size
                kw = {}
                if fl != U:
                    kw["from_line"] = fl
                if tl != U:
                    kw["to_line"] = tl
                if al != U:
                    kw["all_lines"] = al
                if th != U:
                    kw["these"] = list(th)
                inc = "".join(ch(sc.includes, ln, kw) for ln in LINES)
                last = "".join(ch(sc.is_last, ln, kw) for ln in LINES)
                say(f"{fl},{tl},{al},{th} inc={inc} last={last}")
                # the settings are read-only for both methods
                if "these" in kw and kw["these"] != list(th):
                    say("   !!! these mutated", kw["these"])
            say(
                f"    after: from={sc.from_line} to={sc.to_line} "
                f"all={sc.all_lines} these={sc.these}"
            )
    # no csvpath at all: all_lines is_last needs the line monitor
    sc = Scanner()
    sc.parse("$x.csv[*]")
    say("no-csvpath is_last:", "".join(ch(sc.is_last, ln, {}) for ln in LINES))
    say("no-csvpath includes:", "".join(ch(sc.includes, ln, {}) for ln in LINES))
    # odd argument types
    sc = Scanner(csvpath=FakeCsvPath(3))
    sc.parse("$x.csv[1-3]")
    for line in ["2", 2.0, 2.5, True, False, [], (1,)]:
        for kw in (
            {},
            {"all_lines": True},
            {"from_line": None, "to_line": 3},
            {"from_line": None, "to_line": None, "these": [2, True]},
            {"from_line": "1", "to_line": "3"},
            {"from_line": 3, "to_line": None, "all_lines": 1},
            {"from_line": None, "to_line": None, "all_lines": 0, "these": ()},
        ):
            say(
                f"odd line={line!r} kw={kw} inc={ch(sc.includes, line, kw)} "
                f"last={ch(sc.is_last, line, kw)}"
            )


# ----------------------------------------------------------------------
# part B: end to end. every blank mask for small files x a family of scans
# ----------------------------------------------------------------------
def write_file(name, mask, trailing_newline=True, ragged=False):
    recs = []
    for i, blank in enumerate(mask):
        if blank:
            recs.append("")
        elif ragged and i % 3 == 1:
            recs.append(f"r{i}")
        elif ragged and i % 3 == 2:
            recs.append(f"r{i},,x,")
        else:
            recs.append(f"r{i},v{i}")
    txt = "\n".join(recs)
    if trailing_newline and recs:
        txt += "\n"
    with open(name, "w", encoding="utf-8") as f:
        f.write(txt)


def scans_for(n):
    top = n + 2
    out = ["*"]
    out += [f"{k}*" for k in range(0, top + 1)]
    out += [f"{k}" for k in range(0, top + 1)]
    out += [f"{a}-{b}" for a in range(0, top + 1) for b in range(0, top + 1)]
    return out


PLUS_LISTS = [
    "0+1",
    "0+2+4",
    "1+3",
    "0-1+3",
    "0-1+3-4",
    "1+2-3+5",
    "0+2-2",
    "1-2+4+6-7",
    "0+1+2+3+4+5+6+7",
    "2+5-6",
    "3+7",
]


def run(fname, scan, match='yes() push("seen", line_number())', prefix="", **kw):
    buf = io.StringIO()
    p = None
    try:
        with contextlib.redirect_stdout(buf):
            p = CsvPath(**kw)
            p.parse(f"{prefix}${fname}[{scan}][{match}]")
            lines = p.collect()
        lm = p.line_monitor
        say(
            f"{prefix}[{scan}] lines={[l[0] if l else l for l in lines]} scan={p.scan_count} "
            f"match={p.match_count} vars={dict(p.variables)} stopped={p.stopped} "
            f"completed={p.completed} valid={p.is_valid} pln={lm.physical_line_number} "
            f"dln={lm.data_line_number} errs={len(p.errors or [])} "
            f"nums={p.collect_line_numbers()} out={buf.getvalue()!r}"
        )
    except Exception as e:  # pylint: disable=W0718
        say(f"[{scan}] EXC {type(e).__name__}: {str(e)[:120]!r} out={buf.getvalue()[:80]!r}")


def part_b():
    say("=== part B: end to end over blank masks")
    for n in range(0, 5):
        for mask in itertools.product([0, 1], repeat=n):
            write_file("b.csv", mask)
            say(f"--- file n={n} mask={''.join(map(str, mask))}")
            for scan in scans_for(n):
                # keep the run count sane: all scans for n<=3, a stride for n==4
                if n == 4 and "-" in scan and (hash_int(scan, mask) % 3):
                    continue
                run("b.csv", scan)
    # larger files, hand picked masks, '+' lists and forward ranges
    masks = [
        (0,) * 8,
        (0, 1, 0, 1, 0, 1, 0, 1),
        (1, 1, 0, 0, 0, 1, 0, 0, 1, 1),
        (0, 0, 0, 1, 1, 1, 0, 0, 0, 0),
        (1,) * 6,
        (0, 0, 1, 0, 0, 0, 0, 1, 0, 1),
    ]
    for mask in masks:
        for trailing in (True, False):
            write_file("c.csv", mask, trailing_newline=trailing, ragged=True)
            say(f"--- file mask={''.join(map(str, mask))} trailing_newline={trailing}")
            n = len(mask)
            for scan in (
                ["*", "0*", "3*", f"{n-1}*", f"{n}*", f"{n+2}*"]
                + [f"0-{n-1}", f"{n-1}-0", f"2-{n+2}", f"{n+2}-2", "4-4", f"{n}-{n+1}"]
                + PLUS_LISTS
            ):
                run("c.csv", scan)
    # last() relies on is_last through a different route
    write_file("d.csv", (0, 0, 1, 0, 0, 1))
    say("--- last() and friends")
    for scan in ["*", "1*", "0-3", "3-0", "1+3", "0-4", "5", "1-2+4"]:
        run("d.csv", scan, match='last.nocontrib() -> @last = line_number() yes()')
        run("d.csv", scan, match='@c = count_scans() @t = total_lines() yes()')
        run("d.csv", scan, skip_blank_lines=False)
        run("d.csv", scan, match='no()')
        run("d.csv", scan, match='no() push("n", line_number())', prefix="~ return-mode: no-matches ~ ")
    # repeated runs on one instance and next()/fast_forward()
    say("--- repeated / next / fast_forward")
    for scan in ["*", "1-3", "3-1", "0+4", "2*"]:
        p = CsvPath()
        p.parse(f'$d.csv[{scan}][yes() push("seen", line_number())]')
        p.fast_forward()
        say(f"[{scan}] ff vars={dict(p.variables)} scan={p.scan_count} stopped={p.stopped}")
        p2 = CsvPath()
        p2.parse(f'$d.csv[{scan}][yes()]')
        got = [(l[0], p2.line_monitor.physical_line_number, p2.completed) for l in p2.next()]
        say(f"[{scan}] next={got} scan={p2.scan_count} completed={p2.completed}")
        p3 = CsvPath()
        p3.parse(f'$d.csv[{scan}][yes()]')
        say(f"[{scan}] nexts=2 {p3.collect(nexts=2)} scan={p3.scan_count}")


def hash_int(scan, mask):
    # deterministic (python's hash() of str is salted)
    return sum(ord(c) for c in scan) + sum(mask)


if __name__ == "__main__":
    part_a()
    part_b()
    say("=== done")
