#!/usr/bin/env python
"""
Differential demonstration for property C16:
  "print() emits its text verbatim with references replaced by current values"

Run it in an EMPTY scratch directory (it creates ./config, csv files, ./archive ...):

    mkdir /tmp/demo && cd /tmp/demo && PYTHONPATH=<csvpath checkout> python demo.py > out.txt 2>&1

The transcript is deterministic: timestamps of run directories, object addresses,
tracebacks and wall-clock fields are normalised or left out.
"""
import io
import json
import os
import random
import re
import shutil
import sys
import warnings
from contextlib import redirect_stdout

warnings.simplefilter("ignore")

# lark lists the expected terminals of a parse error in set order; pin the
# hash seed so that those messages are the same in every run
if os.environ.get("PYTHONHASHSEED") != "0":
    os.environ["PYTHONHASHSEED"] = "0"
    os.execv(sys.executable, [sys.executable] + sys.argv)

CONFIG = """[csvpath_files]
extensions = txt, csvpath, csvpaths

[csv_files]
extensions = txt, csv, tsv, dat, tab, psv, ssv

[errors]
csvpath = raise, collect, stop, fail, print
csvpaths = raise, collect

[logging]
csvpath = info
csvpaths = info
log_file = logs/csvpath.log
log_files_to_keep = 100
log_file_size = 52428800

[config]
path = config/config.ini

[cache]
path = cache

[listeners]
[marquez]
base_url = http://localhost:5000

[functions]
imports = config/functions.imports

[results]
archive = archive
transfers = transfers

[inputs]
files = inputs/named_files
csvpaths = inputs/named_paths
on_unmatched_file_fingerprints = halt
"""

FILES = {
    "basic.csv": "a,b,c\n1,2,3\n\n4,,6,7\n0,zero\nx,y,z\n   \n,,\n9,0,0.0\n",
    "names.csv": "first name,last name,n\nAda,Lovelace,1\nAlan,Turing,2\n\nGrace,,0\nLinus\n",
    "header_only.csv": "a,b,c\n",
    "blank_first.csv": "\na,b,c\n1,2,3\n",
    "one_col.csv": "a\n0\n\n00\n",
    "empty.csv": "",
}


def setup():
    for d in ("config", "archive", "inputs", "cache", "logs", "transfers"):
        if os.path.exists(d):
            shutil.rmtree(d)
    os.makedirs("config")
    with open("config/config.ini", "w", encoding="utf-8") as f:
        f.write(CONFIG)
    with open("config/functions.imports", "w", encoding="utf-8") as f:
        f.write("")
    for name, content in FILES.items():
        with open(name, "w", encoding="utf-8") as f:
            f.write(content)


setup()

from csvpath import CsvPath, CsvPaths  # noqa: E402
from csvpath.util.printer import Printer  # noqa: E402
from csvpath.matching.util.print_parser import PrintParser  # noqa: E402
from csvpath.matching.util.lark_print_parser import (  # noqa: E402
    LarkPrintParser,
    LarkPrintTransformer,
)

ADDR = re.compile(r"0x[0-9a-f]{6,}")
RUNDIR = re.compile(r"\d{4}-\d\d-\d\d_\d\d-\d\d-\d\d(?:[._]\d+)?")


def norm(s):
    return ADDR.sub("0xADDR", f"{s}")


class RecordingPrinter(Printer):
    """keeps every call it receives, in order"""

    def __init__(self, label):
        self.label = label
        self.calls = []

    @property
    def last_line(self):
        return self.calls[-1][-1] if self.calls else None

    @property
    def lines_printed(self):
        return len(self.calls)

    def print(self, string):
        self.calls.append(("print", string))

    def print_to(self, name, string):
        self.calls.append(("print_to", name, string))


def show_errors(errors):
    if not errors:
        print(f"   errors: {errors!r}")
        return
    for e in errors:
        print(
            "   error: line=%s match=%s scan=%s class=%s text=%s source=%s"
            % (
                e.line_count,
                e.match_count,
                e.scan_count,
                type(e.error).__name__,
                norm(repr(f"{e.error}")),
                norm(repr(f"{e.source}")),
            )
        )


def show_state(p, printers, lines):
    print(f"   returned: {lines!r}")
    for pr in printers:
        print(f"   printer {pr.label}: {len(pr.calls)} calls; last_line={norm(repr(pr.last_line))}")
        for c in pr.calls:
            print(f"      {norm(repr(c))}")
    print(f"   variables: {p.variables!r}")
    print(f"   metadata: {p.metadata!r}")
    print(
        f"   valid={p.is_valid} stopped={p.stopped} match_count={p.match_count} "
        f"scan_count={p.scan_count} lines_printed_first={p.printers[0].lines_printed if p.printers else None}"
    )
    show_errors(p.errors)


def run_path(title, path, method="collect", policy=None, printers=2):
    print(f"--- {title}")
    print(f"   csvpath: {path!r} via {method}")
    p = CsvPath()
    if policy is not None:
        p.config.csvpath_errors_policy = policy
    prs = [RecordingPrinter(f"R{i}") for i in range(printers)]
    # the first recording printer replaces the defaults; the second is added
    p.set_printers(prs[:1])
    for pr in prs[1:]:
        p.add_printer(pr)
    lines = None
    out = io.StringIO()
    try:
        with redirect_stdout(out):
            p.parse(path)
            if method == "collect":
                lines = p.collect()
            elif method == "fast_forward":
                p.fast_forward()
            elif method == "next":
                lines = []
                for line in p.next():
                    lines.append(list(line))
            elif method == "collect2":
                lines = p.collect(2)
    except Exception as e:  # pylint: disable=W0718
        print(f"   EXCEPTION {type(e).__name__}: {norm(e)}")
    print("   stdout:")
    for ln in out.getvalue().split("\n"):
        print(f"      |{norm(ln)}")
    show_state(p, prs, lines)
    return p


# ---------------------------------------------------------------------------
# A. hand-written print strings, all reference kinds, all arrangements
# ---------------------------------------------------------------------------
SETUP = (
    '@n=line_number() push("st", #0) @d.k=count_lines() @z=0 @e="" '
    '@s="a b" tally(#0) '
)

HAND = [
    "plain text only, with punctuation: ;:!?()[]{}<>=+-*/&%#@^~`|_ and digits 0123456789",
    "",
    " ",
    "   leading and trailing   ",
    "n=$.variables.n",
    "$.variables.n",
    "$.variables.n is first",
    "last is $.variables.n",
    "[$.variables.n]",
    "($.variables.n)",
    "$.variables.n, $.variables.z, $.variables.e, $.variables.s|",
    "$.variables.n $.variables.n  $.variables.n   $.variables.n",
    "$.variables.n;$.variables.z",
    "$.variables.n-$.variables.z+$.variables.n",
    "a$.variables.n!b$.variables.z?c",
    "stack $.variables.st.length: $.variables.st.0 / $.variables.st.1 / $.variables.st.99 / $.variables.st.x /",
    "stack whole: $.variables.st end",
    "dict $.variables.d.k and whole $.variables.d and missing key $.variables.d.nope ok",
    "tally $.variables.tally_0 /",
    "tracking on a scalar $.variables.n.k end",
    "unknown var $.variables.nope and unknown tracking $.variables.nope.x end",
    "header by name $.headers.a, $.headers.b, $.headers.c;",
    "header by index $.headers.0|$.headers.1|$.headers.2|$.headers.3|$.headers.17|",
    "quoted header $.headers.'a' and $.headers.'b'!",
    "missing header $.headers.nope and $.headers.'no pe' end",
    "header with tracking $.headers.a.b end",
    "metadata $.metadata.id, $.metadata.name, $.metadata.description, $.metadata.nope ok",
    "runtime $.csvpath.count_lines/$.csvpath.total_lines/$.csvpath.line_number/$.csvpath.count_matches/$.csvpath.count_scans ok",
    "runtime $.csvpath.identity, $.csvpath.delimiter $.csvpath.quotechar $.csvpath.file_name $.csvpath.headers $.csvpath.valid $.csvpath.stopped ok",
    "runtime $.csvpath.scan_part $.csvpath.match_part ok",
    "runtime modes $.csvpath.print-mode|",
    "runtime $.csvpath.lines_collected $.csvpath.nope $.csvpath.headers.1 ok",
    "escape: value is $.variables.n.. Next sentence..",
    "escape: $.headers.a.. $.headers.b..$.headers.c.. end",
    "escape at very end $.variables.n..",
    "two dots in text .. and ... and .... stay",
    "dot word: e.g. this.that and 3.14 stay",
    "sentinel chars $.variables.n: $.variables.n; $.variables.n, $.variables.n! $.variables.n? $.variables.n) $.variables.n] $.variables.n} $.variables.n' $.variables.n/ end",
    "adjacent refs $.variables.n$.variables.z end",
    "adjacent refs $.headers.a$.headers.b$.headers.c",
    "newline in\n   the middle $.variables.n\n and after",
    "tab\tin\tthe middle\t$.variables.n\tend",
    "unicode: éè ✓ $.variables.n ✓",
    "many    spaces     between      words $.variables.n      end",
    "trailing space after ref $.variables.n ",
    "trailing spaces after ref $.variables.n   ",
    "quoted 'single' text and $.variables.'n' and $.variables.'s' end",
]

for fname in ("basic.csv", "names.csv"):
    for i, s in enumerate(HAND):
        path = (
            f"~ id: hand{i} name: demo description: a print test ~ "
            f'${fname}[*][ {SETUP} print("{s}") ]'
        )
        run_path(f"A.{fname}.{i}", path)

# headers with spaces, by quoted name
for i, s in enumerate(
    [
        "$.headers.'first name' $.headers.'last name'!",
        "<$.headers.'first name'> <$.headers.'last name'> <$.headers.n>",
        "$.headers.'first name'.. $.headers.2..",
    ]
):
    run_path(f"A.names.quoted.{i}", f'$names.csv[*][ print("{s}") ]')

# ---------------------------------------------------------------------------
# B. generated print strings: chunks and references in any arrangement
# ---------------------------------------------------------------------------
rnd = random.Random(160016)
CHUNKS = [
    "x",
    " ",
    "  ",
    "a b",
    "!",
    "?",
    ", ",
    "; ",
    ":",
    "-",
    "(",
    ")",
    "..",
    ". ",
    " .. ",
    "0",
    "42",
    "#",
    "@",
    "'",
    "=",
    "/",
    "_",
    "e.g",
    "The quick brown fox",
]
REFS = [
    "$.variables.n",
    "$.variables.z",
    "$.variables.e",
    "$.variables.s",
    "$.variables.st.length",
    "$.variables.st.0",
    "$.variables.st.1",
    "$.variables.d.k",
    "$.variables.d",
    "$.variables.nope",
    "$.headers.a",
    "$.headers.b",
    "$.headers.c",
    "$.headers.0",
    "$.headers.2",
    "$.headers.5",
    "$.headers.'b'",
    "$.metadata.id",
    "$.metadata.name",
    "$.csvpath.count_lines",
    "$.csvpath.line_number",
    "$.csvpath.count_matches",
    "$.csvpath.identity",
    "$.csvpath.total_lines",
]


def gen_string():
    parts = []
    n = rnd.randint(1, 7)
    for _ in range(n):
        k = rnd.random()
        if k < 0.45:
            parts.append(rnd.choice(REFS))
        else:
            parts.append(rnd.choice(CHUNKS))
    return "".join(parts)


for i in range(70):
    s = gen_string()
    fname = rnd.choice(["basic.csv", "basic.csv", "names.csv", "one_col.csv", "header_only.csv"])
    qual = rnd.choice(["", "", "", ".onmatch", ".once", ".onchange", ".onmatch.once", ".onchange.once"])
    cond = rnd.choice(["", "", '#0 == "4"', "gt(line_number(), 2)", "no()", 'not(#0 == "0")'])
    path = (
        f"~ id: gen{i} name: generated ~ "
        f'${fname}[*][ {SETUP} {cond} print{qual}("{s}") ]'
    )
    run_path(f"B.{i}", path, policy=["collect", "print"] if i % 3 == 0 else None)

# ---------------------------------------------------------------------------
# C. qualifiers, second argument, several prints, other run methods, edge files
# ---------------------------------------------------------------------------
CASES = [
    ("onmatch", '$basic.csv[*][ #a == "4" print.onmatch("matched line $.csvpath.line_number: $.headers.a") ]'),
    ("not-onmatch", '$basic.csv[*][ #a == "4" print("every line $.csvpath.line_number: $.headers.a") ]'),
    ("onmatch-first", '$basic.csv[*][ print.onmatch("m $.csvpath.count_matches $.headers.a") #a == "4" ]'),
    ("once", '$basic.csv[*][ print.once("once only $.csvpath.line_number..") ]'),
    ("onmatch.once", '$basic.csv[*][ #b == "zero" print.onmatch.once("once on match $.headers.b") ]'),
    ("once-never-matching", '$basic.csv[*][ no() print.onmatch.once("never") ]'),
    ("onchange", '$basic.csv[*][ print.onchange("changes? $.headers.a") ]'),
    ("onchange.once", '$basic.csv[*][ @c = count_lines() print.onchange.once("c == $.variables.c") ]'),
    ("two prints", '$basic.csv[*][ print("first $.headers.a") print("second $.headers.b") ]'),
    ("same print twice", '$basic.csv[*][ print.once("dup $.headers.a") print.once("dup $.headers.a") ]'),
    ("named printer", '$basic.csv[*][ print("to errs $.headers.a", "errs") print("to empty name", "") ]'),
    ("named printer once", '$basic.csv[*][ print.once("only $.headers.a", "audit") ]'),
    ("second arg function stop", '$basic.csv[*][ print("then stop $.headers.a", stop()) ]'),
    ("second arg function fail", '$basic.csv[*][ print("then fail $.headers.a", fail()) ]'),
    ("second arg function skip", '$basic.csv[*][ print.onmatch("then push $.headers.a", push("pp", #a)) #c ]'),
    ("second arg equality", '$basic.csv[*][ print("then compare $.headers.a", #a == "4") ]'),
    ("second arg print", '$basic.csv[*][ print("outer $.headers.a", print("inner $.headers.b")) ]'),
    ("when-do", '$basic.csv[*][ #a == "0" -> print("a is zero on $.csvpath.line_number: $.headers.b") ]'),
    ("in last", '$basic.csv[*][ push("st", #a) last() -> print("last line; $.variables.st.length pushed, total $.csvpath.total_lines") ]'),
    ("nocontrib", '$basic.csv[*][ print.nocontrib("nc $.headers.a") #a == "4" ]'),
    ("no-default printer", '~ print-mode: no-default ~ $basic.csv[*][ print("quiet $.headers.a") ]'),
    ("default printer", '~ print-mode: default ~ $basic.csv[*][ print("loud $.headers.a") ]'),
    ("scan subset", '$basic.csv[2-4][ print("line $.csvpath.line_number scans $.csvpath.count_scans: $.headers.0") ]'),
    ("scan single", '$basic.csv[5][ print("line $.csvpath.line_number: $.headers.0,$.headers.1,$.headers.2") ]'),
    ("header only file", '$header_only.csv[*][ print("h $.headers.a") ]'),
    ("blank first file", '$blank_first.csv[*][ print("h $.headers.a $.headers.0 $.csvpath.headers") ]'),
    ("one col", '$one_col.csv[*][ print("v=$.headers.a; i=$.headers.0; j=$.headers.1;") ]'),
    ("empty file", '$empty.csv[*][ print("nothing $.headers.a") ]'),
    ("reset headers", '$blank_first.csv[*][ reset_headers() print("h $.headers.a $.csvpath.headers") ]'),
    ("bad dollar", '$basic.csv[*][ print("costs $ 5") ]'),
    ("bad dollar end", '$basic.csv[*][ print("costs $") ]'),
    ("bad type", '$basic.csv[*][ print("x $.nothing.a y") ]'),
    ("bad trailing dot", '$basic.csv[*][ print("x $.variables.a. y") ]'),
    ("bad three names", '$basic.csv[*][ print("x $.variables.a.b.c y") ]'),
    ("unknown named paths (no CsvPaths)", '$basic.csv[*][ print("x $other.variables.a y") ]'),
    ("no args", "$basic.csv[*][ print() ]"),
    ("non-string arg", "$basic.csv[*][ print(5) ]"),
    ("header arg", "$basic.csv[*][ print(#a) ]"),
    ("three args", '$basic.csv[*][ print("a", "b", "c") ]'),
]
for title, path in CASES:
    run_path(f"C.{title}", path)
for title, path in CASES[:12]:
    run_path(f"C.ff.{title}", path, method="fast_forward")
for title, path in CASES[28:36]:
    run_path(f"C.lenient.{title}", path, policy=["collect", "print"])
    run_path(f"C.quiet.{title}", path, policy=["collect"])
run_path("C.next", '$basic.csv[*][ print("n $.headers.a") ]', method="next")
run_path("C.single printer", '$basic.csv[*][ print("n $.headers.a") ]', printers=1)

# repeated runs: the same csvpath string in fresh instances gives the same transcript
for i in range(3):
    run_path(
        f"C.repeat.{i}",
        '$names.csv[*][ push.onmatch("who", #0) #n print.onmatch("$.csvpath.count_matches: $.headers.\'first name\' ($.variables.who.length)") ]',
    )

# ---------------------------------------------------------------------------
# D. PrintParser / LarkPrintParser / LarkPrintTransformer used directly
# ---------------------------------------------------------------------------
print("=== D. direct parser use")
base = CsvPath()
base.set_printers([RecordingPrinter("D")])
base.parse(
    '~ id: direct name: base ~ $basic.csv[*][ push("st", #a) @n = count_lines() @d.k = "v" @z = 0 @none = none() ]'
)
base.collect()
DIRECT = HAND + [
    "$.variables.none|",
    "$.variables.z|",
    "$.csvpath.count_lines",
    " $.csvpath.count_lines ",
    "$.headers.a",
    "$.headers.a ",
    "$.headers.a  ",
    "$.headers.a..",
    "$.headers.a...",
    "$.headers.a....",
    "$.headers.a.b..",
    "$.headers.a.'b c'..",
    "$",
    "$.",
    "$.variables",
    "$.variables.",
    "$.variables.a.",
    "$.variables.a.b.",
    "$.variables.a.b.c",
    "$x.variables.a",
    "$.variables.$.variables.n",
    "$$",
    "a $ b",
    "\n",
    "\t$.variables.n\t",
]
for s in DIRECT:
    for cp in (base, None):
        try:
            r = PrintParser(cp).transform(s)
            print(f"   transform[{'base' if cp else 'none'}] {s!r} -> {r!r}")
        except Exception as e:  # pylint: disable=W0718
            msg = norm(e).split("\n")[0]
            print(f"   transform[{'base' if cp else 'none'}] {s!r} !! {type(e).__name__}: {msg}")
for s in DIRECT:
    try:
        lp = LarkPrintParser()
        tree = lp.parse(s)
        print(f"   tree {s!r}:")
        print("      " + tree.pretty().replace("\n", "\n      "))
        tr = LarkPrintTransformer()
        items = tr.transform(tree)
        print(f"      items: {list(items)!r} pending: {tr.pending_text!r}")
        print(f"      to_string: {tr.to_string(*items)!r}")
    except Exception as e:  # pylint: disable=W0718
        msg = norm(e).split("\n")[0]
        print(f"   tree {s!r} !! {type(e).__name__}: {msg}")

# ---------------------------------------------------------------------------
# E. CsvPaths: references into other named-paths results, printouts in archive
# ---------------------------------------------------------------------------
print("=== E. CsvPaths")


def _run_key(name):
    base, _, counter = name.partition(".")
    return (base, int(counter) if counter.isdigit() else -1)


def dump_archive():
    """lists every file below ./archive in run order; run directory names
    (timestamps, with a .N counter for same-second runs) become RUN0, RUN1..."""
    names = set()
    for root, dirs, files in os.walk("archive"):
        for d in dirs:
            if RUNDIR.fullmatch(d):
                names.add(d)
    runs = {k: f"RUN{i}" for i, k in enumerate(sorted(names, key=_run_key))}

    def walk(path, shown):
        entries = sorted(os.listdir(path), key=lambda n: (0, _run_key(n)) if n in runs else (1, (n, 0)))
        for n in entries:
            pth = os.path.join(path, n)
            sh = os.path.join(shown, runs.get(n, n))
            if os.path.isdir(pth):
                walk(pth, sh)
                continue
            print(f"   file {sh}")
            if n in ("printouts.txt", "vars.json", "data.csv", "unmatched.csv"):
                with open(pth, "r", encoding="utf-8") as fh:
                    for ln in fh.read().split("\n"):
                        print(f"      |{norm(ln)}")
            elif n == "errors.json":
                with open(pth, "r", encoding="utf-8") as fh:
                    errs = json.load(fh)
                for e in errs:
                    e.pop("trace", None)
                    e.pop("at", None)
                    print(f"      |{norm(json.dumps(e, sort_keys=True))}")

    walk("archive", "archive")


def run_group(title, name, paths, files=("basic.csv",), method="collect_paths", policy=None, times=1):
    print(f"--- {title}")
    cps = CsvPaths()
    if policy is not None:
        cps.config.csvpath_errors_policy = policy
    out = io.StringIO()
    with redirect_stdout(out):
        for f in files:
            cps.file_manager.add_named_file(name=f.split(".")[0], path=f)
        cps.paths_manager.add_named_paths(name=name, paths=paths)
    for t in range(times):
        for f in files:
            try:
                with redirect_stdout(out):
                    getattr(cps, method)(filename=f.split(".")[0], pathsname=name)
            except Exception as e:  # pylint: disable=W0718
                print(f"   EXCEPTION {type(e).__name__}: {norm(e)}")
            print(f"   after run {t} on {f}:")
            try:
                results = cps.results_manager.get_named_results(name)
            except Exception as e:  # pylint: disable=W0718
                print(f"   EXCEPTION {type(e).__name__}: {norm(e)}")
                results = []
            for r in results:
                print(f"   result {r.csvpath.identity!r}: valid={r.csvpath.is_valid} stopped={r.csvpath.stopped}")
                print(f"      printouts default: {norm(repr(r.get_printout_by_name('default')))}")
                for k in sorted(x for x in (r.get_printouts() or {}).keys() if x != "default"):
                    print(f"      printouts {k!r}: {norm(repr(r.get_printout_by_name(k)))}")
                print(f"      lines: {len(r.lines) if r.lines is not None else None!r}")
                print(f"      variables: {r.csvpath.variables!r}")
                show_errors(r.errors)
    print("   stdout:")
    for ln in out.getvalue().split("\n"):
        print(f"      |{norm(ln)}")
    return cps


GROUP = [
    '~ id: one name: first ~ $[*][ @x = count_lines() push("s", #a) @d.k = #b print("one: $.variables.x, $.headers.a") print("audit $.headers.b", "audit") ]',
    '~ id: two ~ $[*][ #a == "4" print.onmatch("two sees x=$grp.variables.x b=$grp.headers.b id=$grp.metadata.id name=$grp.metadata.name lines=$grp.csvpath.count_lines/$grp.csvpath.total_lines len=$grp.variables.s.length s1=$grp.variables.s.1 dk=$grp.variables.d.k nope=$grp.variables.nope hidx=$grp.headers.1 delim=$grp.csvpath.delimiter.. local=$.headers.a..") ]',
    '~ id: three ~ $[*][ print.once("three: $grp.csvpath.identity | $grp.csvpath.count_matches | $grp.csvpath.valid | $grp.csvpath.headers | $grp.csvpath.file_name") ]',
    '~ id: four ~ $[1][ print("four $grp.headers.c$grp.headers.a, $.csvpath.identity") ]',
]
run_group("E.collect", "grp", GROUP)
run_group("E.fast_forward twice", "grp", GROUP, method="fast_forward_paths", times=2)
run_group("E.two files", "grp", GROUP[:2], files=("basic.csv", "names.csv"))
run_group(
    "E.unknown results raise",
    "grp",
    ['~ id: u1 ~ $[*][ print("u1 $.headers.a") ]', '~ id: u2 ~ $[*][ print("u2 $zz.variables.q end") ]', '~ id: u3 ~ $[*][ print.once("u3") ]'],
)
run_group(
    "E.unknown results lenient",
    "grp",
    ['~ id: u1 ~ $[*][ print("u1 $.headers.a") ]', '~ id: u2 ~ $[*][ print("u2 $zz.variables.q end") ]', '~ id: u3 ~ $[*][ print.once("u3") ]'],
    policy=["collect", "print"],
)
run_group(
    "E.bad print lenient",
    "grp",
    ['~ id: b1 ~ $[*][ print("b1 $ 5") ]', '~ id: b2 ~ $[*][ print.once("b2 fine $.csvpath.count_lines") ]'],
    policy=["collect", "print"],
)
print("=== archive")
dump_archive()
print("=== done")
