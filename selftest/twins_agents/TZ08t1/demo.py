# ---------------------------------------------------------------------------
# common harness (inlined in every demo so that each demo.py is standalone)
# ---------------------------------------------------------------------------
import contextlib
import io
import json
import os
import re
import shutil
import sys

if os.environ.get("PYTHONHASHSEED") != "0":
    # lark's error messages list a set of token names. set order follows the
    # string hash seed, so pin it. (nothing else here depends on it.)
    env = dict(os.environ)
    env["PYTHONHASHSEED"] = "0"
    os.execve(sys.executable, [sys.executable] + sys.argv, env)

CONFIG_INI = """[csvpath_files]
extensions = txt, csvpath, csvpaths

[csv_files]
extensions = txt, csv, tsv, dat, tab, psv, ssv

[errors]
csvpath = {csvpath_policy}
csvpaths = {csvpaths_policy}

[logging]
csvpath = info
csvpaths = info
log_file = logs/csvpath.log
log_files_to_keep = 100
log_file_size = 52428800

[config]
path = config/config.ini

[cache]
path = cache

[listeners]
[marquez]
base_url = http://localhost:5000

[functions]
imports = config/functions.imports

[results]
archive = archive
transfers = transfers

[inputs]
files = inputs/named_files
csvpaths = inputs/named_paths
on_unmatched_file_fingerprints = halt
"""

OUT = []


def say(s=""):
    OUT.append(f"{s}")


def write_config(csvpath_policy="collect, fail, print", csvpaths_policy="collect"):
    os.makedirs("config", exist_ok=True)
    with open("config/config.ini", "w", encoding="utf-8") as f:
        f.write(
            CONFIG_INI.format(
                csvpath_policy=csvpath_policy, csvpaths_policy=csvpaths_policy
            )
        )
    if not os.path.exists("config/functions.imports"):
        with open("config/functions.imports", "w", encoding="utf-8") as f:
            f.write("")


def fresh_dirs():
    for d in ["archive", "inputs", "cache", "transfers", "data"]:
        shutil.rmtree(d, ignore_errors=True)


def write_file(path, text):
    d = os.path.dirname(path)
    if d:
        os.makedirs(d, exist_ok=True)
    with open(path, "w", encoding="utf-8", newline="") as f:
        f.write(text)


RUN_RE = re.compile(r"\d{4}-\d{2}-\d{2}_\d{2}-\d{2}-\d{2}(\.\d+)?")
DT_RE = re.compile(r"\d{4}-\d{2}-\d{2}[ T]\d{2}:\d{2}:\d{2}(\.\d+)?(\+00:00)?")
ADDR_RE = re.compile(r"0x[0-9a-fA-F]+")
CWD = os.getcwd()


def norm_str(s):
    s = s.replace(CWD, "<cwd>")
    s = RUN_RE.sub("<RUN>", s)
    s = DT_RE.sub("<DT>", s)
    s = ADDR_RE.sub("0xADDR", s)
    return s


def norm_trace(t):
    """a traceback is reduced to the chain of function names and the last
    line. line numbers of the package source are not behaviour."""
    if t is None:
        return None
    frames = re.findall(r'File "[^"]*", line \d+, in (\S+)', t)
    last = [ln for ln in t.strip().split("\n") if ln.strip() != ""]
    last = last[-1] if last else ""
    return {"frames": frames, "last": norm_str(last)}


VOLATILE = {
    "time",
    "time_completed",
    "time_started",
    "uuid",
    "named_paths_uuid",
    "run_time",
    "lines_time",
    "last_line_time",
    "named_file_last_change",
    "at",
}


def norm_json(o, key=None):
    if isinstance(o, dict):
        r = {}
        for k, v in o.items():
            if k in VOLATILE:
                r[k] = "<volatile>" if v is not None else None
            elif k == "trace":
                r[k] = norm_trace(v)
            elif k == "file_fingerprints" and isinstance(v, dict):
                r[k] = {
                    fk: ("<fp>" if fk in ("meta.json", "errors.json") else fv)
                    for fk, fv in v.items()
                }
            else:
                r[k] = norm_json(v, k)
        return r
    if isinstance(o, list):
        return [norm_json(v) for v in o]
    if isinstance(o, str):
        return norm_str(o)
    return o


def run_sort_key(name):
    m = re.match(r"(\d{4}-\d{2}-\d{2}_\d{2}-\d{2}-\d{2})(?:\.(\d+))?$", name)
    if not m:
        return (1, name, -1)
    return (0, m.group(1), int(m.group(2)) if m.group(2) is not None else -1)


def dump_tree(root):
    """everything under root, run dirs renamed RUN<n> in the order they were made"""
    if not os.path.exists(root):
        say(f"  [{root}: absent]")
        return

    def walk(d, shown, depth):
        names = os.listdir(d)
        runs = sorted([n for n in names if RUN_RE.fullmatch(n)], key=run_sort_key)
        others = sorted([n for n in names if not RUN_RE.fullmatch(n)])
        labelled = [(n, f"RUN{i+1}") for i, n in enumerate(runs)]
        labelled += [(n, n) for n in others]
        for n, label in labelled:
            p = os.path.join(d, n)
            sp = f"{shown}/{label}"
            if os.path.isdir(p):
                say(f"  DIR  {sp}")
                walk(p, sp, depth + 1)
            else:
                say(f"  FILE {sp}")
                show_file(p)

    walk(root, root, 0)


def show_file(p):
    try:
        with open(p, "r", encoding="utf-8", newline="") as f:
            text = f.read()
    except Exception as e:  # pylint: disable=W0718
        say(f"       (unreadable: {type(e).__name__})")
        return
    if p.endswith(".json"):
        try:
            j = json.loads(text)
            text = json.dumps(norm_json(j), sort_keys=True)
        except Exception:  # pylint: disable=W0718
            text = norm_str(text)
    else:
        text = norm_str(text)
    for ln in text.split("\n"):
        say(f"       | {ln!r}" if not p.endswith(".json") else f"       | {ln}")


def show_error(e):
    j = e.to_json() if hasattr(e, "to_json") else {"error": f"{e}"}
    j = norm_json(j)
    return json.dumps(j, sort_keys=True)


def lines_of(result):
    ls = result.lines
    if ls is None:
        return None
    if isinstance(ls, list):
        return [list(x) for x in ls]
    try:
        return [list(x) for x in ls.next()]
    except Exception as e:  # pylint: disable=W0718
        return f"<{type(e).__name__}: {e}>"


def show_results(cp, name):
    try:
        results = cp.results_manager.get_named_results(name)
    except Exception as e:  # pylint: disable=W0718
        say(f"  results: <{type(e).__name__}>")
        return
    say(f"  results: {len(results)}")
    for r in results:
        c = r.csvpath
        say(f"  - identity={r.identity_or_index!r} run_index={r.run_index}")
        say(f"    lines={lines_of(r)}")
        say(f"    unmatched={r.unmatched}")
        say(f"    variables={json.dumps(c.variables, sort_keys=True, default=str)}")
        say(
            f"    valid={r.is_valid} cvalid={c.is_valid} stopped={c.stopped} aborted={c.aborted} completed={c.completed}"
        )
        lm = c.line_monitor
        say(
            f"    scan_count={c.scan_count} match_count={c.match_count} "
            f"line={lm.physical_line_number if lm else None} "
            f"data_line={lm.data_line_number if lm else None} "
            f"end={lm.physical_end_line_number if lm else None} "
            f"data_end={lm.data_end_line_number if lm else None}"
        )
        say(f"    headers={c.headers}")
        say(f"    metadata={json.dumps(norm_json(c.metadata), sort_keys=True)}")
        say(f"    printouts={json.dumps(norm_json(r.get_printouts()), sort_keys=True)}")
        say(f"    errors={len(r.errors)}")
        for e in r.errors:
            say(f"      {show_error(e)}")
    try:
        say(f"  group valid={cp.results_manager.is_valid(name)}")
        say(
            f"  group variables={json.dumps(cp.results_manager.get_variables(name), sort_keys=True, default=str)}"
        )
    except Exception as e:  # pylint: disable=W0718
        say(f"  group: <{type(e).__name__}: {norm_str(str(e))}>")


def describe_exc(e):
    s = f"{type(e).__name__}: {norm_str(str(e))}"
    c = e.__cause__
    while c is not None:
        s += f" <- caused by {type(c).__name__}: {norm_str(str(c))}"
        c = c.__cause__
    return s


def new_csvpaths(**kw):
    from csvpath import CsvPaths

    return CsvPaths(**kw)


METHODS = [
    "collect_paths",
    "fast_forward_paths",
    "next_paths",
    "next_paths_collect",
    "collect_by_line",
    "fast_forward_by_line",
    "next_by_line",
    "next_by_line_collect",
]


def call_method(cp, method, pathsname, filename, **kw):
    """runs one of the eight ways to run a group. returns what came back."""
    if method == "collect_paths":
        return cp.collect_paths(pathsname=pathsname, filename=filename)
    if method == "fast_forward_paths":
        return cp.fast_forward_paths(pathsname=pathsname, filename=filename)
    if method == "next_paths":
        return [list(x) for x in cp.next_paths(pathsname=pathsname, filename=filename)]
    if method == "next_paths_collect":
        return [
            list(x)
            for x in cp.next_paths(pathsname=pathsname, filename=filename, collect=True)
        ]
    if method == "collect_by_line":
        return cp.collect_by_line(pathsname=pathsname, filename=filename, **kw)
    if method == "fast_forward_by_line":
        return cp.fast_forward_by_line(pathsname=pathsname, filename=filename, **kw)
    if method == "next_by_line":
        return [
            list(x)
            for x in cp.next_by_line(pathsname=pathsname, filename=filename, **kw)
        ]
    if method == "next_by_line_collect":
        return [
            list(x)
            for x in cp.next_by_line(
                pathsname=pathsname, filename=filename, collect=True, **kw
            )
        ]
    raise ValueError(method)


def run_case(title, cp, method, pathsname, filename, archive=True, **kw):
    say("=" * 78)
    say(f"CASE {title}: {method} paths={pathsname} file={filename} {kw if kw else ''}")
    buf = io.StringIO()
    ret = None
    exc = None
    with contextlib.redirect_stdout(buf):
        try:
            ret = call_method(cp, method, pathsname, filename, **kw)
        except Exception as e:  # pylint: disable=W0718
            exc = e
    say(f"  returned={ret}")
    say(f"  raised={describe_exc(exc) if exc is not None else None}")
    say("  stdout:")
    for ln in norm_str(buf.getvalue()).split("\n"):
        say(f"    > {ln}")
    show_results(cp, pathsname)
    say(f"  csvpaths errors={len(cp.errors)}")
    for e in cp.errors:
        say(f"    {show_error(e)}")
    say(
        f"  coordination: stop={cp._stop_all} fail={cp._fail_all} skip={cp._skip_all} adv={cp._advance_all} "
        f"rt_set={cp._current_run_time is not None} rts={norm_str(str(cp._run_time_str))}"
    )
    if archive:
        say("  archive:")
        dump_tree("archive")


def standalone(title, pathstr, method="collect"):
    """the same csvpath run by a CsvPath on its own"""
    from csvpath import CsvPath

    say("-" * 78)
    say(f"STANDALONE {title}: {method} {pathstr!r}")
    buf = io.StringIO()
    p = CsvPath()
    ret = None
    exc = None
    with contextlib.redirect_stdout(buf):
        try:
            p.parse(pathstr)
            if method == "collect":
                ret = p.collect()
            elif method == "fast_forward":
                ret = p.fast_forward()
            else:
                ret = [list(x) for x in p.next()]
        except Exception as e:  # pylint: disable=W0718
            exc = e
    say(f"  returned={ret}")
    say(f"  raised={describe_exc(exc) if exc is not None else None}")
    say(f"  variables={json.dumps(p.variables, sort_keys=True, default=str)}")
    say(
        f"  valid={p.is_valid} stopped={p.stopped} scan_count={p.scan_count} match_count={p.match_count}"
    )
    say(f"  errors={[show_error(e) for e in (p.errors or [])]}")
    say("  stdout:")
    for ln in norm_str(buf.getvalue()).split("\n"):
        say(f"    > {ln}")


def finish():
    sys.stdout.write("\n".join(OUT) + "\n")

# ---------------------------------------------------------------------------
# t1 scenarios: the names under which line counts and headers are cached
# (Cache._cache_name, used by FileCacher for every csvpath that is loaded).
# repeated runs, files rewritten at the same path, other dialects, missing
# files, a cache directory that goes away. file times are pinned so that the
# names themselves can be printed.
# ---------------------------------------------------------------------------
import hashlib

T0 = 1_700_000_000 * 10**9  # whole seconds, as nanoseconds


def pin(path, k=0):
    """sets the modification time of path to a fixed moment (+k seconds)"""
    t = T0 + k * 10**9
    os.utime(path, ns=(t, t))


def write_pinned(path, text, k=0):
    write_file(path, text)
    pin(path, k)


def independent_name(path, delimiter, quotechar):
    """what the name must be, worked out without the package"""
    key = path
    try:
        st = os.stat(path)
        key = f"{path}:{st.st_size}:{st.st_mtime_ns}"
    except OSError:
        pass
    key = f"{key}:{delimiter}:{quotechar}"
    return hashlib.sha256(key.encode("utf-8")).hexdigest()


def show_cache_dir():
    say("  cache dir:")
    if not os.path.exists("cache"):
        say("    [absent]")
        return
    for n in sorted(os.listdir("cache")):
        with open(os.path.join("cache", n), "r", encoding="utf-8", newline="") as f:
            say(f"    {n}: {f.read()!r}")


def show_held(cp):
    held = cp.file_manager.cacher.pathed_lines_and_headers
    say(f"  held in memory: {len(held)}")
    for k in sorted(held):
        lm, headers = held[k]
        say(f"    {k}: {lm.dump()} {headers}")


def name_of(cp, path):
    cache = cp.file_manager.cacher.cache
    try:
        a = cache._cache_name(path)
        b = cp.file_manager.cacher._held_as(path)
        c = cache._cache_name(path)
    except Exception as e:  # pylint: disable=W0718
        say(f"  name of {path!r}: raised {describe_exc(e)}")
        return
    ind = None
    try:
        ind = independent_name(path, cp.delimiter, cp.quotechar)
    except Exception as e:  # pylint: disable=W0718
        ind = f"<{type(e).__name__}>"
    say(
        f"  name of {path!r} [{cp.delimiter!r} {cp.quotechar!r}]: {a} again={a == b == c} independent={a == ind}"
    )


def lines_and_headers(cp, path):
    cacher = cp.file_manager.cacher
    try:
        lm = cacher.get_new_line_monitor(path)
        hs = cacher.get_original_headers(path)
        lm2 = cacher.get_new_line_monitor(path)
        say(
            f"  counted {path!r} [{cp.delimiter!r} {cp.quotechar!r}]: {lm.dump()} headers={hs} fresh copy={lm is not lm2 and lm.dump() == lm2.dump()}"
        )
    except Exception as e:  # pylint: disable=W0718
        say(f"  counted {path!r}: raised {describe_exc(e)}")


def run_path(cp, pathstr, method="collect"):
    """a csvpath made by the CsvPaths, pointed at a file by path"""
    say(f"  csvpath {pathstr!r} {method}")
    buf = io.StringIO()
    p = cp.csvpath()
    ret = None
    exc = None
    with contextlib.redirect_stdout(buf):
        try:
            p.parse(pathstr)
            if method == "collect":
                ret = p.collect()
            elif method == "fast_forward":
                ret = p.fast_forward()
            else:
                ret = [list(x) for x in p.next()]
        except Exception as e:  # pylint: disable=W0718
            exc = e
    say(f"    returned={ret}")
    say(f"    raised={describe_exc(exc) if exc is not None else None}")
    say(f"    variables={json.dumps(p.variables, sort_keys=True, default=str)}")
    lm = p._line_monitor
    say(
        f"    valid={p.is_valid} stopped={p.stopped} scan={p.scan_count} match={p.match_count} "
        f"headers={p._headers} line={lm.physical_line_number if lm else None} end={lm.physical_end_line_number if lm else None} "
        f"data_end={lm.data_end_line_number if lm else None}"
    )
    say(f"    errors={[show_error(e) for e in (p.errors or [])]}")
    for ln in norm_str(buf.getvalue()).split("\n"):
        say(f"    > {ln}")


FILES = {
    "f": "a,b,c\n1,2,3\n\n4,,6\n7,8\n0,0,0\n",
    "empty": "",
    "head": "a,b,c\n",
    "tail": "a,b,c\n1,2,3\n\n\n",
    "semi": "a;b;c\n1;'x;y';3\n\n4;;6\n0;0;0\n",
    "odd": ' "na,me" ,b|b,c;c\n1,2,3\n',
}

GROUPS = {
    "g": [
        '$[*][ yes() @n = count() print("$.csvpath.line_number of $.csvpath.total_lines") ]',
        '~id:two unmatched-mode:keep~ $[1*][ #a == "4" @x = #b ]',
        '~id:last~ $[*][ last() -> @end = line_number() ]',
        '~id:hdrs~ $[0][ @h = count_headers() ]',
    ],
    "one": ['~id:only~ $[*][ #0 ]'],
}


def add_file(cp, name, k=0):
    write_file(f"data/{name}.csv", FILES[name])
    cp.file_manager.add_named_file(name=name, path=f"data/{name}.csv")
    reg = cp.file_manager.get_named_file(name)
    pin(reg, k)
    return reg


def part_groups():
    say("#" * 78)
    say("PART groups: every way of running a group, twice, on one CsvPaths")
    write_config()
    fresh_dirs()
    cp = new_csvpaths()
    regs = {}
    for name in FILES:
        regs[name] = add_file(cp, name)
    for name, paths in GROUPS.items():
        cp.paths_manager.add_named_paths(name=name, paths=paths)
    n = 0
    for fname in ["f", "empty", "head", "tail", "odd"]:
        for method in METHODS:
            n += 1
            run_case(f"groups.{n}", cp, method, "g", fname, archive=False)
        name_of(cp, regs[fname])
    for method in ["collect_paths", "collect_by_line"]:
        n += 1
        run_case(f"groups.{n}", cp, method, "one", "f", archive=False)
    show_held(cp)
    show_cache_dir()
    # a second CsvPaths finds what the first one left
    cp2 = new_csvpaths()
    for method in ["collect_paths", "collect_by_line"]:
        n += 1
        run_case(f"groups.{n}", cp2, method, "g", "f", archive=False)
    show_held(cp2)
    show_cache_dir()
    # the same registered files read another way: other names, counted again
    cp3 = new_csvpaths(delimiter=";", quotechar="'")
    for fname in ["semi", "f"]:
        for method in ["collect_paths", "collect_by_line"]:
            n += 1
            run_case(f"groups.{n}", cp3, method, "one", fname, archive=False)
        name_of(cp3, regs[fname])
        name_of(cp, regs[fname])
    show_held(cp3)
    show_cache_dir()
    # the cache directory goes away under a live CsvPaths
    shutil.rmtree("cache")
    for method in ["collect_paths", "fast_forward_by_line"]:
        n += 1
        run_case(f"groups.{n}", cp, method, "g", "f", archive=False)
    cp4 = new_csvpaths()
    n += 1
    run_case(f"groups.{n}", cp4, "collect_paths", "g", "tail", archive=False)
    show_held(cp)
    show_held(cp4)
    show_cache_dir()
    say("ARCHIVE after part")
    dump_tree("archive")


def part_rewrites():
    say("#" * 78)
    say("PART rewrites: a file that changes at the same path")
    write_config()
    fresh_dirs()
    cp = new_csvpaths()
    path = "data/scratch.csv"
    q = f"${path}[*][ yes() @n = count() @h = count_headers() ]"
    # version 1
    write_pinned(path, "a,b\n1,2\n3,4\n", 0)
    name_of(cp, path)
    lines_and_headers(cp, path)
    run_path(cp, q)
    run_path(cp, q, "fast_forward")
    # same size, same time, other content: by design still found
    write_pinned(path, "x,y\n5,6\n7,8\n", 0)
    name_of(cp, path)
    lines_and_headers(cp, path)
    run_path(cp, q)
    # same size, later time: counted again
    write_pinned(path, "x,y\n5,6\n7,8\n", 1)
    name_of(cp, path)
    lines_and_headers(cp, path)
    run_path(cp, q)
    # other size, first time again
    write_pinned(path, "p,q,r\n1,2,3\n\n4,5,6\n7\n", 0)
    name_of(cp, path)
    lines_and_headers(cp, path)
    run_path(cp, q)
    run_path(cp, q, "next")
    # back to version 1, byte for byte and second for second: the old entry
    write_pinned(path, "a,b\n1,2\n3,4\n", 0)
    name_of(cp, path)
    lines_and_headers(cp, path)
    run_path(cp, q)
    # no lines, then no file, then there again
    write_pinned(path, "", 0)
    name_of(cp, path)
    lines_and_headers(cp, path)
    run_path(cp, q)
    os.remove(path)
    name_of(cp, path)
    lines_and_headers(cp, path)
    run_path(cp, q)
    name_of(cp, "data/never.csv")
    name_of(cp, "")
    write_pinned(path, "a,b\n1,2\n3,4\n", 2)
    name_of(cp, path)
    lines_and_headers(cp, path)
    run_path(cp, q)
    show_held(cp)
    show_cache_dir()
    # the dialect of a live CsvPaths is changed
    write_pinned(path, "a;b,c\n1;2,3\n'4;4';5,6\n", 3)
    for d, qc in [(",", '"'), (";", "'"), (",", '"'), (";", '"'), ("\t", "'"), (";", "'")]:
        cp.delimiter = d
        cp.quotechar = qc
        name_of(cp, path)
        lines_and_headers(cp, path)
        run_path(cp, f"${path}[*][ yes() @h = count_headers() ]")
    show_held(cp)
    show_cache_dir()
    # the cache used directly
    cache = cp.file_manager.cacher.cache
    cp.delimiter = ","
    cp.quotechar = '"'
    for fn in [path, "data/never.csv", "data/üñí.csv"]:
        for t, data in [("json", '{"k": 0}'), ("csv", "h1,h2\r\n"), ("json", ""), ("csv", "")]:
            before = cache.cached_text(fn, t)
            cache.cache_text(fn, t, data)
            after = cache.cached_text(fn, t)
            say(f"  cache {fn!r} {t}: before={before!r} wrote={data!r} after={after!r}")
        name_of(cp, fn)
    write_pinned("data/üñí.csv", "ä,ö\n1,2\n", 0)
    name_of(cp, "data/üñí.csv")
    lines_and_headers(cp, "data/üñí.csv")
    for bad in [None, 3.5, "a\0b"]:
        try:
            say(f"  name of {bad!r}: {cache._cache_name(bad)}")
        except Exception as e:  # pylint: disable=W0718
            say(f"  name of {bad!r}: raised {type(e).__name__}")
    show_cache_dir()


def part_standalone():
    say("#" * 78)
    say("PART standalone: the members of the group on their own")
    write_config()
    write_file("data/f.csv", FILES["f"])
    for i, pth in enumerate(GROUPS["g"]):
        j = pth.find("[")
        standalone(f"g[{i}]", pth[:j] + "data/f.csv" + pth[j:], "collect")


def main():
    part_groups()
    part_rewrites()
    part_standalone()
    finish()


main()
