#!/venv/bin/python
"""Differential demonstration for refactoring t3 (C04).

Exercises the verdict aggregation code -- Result.is_valid,
ResultsManager.is_valid/has_lines and ResultsRegistrar.all_valid/
all_completed/error_count -- directly with synthetic results (including the
order and number of attribute reads) and through named-paths runs of
csvpaths that use fail(), fail_all(), fail_and_stop(), stop() and that
provoke errors. Prints a deterministic transcript of everything observable,
including the archive's manifests.

Run with cwd = an empty scratch directory:
    mkdir /tmp/demo_TWC04_t3 && cd /tmp/demo_TWC04_t3 && \
        PYTHONPATH=<tree> /venv/bin/python demo.py
The script creates ./config/config.ini (offline: no listeners) and its
own CSV files, so it is self-contained.
"""
import json
import os
import re
import shutil
import sys
import traceback

CONFIG = """[csvpath_files]
extensions = txt, csvpath, csvpaths

[csv_files]
extensions = txt, csv, tsv, dat, tab, psv, ssv

[errors]
csvpath = raise, collect, stop, fail, print
csvpaths = raise, collect

[logging]
csvpath = info
csvpaths = info
log_file = logs/csvpath.log
log_files_to_keep = 100
log_file_size = 52428800

[config]
path = config/config.ini

[cache]
path = cache

[listeners]
[marquez]
base_url = http://localhost:5000

[functions]
imports = config/functions.imports

[results]
archive = archive
transfers = transfers

[inputs]
files = inputs/named_files
csvpaths = inputs/named_paths
on_unmatched_file_fingerprints = halt
"""

FILES = {
    "plain.csv": "a,b,c\n1,2,3\n4,5,6\n7,8,9\n10,11,12\n",
    "blanks.csv": "a,b,c\n1,2,3\n\n4,5,6\n\n\n7,8,9\n",
    "ragged.csv": "a,b,c\n1\n4,5\n7,8,9,10\n,,\n0,0,0\n",
    "empties.csv": "a,b,c\n,,\n0,,3\n ,x,\n3,0,\n",
    "header_only.csv": "a,b,c\n",
    "empty.csv": "",
    "one.csv": "a,b,c\n3,3,3\n",
    "words.csv": "a,b,c\nx,y,z\n3,y,z\nx,3,z\n3,3,3\n",
}


def write_config(policy=None, policies=None) -> None:
    c = CONFIG
    if policy is not None:
        c = c.replace(
            "csvpath = raise, collect, stop, fail, print",
            "csvpath = " + ", ".join(policy),
        )
    if policies is not None:
        c = c.replace("csvpaths = raise, collect", "csvpaths = " + ", ".join(policies))
    with open("config/config.ini", "w", encoding="utf-8") as f:
        f.write(c)


def setup() -> None:
    for d in ("config", "archive", "cache", "logs", "inputs", "transfers"):
        if os.path.exists(d):
            shutil.rmtree(d)
    os.makedirs("config")
    with open("config/config.ini", "w", encoding="utf-8") as f:
        f.write(CONFIG)
    with open("config/functions.imports", "w", encoding="utf-8") as f:
        f.write("")
    for name, content in FILES.items():
        with open(name, "w", encoding="utf-8") as f:
            f.write(content)


def out(*args) -> None:
    print(*args)
    sys.stdout.flush()


RUN_DIR = re.compile(r"\d{4}-\d\d-\d\d_\d\d-\d\d-\d\d(_\d+)?")
ISO = re.compile(r"\d{4}-\d\d-\d\d[ T]\d\d:\d\d:\d\d(\.\d+)?(\+00:00)?")
CTIME = re.compile(r"[A-Z][a-z]{2} [A-Z][a-z]{2} [ \d]\d \d\d:\d\d:\d\d \d{4}")
UUID = re.compile(r"[0-9a-f]{8}-[0-9a-f]{4}-[0-9a-f]{4}-[0-9a-f]{4}-[0-9a-f]{12}")
TIMING = re.compile(r'"(last_line_time|lines_time)": [-\d.e]+')
# manifest.json, meta.json and errors.json contain timestamps and/or object
# addresses so their digests vary run to run. (their contents are printed.)
VOLATILE_DIGEST = re.compile(
    r'"(meta\.json|manifest\.json|errors\.json)": "[0-9a-f]{64}"'
)
ADDRESS = re.compile(r" object at 0x[0-9a-f]+")
# python tracebacks saved in errors.json name source files and line numbers.
# we keep only the final "ExceptionClass: message" line of each.
TRACE = re.compile(r'"trace": "Traceback ((?:[^"\\]|\\.)*)"')


def _trace(m) -> str:
    parts = [_ for _ in m.group(1).split("\\n") if _.strip() != ""]
    return '"trace": "<TRACEBACK> ' + (parts[-1] if parts else "") + '"'



def norm(s: str) -> str:
    s = s.replace(os.getcwd(), "<CWD>")
    s = RUN_DIR.sub("<RUN>", s)
    s = ISO.sub("<TIME>", s)
    s = CTIME.sub("<CTIME>", s)
    s = UUID.sub("<UUID>", s)
    s = TRACE.sub(_trace, s)
    s = ADDRESS.sub(" object at <ADDR>", s)
    s = TIMING.sub(r'"\1": <SECONDS>', s)
    s = VOLATILE_DIGEST.sub(r'"\1": "<DIGEST>"', s)
    return s


def exc_str(ex) -> str:
    s = f"{type(ex).__name__}: {ex}"
    c = ex.__cause__
    while c is not None:
        s += f" <- {type(c).__name__}: {c}"
        c = c.__cause__
    return norm(s)


def show_errors(errors) -> None:
    if errors is None:
        out("  errors: None")
        return
    out(f"  errors: {len(errors)}")
    for e in errors:
        out(
            norm(
                f"    - {getattr(e, 'exception_class', None)} line={e.line_count} "
                f"match={e.match_count} scan={e.scan_count} msg={e.message!r} err={str(e.error)!r}"
            )
        )


def show_path(p, lines) -> None:
    out(f"  lines: {lines}")
    out(f"  is_valid: {p.is_valid!r}  stopped: {p.stopped!r}")
    out(f"  variables: {json.dumps(p.variables, sort_keys=True, default=str)}")
    lm = p.line_monitor
    if lm is not None:
        out(
            f"  physical_line_number: {lm.physical_line_number} data_line_number: {lm.data_line_number}"
        )
    out(f"  match_count: {p.match_count} scan_count: {p.scan_count}")
    show_errors(p.errors)


def standalone(title, csvpath, *, method="collect", policy=None, repeat=1) -> None:
    from csvpath import CsvPath

    out(f"=== standalone [{method}] {title}")
    out(f"  csvpath: {csvpath}")
    out(f"  policy: {policy}")
    for i in range(repeat):
        if repeat > 1:
            out(f"  -- run {i}")
        write_config(policy)
        p = CsvPath()
        lines = None
        try:
            p.parse(csvpath)
            if method == "collect":
                lines = p.collect()
            elif method == "fast_forward":
                p.fast_forward()
            elif method == "next":
                lines = []
                for line in p.next():
                    lines.append(
                        (list(line), p.is_valid, p.stopped)
                    )
            elif method == "collect2":
                lines = p.collect(nexts=2)
        except Exception as ex:  # pylint: disable=W0718
            out(f"  EXCEPTION {exc_str(ex)}")
        try:
            show_path(p, lines)
        except Exception as ex:  # pylint: disable=W0718
            out(f"  EXCEPTION in show {exc_str(ex)}")


def listing(root) -> None:
    if not os.path.exists(root):
        out(f"  (no {root})")
        return
    for dirpath, dirnames, filenames in os.walk(root):
        dirnames.sort()
        for fn in sorted(filenames):
            full = os.path.join(dirpath, fn)
            out(f"  FILE {norm(full)}")
            if fn.endswith((".json", ".csv", ".txt")):
                with open(full, "r", encoding="utf-8") as f:
                    text = f.read()
                if fn.endswith(".json"):
                    try:
                        text = json.dumps(json.loads(text), indent=1, sort_keys=True)
                    except Exception:  # pylint: disable=W0718
                        pass
                for line in norm(text).split("\n"):
                    out(f"      | {line}")


def group(title, paths, filename, *, method="collect_paths", policy=None, policies=None,
          repeat=1, show_archive=True) -> None:
    from csvpath import CsvPaths

    out(f"=== group [{method}] {title}")
    for x in paths:
        out(f"  csvpath: {x}")
    out(f"  file: {filename}  csvpath policy: {policy}  csvpaths policy: {policies}")
    if os.path.exists("archive"):
        shutil.rmtree("archive")
    if os.path.exists("inputs"):
        shutil.rmtree("inputs")
    #
    # each CsvPath made by a CsvPaths loads its own Config from config.ini so
    # the policies have to be in the file.
    #
    write_config(policy, policies)
    cp = CsvPaths()
    try:
        cp.file_manager.add_named_file(name="f", path=filename)
        cp.paths_manager.add_named_paths(name="p", paths=paths)
    except Exception as ex:  # pylint: disable=W0718
        out(f"  SETUP EXCEPTION {exc_str(ex)}")
        return
    for i in range(repeat):
        if repeat > 1:
            out(f"  -- run {i}")
        try:
            if method == "collect_paths":
                cp.collect_paths(filename="f", pathsname="p")
            elif method == "fast_forward_paths":
                cp.fast_forward_paths(filename="f", pathsname="p")
            elif method == "next_paths":
                for line in cp.next_paths(filename="f", pathsname="p"):
                    out(f"  next_paths line: {line}")
            elif method == "collect_by_line":
                cp.collect_by_line(filename="f", pathsname="p")
            elif method == "fast_forward_by_line":
                cp.fast_forward_by_line(filename="f", pathsname="p")
            elif method == "next_by_line":
                for line in cp.next_by_line(filename="f", pathsname="p", collect=True):
                    out(f"  next_by_line line: {line}")
        except Exception as ex:  # pylint: disable=W0718
            out(f"  EXCEPTION {exc_str(ex)}")
        try:
            rm = cp.results_manager
            out(f"  results_manager.is_valid: {rm.is_valid('p')!r}")
            out(f"  results_manager.has_lines: {rm.has_lines('p')!r}")
            out(f"  number_of_results: {rm.get_number_of_results('p')}")
            out(
                f"  get_variables: {json.dumps(rm.get_variables('p'), sort_keys=True, default=str)}"
            )
            results = rm.get_named_results("p")
            for r in results:
                out(
                    f"  result[{r.run_index}] id={r.csvpath.identity!r} is_valid={r.is_valid!r} "
                    f"csvpath.is_valid={r.csvpath.is_valid!r} stopped={r.csvpath.stopped!r} "
                    f"completed={r.csvpath.completed!r} errors_count={r.errors_count}"
                )
                try:
                    ls = r.lines
                    n = len(ls)
                    if hasattr(ls, "next"):
                        ls = [list(_) for _ in ls.next()]
                    out(f"    lines ({n}): {ls}")
                except Exception as ex:  # pylint: disable=W0718
                    out(f"    lines EXCEPTION {exc_str(ex)}")
                out(
                    f"    variables: {json.dumps(r.csvpath.variables, sort_keys=True, default=str)}"
                )
                out(f"    printouts: {json.dumps(r.printouts, sort_keys=True, default=str)}")
                show_errors(r.errors)
            meta = rm.get_metadata("p")
            out(f"  metadata.valid: {meta.get('valid')!r}")
        except Exception as ex:  # pylint: disable=W0718
            out(f"  RESULTS EXCEPTION {exc_str(ex)}")
        show_errors(cp.errors)
    if show_archive:
        listing("archive")
    write_config()


class Spy:
    """stands in for a Result or a CsvPath. every attribute read is written to
    the transcript so that the order and number of reads (short-circuiting)
    is part of what is compared."""

    def __init__(self, label, **values):
        object.__setattr__(self, "_label", label)
        object.__setattr__(self, "_values", values)

    def __repr__(self):
        return f"Spy({object.__getattribute__(self, '_label')})"

    def __getattr__(self, name):
        values = object.__getattribute__(self, "_values")
        label = object.__getattribute__(self, "_label")
        if name not in values:
            out(f"        read {label}.{name} -> AttributeError")
            raise AttributeError(f"{label} has no {name}")
        v = values[name]
        if isinstance(v, Exception):
            out(f"        read {label}.{name} -> raises {v!r}")
            raise v
        out(f"        read {label}.{name} -> {v!r}")
        return v


class Lines:
    """a lines container whose truthiness and length reads are logged"""

    def __init__(self, label, n, truth=None):
        self.label = label
        self.n = n
        self.truth = truth

    def __bool__(self):
        t = self.truth if self.truth is not None else self.n > 0
        out(f"        bool({self.label}) -> {t!r}")
        return t

    def __len__(self):
        out(f"        len({self.label}) -> {self.n!r}")
        return self.n

    def __repr__(self):
        return f"Lines({self.label})"


def call(label, fn) -> None:
    try:
        r = fn()
        out(f"    {label} -> {r!r} ({type(r).__name__})")
    except Exception as ex:  # pylint: disable=W0718
        out(f"    {label} -> EXCEPTION {exc_str(ex)}")


def direct() -> None:
    from datetime import datetime, timezone
    from csvpath import CsvPath, CsvPaths
    from csvpath.managers.results.result import Result
    from csvpath.managers.results.results_registrar import ResultsRegistrar

    write_config(["collect", "print"], ["collect"])
    values = [True, False, None, 0, 1, "", "no", [], [0], 0.0, {}, {"a": 1}]
    out("=== direct: Result.is_valid")

    def mkpath(kind):
        p = CsvPath()
        if kind == "parsed":
            p.parse("$plain.csv[*][ yes() ]")
        elif kind == "parsed-failed":
            p.parse("$plain.csv[*][ yes() ]")
            p.is_valid = False
        elif kind == "run-valid":
            p.parse("$plain.csv[*][ yes() ]")
            p.fast_forward()
        elif kind == "run-failed":
            p.parse("$plain.csv[*][ #a == 4 -> fail() ]")
            p.fast_forward()
        elif kind == "run-failed-and-stopped":
            p.parse("$plain.csv[*][ fail_and_stop(#a == 4) ]")
            p.fast_forward()
        elif kind == "run-empty-file":
            p.parse("$empty.csv[*][ fail() ]")
            p.fast_forward()
        elif kind == "run-header-only":
            p.parse("$header_only.csv[*][ fail() ]")
            p.fast_forward()
        elif kind == "no-run-mode":
            p.parse("~ run-mode: no-run ~ $plain.csv[*][ fail() ]")
            p.fast_forward()
        elif kind == "odd-verdict":
            p.parse("$plain.csv[*][ yes() ]")
            p.fast_forward()
            p.is_valid = "maybe"
        return p

    kinds = [
        "new",
        "parsed",
        "parsed-failed",
        "run-valid",
        "run-failed",
        "run-failed-and-stopped",
        "run-empty-file",
        "run-header-only",
        "no-run-mode",
        "odd-verdict",
    ]
    datas = [None, {}, {"other": 1}] + [{"valid": v} for v in values]
    for kind in kinds:
        for data in datas:
            try:
                p = mkpath(kind)
                out(
                    f"  csvpath={kind} (is_valid={p.is_valid!r} started={p.run_started_at is not None}) runtime_data={data!r}"
                )
                r = Result(
                    csvpath=p,
                    file_name="f",
                    paths_name="p",
                    run_index=0,
                    run_time=datetime(2024, 1, 1, tzinfo=timezone.utc),
                    run_dir="archive/p/x",
                    runtime_data=data,
                )
                call("result.is_valid", lambda: r.is_valid)
                call("result.is_valid again", lambda: r.is_valid)
                p.is_valid = not p.is_valid
                call("result.is_valid after flipping csvpath", lambda: r.is_valid)
            except Exception as ex:  # pylint: disable=W0718
                out(f"    EXCEPTION {exc_str(ex)}")
    out("  -- spies in place of the csvpath and the runtime data")
    p = mkpath("parsed")
    r = Result(
        csvpath=p,
        file_name="f",
        paths_name="p",
        run_index=0,
        run_time=datetime(2024, 1, 1, tzinfo=timezone.utc),
        run_dir="archive/p/x",
    )
    for cp_label, spy in [
        ("none", None),
        ("started-valid", Spy("csvpath", run_started_at=1, is_valid=True)),
        ("started-at-0-invalid", Spy("csvpath", run_started_at=0, is_valid=False)),
        ("not-started-invalid", Spy("csvpath", run_started_at=None, is_valid=False)),
        ("not-started-odd", Spy("csvpath", run_started_at=None, is_valid=0)),
        ("raises", Spy("csvpath", run_started_at=ValueError("boom"), is_valid=True)),
        ("verdict-raises", Spy("csvpath", run_started_at=None, is_valid=KeyError("k"))),
        ("incomplete", Spy("csvpath")),
    ]:
        for data in [None, {}, {"valid": False}, {"valid": "yes"}, {"other": 2}, [], ["valid"], "valid", "nope"]:
            out(f"  _csvpath={cp_label} _runtime_data={data!r}")
            r._csvpath = spy  # pylint: disable=W0212
            r._runtime_data = data  # pylint: disable=W0212
            call("result.is_valid", lambda: r.is_valid)

    out("=== direct: ResultsManager.is_valid / has_lines with synthetic results")
    cp = CsvPaths()
    rm = cp.results_manager
    combos = [
        [],
        [True],
        [False],
        [True, True, True],
        [True, False, True],
        [False, True, False],
        [1, "x", [0]],
        [1, 0, True],
        [None],
        ["", True],
        [True, ValueError("bad verdict"), False],
        [True, False, ValueError("never reached")],
    ]
    for combo in combos:
        out(f"  verdicts={combo!r}")
        rm.named_results = {
            "syn": [Spy(f"r{i}", is_valid=v) for i, v in enumerate(combo)]
        }
        call("results_manager.is_valid('syn')", lambda: rm.is_valid("syn"))
    line_combos = [
        [],
        [0],
        [3],
        [0, 0, 2, 5],
        [0, None, 1],
        [None],
        [(2, False)],
        [(0, True), (1, True), (4, True)],
        ["list0", "list2"],
        [0, ValueError("no lines"), 2],
    ]
    for combo in line_combos:
        out(f"  lines={combo!r}")
        spies = []
        for i, v in enumerate(combo):
            if v is None or isinstance(v, Exception):
                lines = v
            elif v == "list0":
                lines = []
            elif v == "list2":
                lines = [["a"], ["b"]]
            elif isinstance(v, tuple):
                lines = Lines(f"r{i}.lines", v[0], v[1])
            else:
                lines = Lines(f"r{i}.lines", v)
            spies.append(Spy(f"r{i}", lines=lines))
        rm.named_results = {"syn": spies}
        call("results_manager.has_lines('syn')", lambda: rm.has_lines("syn"))
    rm.named_results = {}
    call("results_manager.is_valid('missing')", lambda: rm.is_valid("missing"))
    call("results_manager.has_lines('missing')", lambda: rm.has_lines("missing"))
    rm.named_results = {"none": None}
    call("results_manager.is_valid('none')", lambda: rm.is_valid("none"))
    call("results_manager.has_lines('none')", lambda: rm.has_lines("none"))
    rm.named_results = {}

    out("=== direct: ResultsRegistrar.all_valid / all_completed / error_count")
    triples = [
        None,
        [],
        [(True, True, 0)],
        [(False, False, 3)],
        [(True, True, 1), (True, True, 2), (True, True, 3)],
        [(True, False, 0), (False, True, 5), (True, True, 0)],
        [(1, "x", 0), (0, "", 7), ("y", None, 1)],
        [(None, None, 0)],
        [(True, True, 2), (ValueError("v"), KeyError("c"), 4)],
        [(False, False, 1), (ValueError("not reached"), KeyError("not reached"), 2)],
        [(True, True, TypeError("count"))],
        [(True, True, 1.5), (True, True, 2)],
    ]
    for t in triples:
        out(f"  (is_valid, completed, errors_count)={t!r}")
        if t is None:
            results = None
        else:
            results = [
                Spy(
                    f"r{i}",
                    csvpath=Spy(f"r{i}.csvpath", is_valid=v, completed=c),
                    errors_count=e,
                )
                for i, (v, c, e) in enumerate(t)
            ]
        rr = ResultsRegistrar(csvpaths=cp, run_dir="archive/p/x", pathsname="p", results=results)
        call("all_valid()", rr.all_valid)
        call("all_completed()", rr.all_completed)
        call("error_count()", rr.error_count)
    write_config()


def main() -> None:
    setup()
    direct()
    policies = [
        None,
        ["collect"],
        ["collect", "fail"],
        ["collect", "stop"],
        ["collect", "print", "fail", "stop"],
        ["quiet", "collect", "fail"],
        ["raise", "collect", "fail"],
    ]
    #
    # 1. standalone: fail / fail_and_stop / stop, conditional and not
    #
    paths = [
        "$plain.csv[*][ yes() ]",
        "$plain.csv[*][ fail() ]",
        "$plain.csv[*][ #a == 4 -> fail() ]",
        "$plain.csv[*][ #a == 99 -> fail() ]",
        "$plain.csv[*][ fail_and_stop() ]",
        "$plain.csv[*][ fail_and_stop(#a == 4) ]",
        "$plain.csv[*][ fail_and_stop(#a == 99) ]",
        "$plain.csv[*][ #a == 7 -> fail_and_stop() ]",
        "$plain.csv[*][ stop() ]",
        "$plain.csv[*][ stop(#a == 4) ]",
        "$plain.csv[*][ stop(#a == 99) ]",
        "$plain.csv[*][ #b == 8 -> stop() ]",
        "$plain.csv[*][ @c = count() stop(@c == 2) ]",
        "$plain.csv[*][ @c = count() fail_and_stop(@c == 3) @after = line_number() ]",
        "$plain.csv[*][ fail_all() ]",
        "$plain.csv[*][ #a == 4 -> fail_all() ]",
        "$plain.csv[*][ stop_all(#a == 4) ]",
        "$plain.csv[*][ #a == 7 -> stop_all() ]",
        "$plain.csv[*][ #a == 4 -> fail() failed() -> @f = line_number() valid() -> @v = line_number() ]",
        "$plain.csv[*][ failed() -> stop() #a == 4 -> fail() ]",
        "$plain.csv[*][ @x = fail() @y = fail_and_stop(#a == 4) @z = stop(#a == 99)]",
        "$plain.csv[*][ or( #a == 4, #a == 7 ) -> fail() push(\"v\", valid()) push(\"f\", failed()) ]",
        "$plain.csv[*][ fail.onmatch() #a == 7 ]",
        "$plain.csv[*][ #a == 7 fail_and_stop.onmatch() ]",
        "$plain.csv[*][ #a == 7 stop.onmatch() ]",
        "$plain.csv[*][ not(fail_and_stop(#a == 4)) ]",
        "$plain.csv[*][ print(\"line $.csvpath.line_number valid=$.csvpath.valid stopped=$.csvpath.stopped\") #a == 4 -> fail_and_stop() ]",
        "$plain.csv[1][ fail() ]",
        "$plain.csv[2-3][ fail_and_stop(#a == 7) ]",
        "$plain.csv[4*][ stop(#a == 1) ]",
        "~ logic-mode: OR ~ $plain.csv[*][ #a == 4 fail_and_stop(#b == 8) ]",
        "~ logic-mode: OR ~ $plain.csv[*][ stop(#b == 8) fail() ]",
    ]
    for x in paths:
        standalone("basic", x)
    #
    # children whose matches() is not a plain True/False. e.g. total_lines()
    # answers None to matches().
    #
    for child in [
        "none()",
        "total_lines()",
        "line_number()",
        "add(1,2)",
        "subtract(1,1)",
        "count()",
        'concat("a","b")',
        "no()",
        "yes()",
        "int(#a)",
        'get("q")',
        'stack("s")',
        "last()",
        "first(#a)",
        "now()",
        "length(#a)",
        "stop()",
        "skip(#a == 1)",
        "fail()",
        "failed()",
        "valid()",
    ]:
        for fn in ("stop", "fail_and_stop", "stop_all"):
            standalone(
                "odd children",
                f"~validation-mode: no-raise, no-print~ $plain.csv[1-3][ {fn}({child}) ]",
                policy=["collect"],
            )
    for fn in ("blanks.csv", "ragged.csv", "empties.csv", "header_only.csv", "empty.csv", "one.csv", "words.csv"):
        for x in [
            "[*][ #a == 3 -> fail() ]",
            "[*][ fail_and_stop(#b == 0) ]",
            "[*][ fail_and_stop(#b) ]",
            "[*][ stop(not(#c)) ]",
            "[*][ fail_and_stop(empty(#a)) @l = line_number() ]",
            "[*][ #a == 0 -> fail_all() @l = line_number() ]",
            "[*][ stop_all(#c == 3) @l = line_number() ]",
            "[*][ stop(count_headers_in_line() == 4 ) @l = line_number() ]",
            "[*][ fail_and_stop(below(count_headers_in_line(), 3)) @l = line_number() ]",
        ]:
            standalone(fn, f"${fn}{x}")
    for m in ("fast_forward", "next", "collect2"):
        for x in [
            "$plain.csv[*][ fail_and_stop(#a == 7) ]",
            "$plain.csv[*][ #a == 4 -> fail() stop(#a == 7) ]",
            "$blanks.csv[*][ stop(#a == 4) ]",
            "$ragged.csv[*][ fail_and_stop(#b == 0) ]",
        ]:
            standalone("methods", x, method=m)
    standalone("repeat", "$plain.csv[*][ @c = count() fail_and_stop(@c == 2) ]", repeat=3)
    #
    # 2. standalone: errors under every policy, mixed with fail/stop
    #
    err_paths = [
        "$plain.csv[*][ @d = divide(#a, 0) ]",
        "$plain.csv[*][ #a == 4 -> @d = divide(#a, 0) ]",
        "$plain.csv[*][ #a == 4 -> @d = divide(#a, 0) fail_and_stop(#a == 7) ]",
        "$plain.csv[*][ stop(#a == 4) @d = divide(#a, 0) ]",
        "$words.csv[*][ @i = int(#a) fail_and_stop(#b == 3) ]",
        "$words.csv[*][ fail_and_stop(int(#a)) ]",
        "$words.csv[*][ stop(add(#a, 1)) ]",
        "~ validation-mode: no-raise, no-stop, fail ~ $words.csv[*][ stop(add(#a, 1)) @l = line_number() ]",
        "~ validation-mode: no-raise, no-print, no-fail, no-stop ~ $words.csv[*][ fail_and_stop(int(#a)) @l = line_number() ]",
        "~ validation-mode: no-raise, print, match ~ $words.csv[*][ @i = int(#a) fail_and_stop(#b == 3) ]",
        "~ validation-mode: raise ~ $words.csv[*][ @i = int(#a) ]",
    ]
    for pol in policies:
        for x in err_paths:
            standalone("errors", x, policy=pol)
    #
    # 3. structural problems with these functions
    #
    for x in [
        "$plain.csv[*][ fail(1) ]",
        "$plain.csv[*][ fail_all(yes()) ]",
        "$plain.csv[*][ stop(1, 2) ]",
        "$plain.csv[*][ fail_and_stop(\"a\") ]",
        "$plain.csv[*][ stop(#a) ]",
        "$plain.csv[*][ fail_and_stop(@nope) ]",
    ]:
        for pol in (None, ["collect", "print"]):
            standalone("structure", x, policy=pol)
    #
    # 4. named-paths groups: fail_all / stop_all / fail_and_stop with siblings
    #
    groups = [
        ["$[*][ yes() ]", "~id:two~ $[*][ #a == \"4\" ]"],
        ["~id:first~ $[*][ #a == 4 -> fail() ]", "~id:second~ $[*][ yes() ]"],
        ["~id:first~ $[*][ yes() ]", "~id:second~ $[*][ fail_and_stop(#a == 4) ]", "~id:third~ $[*][ stop(#a == 7) ]"],
        ["~id:first~ $[*][ #a == 4 -> fail_all() ]", "~id:second~ $[*][ yes() ]", "~id:third~ $[*][ @l = line_number() ]"],
        ["~id:first~ $[*][ yes() ]", "~id:second~ $[*][ fail_all() ]", "~id:third~ $[*][ @l = line_number() ]"],
        ["~id:first~ $[*][ stop_all(#a == 4) ]", "~id:second~ $[*][ yes() ]", "~id:third~ $[*][ #a == 7 -> fail() ]"],
        ["~id:first~ $[*][ @d = divide(#a, 0) ]", "~id:second~ $[*][ yes() ]"],
        ["~id:first~ $[*][ fail_and_stop(#a == 99) ]", "~id:second~ $[*][ stop(#a == 99) ]"],
    ]
    for method in (
        "collect_paths",
        "fast_forward_paths",
        "next_paths",
        "collect_by_line",
        "fast_forward_by_line",
        "next_by_line",
    ):
        for g in groups:
            for fn in ("plain.csv", "blanks.csv"):
                group(
                    "siblings",
                    g,
                    fn,
                    method=method,
                    policy=["collect", "print", "fail"],
                    policies=["collect"],
                    show_archive=(method in ("collect_paths", "collect_by_line") and fn == "plain.csv"),
                )
    group(
        "error policy no fail",
        groups[6],
        "plain.csv",
        policy=["collect"],
        policies=["collect"],
    )
    group(
        "error policy raise",
        groups[6],
        "plain.csv",
        policy=["raise", "collect", "fail", "stop"],
        policies=["collect"],
    )
    group("repeat", groups[3], "plain.csv", policy=["collect"], policies=["collect"], repeat=2, show_archive=False)
    group("edge files", groups[2], "header_only.csv", policy=["collect"], policies=["collect"])
    group("edge files", groups[3], "ragged.csv", policy=["collect"], policies=["collect"], show_archive=False)
    group("edge files", groups[3], "empty.csv", policy=["collect"], policies=["collect"], show_archive=False)
    out("=== done")


if __name__ == "__main__":
    try:
        main()
    except Exception:  # pylint: disable=W0718
        out(norm(traceback.format_exc()))
        raise
