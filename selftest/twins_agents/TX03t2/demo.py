"""Differential demo for refactoring t2 (CsvPath.get_variable split into helpers).

Usage:  PYTHONPATH=<csvpath checkout> /venv/bin/python demo.py > out.txt

Works in a fresh temporary directory and prints a deterministic transcript:
 1. get_variable / set_variable called directly over a grid of stored values,
    names, tracking values, set_if_none defaults, frozen / not frozen
 2. csvpaths whose functions keep their bookkeeping through get_variable
    (count, tally, sum, subtotal, counter, every, first, push/pop/peek/stack,
    increment, onchange, once, has_dups ...) with per-line printouts
 3. a CsvPaths run with the archive listing and vars.json contents
"""
import copy
import itertools
import json
import os
import re
import tempfile

WORK = tempfile.mkdtemp(prefix="demo_TXC03_t2_")
os.chdir(WORK)

from csvpath import CsvPath, CsvPaths  # noqa: E402

FILES = {
    "mixed.csv": "a,b,c\n1,x,10\n2,x,5\n\n3,y\n4,,0\n5,z,7,extra\n6,z,7\n",
    "nums.csv": "n,up,down,flat\n1,1,9,4\n2,2,8,4\n3,3,7,4\n4,2,8,4\n5,0,0,0\n6,,,\n7,5,5,5\n",
    "sales.csv": "co,item,price\nacme,nut,1.5\nacme,bolt,0\nzed,nut,2\n\nzed,nut,\nacme,nut,3\nqq,,4\n",
    "headeronly.csv": "a,b,c\n",
    "blanktail.csv": "a,b,c\n1,x,3\n2,y,4\n\n",
    "empty.csv": "",
}
for name, content in FILES.items():
    with open(name, "w", encoding="utf-8") as f:
        f.write(content)


def show_errors(path):
    for e in path.errors or []:
        msg = e.message if e.message is not None else f"{e.error}"
        print(
            f"    error: line={e.line_count} scan={e.scan_count} match={e.match_count} "
            f"class={type(e.error).__name__} msg={msg!r}"
        )


# ------------------------------------------------------------------
print("=== SECTION 1: get_variable / set_variable grid")
STORED = [
    "<absent>",
    None,
    0,
    1,
    "",
    "s",
    False,
    True,
    [],
    [1, 2],
    (),
    (3,),
    {},
    {"k": None},
    {"k": 0},
    {"k": ""},
    {"k": "v"},
    {"k": []},
    {"k": [7, 8]},
    {"other": 1},
    {True: 5, "True": 6},
    {1: "int-one"},
]
TRACKING = [None, "k", "missing", "", " ", 0, 1, True, False, "True"]
DEFAULTS = [None, 0, 1, "", "d", False, True, [], [9], {}, {"n": 1}]
NAMES = ["v", None, "", " ", 0]

n = 0
for frozen in (False, True):
    for stored, tracking, default, name in itertools.product(
        STORED, TRACKING, DEFAULTS, NAMES
    ):
        if name != "v" and not (stored == "<absent>" or stored == 1):
            continue
        path = CsvPath()
        if stored != "<absent>":
            path.variables["v"] = copy.deepcopy(stored)
        before = copy.deepcopy(path.variables)
        path.is_frozen = frozen
        try:
            got = path.get_variable(name, tracking=tracking, set_if_none=default)
            res = f"{type(got).__name__}:{got!r}"
            # identity matters: is the caller given the stored object itself?
            if "v" in path.variables:
                v = path.variables["v"]
                same = got is v or (isinstance(v, dict) and any(got is x for x in v.values()))
            else:
                same = False
            res = f"{res} same_obj={same} is_default={got is default}"
        except Exception as ex:  # pylint: disable=W0718
            res = f"EXC {type(ex).__name__}: {ex}"
        n += 1
        print(
            f"frozen={frozen} stored={stored!r} name={name!r} trk={tracking!r} "
            f"dflt={default!r} -> {res} | before={before!r} after={path.variables!r}"
        )
print(f"get grid cases: {n}")

n = 0
for frozen in (False, True):
    for stored, tracking, value, name in itertools.product(
        ["<absent>", None, 0, "s", [], {}, {"k": 1}, [1]],
        TRACKING,
        [None, 0, "val", [1], {"z": 1}],
        ["v", None, "", "  ", "w"],
    ):
        path = CsvPath()
        if stored != "<absent>":
            path.variables["v"] = copy.deepcopy(stored)
        path.is_frozen = frozen
        try:
            r = path.set_variable(name, value=value, tracking=tracking)
            res = f"{r!r}"
        except Exception as ex:  # pylint: disable=W0718
            res = f"EXC {type(ex).__name__}: {' '.join(str(ex).split())}"
        n += 1
        print(
            f"set frozen={frozen} stored={stored!r} name={name!r} trk={tracking!r} "
            f"value={value!r} -> {res} | after={path.variables!r}"
        )
print(f"set grid cases: {n}")

# set then get round trips on one instance, freezing in the middle
path = CsvPath()
path.set_variable("plain", value=1)
path.set_variable("trk", value="a", tracking="one")
path.set_variable("trk", value="b", tracking="two")
path.set_variable("stack", value=[1, 2, 3])
path.set_variable("stacks", value=["x"], tracking="s")
for frozen in (False, True, False):
    path.is_frozen = frozen
    for name, trk, dflt in [
        ("plain", None, None),
        ("plain", None, 5),
        ("trk", "one", None),
        ("trk", "three", "c"),
        ("trk", None, None),
        ("stack", None, None),
        ("stacks", "s", None),
        ("stacks", "t", []),
        ("nothere", None, None),
        ("nothere", None, []),
        ("nothere2", "q", None),
        ("nothere3", "q", 0),
    ]:
        got = path.get_variable(name, tracking=trk, set_if_none=dflt)
        print(f"roundtrip frozen={frozen} {name}.{trk} dflt={dflt!r} -> {type(got).__name__}:{got!r}")
    print(f"roundtrip frozen={frozen} variables={path.variables!r}")
    path.set_variable("plain", value="changed?")
    print(f"roundtrip frozen={frozen} plain={path.variables['plain']!r}")


# ------------------------------------------------------------------
def run(csvpath_str, *, method="collect", probe=False):
    print(f"--- {method}: {csvpath_str}")
    path = CsvPath()
    try:
        path.parse(csvpath_str)
        if method == "collect":
            lines = path.collect()
            print(f"    lines: {lines}")
        elif method == "fast_forward":
            path.fast_forward()
        else:
            for line in path.next():
                print(
                    f"    next: {line} vars={path.variables} "
                    f"scan={path.scan_count} match={path.match_count}"
                )
    except Exception as ex:  # pylint: disable=W0718
        print(f"    EXCEPTION {type(ex).__name__}: {ex}")
    print(f"    variables: {path.variables}")
    print(
        f"    scan_count={path.scan_count} match_count={path.match_count} "
        f"valid={path.is_valid} stopped={path.stopped} frozen={path.is_frozen}"
    )
    show_errors(path)
    if probe:
        for k in list(path.variables.keys()):
            got = path.get_variable(k)
            print(f"    after-run get {k}: {type(got).__name__}:{got!r}")
            if isinstance(path.variables[k], dict):
                for t in list(path.variables[k].keys()):
                    got = path.get_variable(k, tracking=t, set_if_none="nope")
                    print(f"    after-run get {k}.{t!r}: {type(got).__name__}:{got!r}")
        got = path.get_variable("never_set", tracking="t", set_if_none=1)
        print(f"    after-run get never_set.t: {got!r}; variables: {path.variables}")
    return path


LN = "ln=$.csvpath.line_number lines=$.csvpath.count_lines scans=$.csvpath.count_scans matches=$.csvpath.count_matches"

print("=== SECTION 2: functions that keep bookkeeping in variables")
PATHS = [
    f'$mixed.csv[*][ @c = count() @l = count_lines() @s = count_scans() @n = line_number() print("  > {LN} c=$.variables.c l=$.variables.l s=$.variables.s n=$.variables.n") #b ]',
    f'$mixed.csv[*][ count.named(#b) @t = count.bool(#b == "x") print("  > {LN} named=$.variables.named bool=$.variables.bool t=$.variables.t") ]',
    f'$mixed.csv[*][ count.onmatch.om(#b == "z") == 2 print("  > {LN} om=$.variables.om") ]',
    f'$mixed.csv[*][ tally(#b) tally.two(#b, #c) tally.om.onmatch(#a) #c print("  > {LN} tb=$.variables.tally_b two=$.variables.two om=$.variables.om_a") ]',
    f'$sales.csv[1*][ sum(#price) sum.s2.onmatch(#price) subtotal(#co, #price) subtotal.byitem(#item, #price) #item == "nut" print("  > {LN} sum=$.variables.sum s2=$.variables.s2 sub=$.variables.subtotal byitem=$.variables.byitem") ]',
    f'$mixed.csv[*][ counter.cc() counter.fives(5) @cc == 3 -> counter.threes(3) print("  > {LN} cc=$.variables.cc fives=$.variables.fives threes=$.variables.threes") ]',
    f'$mixed.csv[*][ @t.onmatch = count() every.who(#b, 2) print("  > {LN} who=$.variables.who every=$.variables.who_every t=$.variables.t") ]',
    f'$mixed.csv[*][ first.f(#b) print("  > {LN} f=$.variables.f") ]',
    f'$mixed.csv[*][ first.f2.onmatch(#b, #c) #c print("  > {LN} f2=$.variables.f2") ]',
    f'$mixed.csv[*][ push("st", #a) push.distinct("ds", #b) push.notnone("nn", #c) @sz = peek_size("st") @pk = peek("st", 1) print("  > {LN} st=$.variables.st st0=$.variables.st.0 len=$.variables.st.length ds=$.variables.ds nn=$.variables.nn sz=$.variables.sz pk=$.variables.pk") ]',
    f'$mixed.csv[*][ push("st", #a) above(peek_size("st"), 2) -> @popped = pop("st") @all = stack("st") @none = stack("nostack") print("  > {LN} st=$.variables.st popped=$.variables.popped all=$.variables.all none=$.variables.none") ]',
    f'$mixed.csv[*][ @i = increment.idx(yes(), 3) @j = increment.never.onmatch(yes(), 2) #b == "x" print("  > {LN} i=$.variables.i idx=$.variables.idx inc=$.variables.idx_increment j=$.variables.j") ]',
    f'$mixed.csv[*][ print.onchange("  > changed b to $.headers.b") print.once("  > once at $.csvpath.line_number") print.onmatch("  > onmatch {LN}") #b == "z" ]',
    f'$mixed.csv[*][ @d = has_dups(#b) dup_lines.dl(#b) print("  > {LN} d=$.variables.d dl=$.variables.dl") ]',
    f'$mixed.csv[*][ @x.k1 = #a @x.k2 = #b @y = @x.k1 @z = @x.nokey print("  > {LN} x=$.variables.x k1=$.variables.x.k1 y=$.variables.y z=$.variables.z") ]',
    f'$mixed.csv[*][ @x = #a @x.k = #b print("  > {LN} x=$.variables.x") ]',
    f'$mixed.csv[*][ @count = 5 count.count(#b) print("  > {LN} count=$.variables.count") ]',
    f'$mixed.csv[*][ @st = "notalist" push("st", #a) print("  > {LN} st=$.variables.st") ]',
    f'$mixed.csv[*][ @tally_b = 1 tally(#b) print("  > {LN} tb=$.variables.tally_b") ]',
    f'$mixed.csv[*][ push("st", #a) last() -> push("st", "end") last.nocontrib() -> @fin = stack("st") print("  > {LN} st=$.variables.st fin=$.variables.fin") ]',
    f'$mixed.csv[*][ @m = max(#c) @mn = min(#c) @av = average(#c, "line") print("  > {LN} m=$.variables.m mn=$.variables.mn av=$.variables.av") ]',
    f'$mixed.csv[*][ @pu = percent_unique(#b) @cu = count_dups(#b) print("  > {LN} pu=$.variables.pu cu=$.variables.cu") ]',
    f'$mixed.csv[*][ track("tr", #b, #a) track.onmatch("tm", #b, #c) #c print("  > {LN} tr=$.variables.tr tm=$.variables.tm") ]',
    f'$mixed.csv[*][ @g = get("tr", #b) put("pt", #b, #a) @h = get("pt", "x") print("  > {LN} pt=$.variables.pt g=$.variables.g h=$.variables.h") ]',
    f'~ logic-mode: OR ~ $mixed.csv[*][ tally(#b) count.c(#b == "x") #a == "9" print("  > {LN} tb=$.variables.tally_b c=$.variables.c") ]',
    f'~ return-mode: no-matches ~ $mixed.csv[*][ @c = count() counter.k() #b == "x" print("  > {LN} c=$.variables.c k=$.variables.k") ]',
]
FILES_FOR_ALL = ["headeronly.csv", "blanktail.csv", "empty.csv"]
for cp in PATHS:
    run(cp, probe=True)
for cp in PATHS[:12]:
    for fname in FILES_FOR_ALL:
        alt = cp.replace("$mixed.csv[*]", f"${fname}[*]").replace("$sales.csv[1*]", f"${fname}[*]")
        run(alt)
print("--- scan variants")
for scan in ["[1*]", "[2-4]", "[1+3+6]", "[0]", "[7]", "[3]"]:
    run(
        f'$mixed.csv{scan}[ @c = count() @l = count_lines() @s = count_scans() @n = line_number() tally(#b) push("st", #a) print("  > {LN} c=$.variables.c st=$.variables.st") ]',
        probe=True,
    )
print("--- next() and fast_forward(), repeated")
for _ in range(2):
    run('$mixed.csv[*][ tally(#b) push("st", #a) @c = count() #b ]', method="next", probe=True)
    run('$sales.csv[1*][ sum(#price) subtotal(#co, #price) counter.k(2) ]', method="fast_forward", probe=True)

# one instance, parse-run twice is not supported, so instead: two instances
# sharing nothing must give the same answers
a = run('$nums.csv[*][ @up.increase = int(#up) every.e(#flat, 2) first.f(#flat) ]')
b = run('$nums.csv[*][ @up.increase = int(#up) every.e(#flat, 2) first.f(#flat) ]')
print(f"same variables: {a.variables == b.variables}")


# ------------------------------------------------------------------
print("=== SECTION 3: CsvPaths run, archive contents")
cp = CsvPaths()
cp.file_manager.add_named_file(name="mixed", path="mixed.csv")
cp.paths_manager.add_named_paths(
    name="vars",
    paths=[
        '~ id: one ~ $[*][ tally(#b) push("st", #a) @c = count() @x.k = #a #b print("one $.csvpath.line_number $.variables.c") ]',
        '~ id: two ~ $[*][ counter.k() sum.s(#c) first.f(#b) every.e(#b, 2) @l.latch = #a ]',
        '~ id: three ~ $[1*][ @n = line_number() subtotal.sub(#b, #c) last() -> @done = "yes" ]',
    ],
)
for method in ("collect_paths", "fast_forward_paths", "collect_by_line"):
    try:
        r = getattr(cp, method)(filename="mixed", pathsname="vars")
        print(f"{method} returned: {r!r}")
    except Exception as ex:  # pylint: disable=W0718
        print(f"{method} EXCEPTION {type(ex).__name__}: {ex}")
    results = cp.results_manager.get_named_results("vars")
    for res in results:
        print(
            f"  {method} {res.csvpath.identity}: vars={res.csvpath.variables} "
            f"scan={res.csvpath.scan_count} match={res.csvpath.match_count} "
            f"valid={res.is_valid} lines={len(res) if res.lines is not None else None} "
            f"printouts={res.printouts}"
        )
def run_order(dirname):
    # run dirs are <timestamp> or <timestamp>.<n> when the second is reused.
    # ordering by (timestamp, n) is chronological however the clock fell.
    m = re.match(r"^(\d{4}-\d{2}-\d{2}_\d{2}-\d{2}-\d{2})(?:[._](\d+))?$", dirname)
    if not m:
        return ("~", 0, dirname)
    return (m.group(1), -1 if m.group(2) is None else int(m.group(2)), "")


def dump(full, label):
    f = os.path.basename(full)
    print(f"archive file: {label}")
    if f == "vars.json":
        with open(full, encoding="utf-8") as fh:
            print(f"   vars.json: {json.dumps(json.load(fh), sort_keys=True)}")
    elif f in ("data.csv", "unmatched.csv", "printouts.txt"):
        with open(full, encoding="utf-8") as fh:
            print(f"   {f}: {fh.read()!r}")


for entry in sorted(os.listdir("archive")):
    print(f"archive entry: archive/{entry}")
base = os.path.join("archive", "vars")
children = sorted(os.listdir(base), key=run_order)
for idx, child in enumerate(children):
    full = os.path.join(base, child)
    if not os.path.isdir(full):
        print(f"archive file: {full}")
        continue
    label = os.path.join(base, f"<RUN{idx}>")
    for root, dirs, files in os.walk(full):
        dirs.sort()
        for f in sorted(files):
            dump(os.path.join(root, f), os.path.join(root.replace(full, label), f))
print("done")
