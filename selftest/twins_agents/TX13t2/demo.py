#!/venv/bin/python
"""Differential demonstration for property C13 (stop / skip / advance / last).

Run in an EMPTY scratch directory (the script creates ./config, the data
files and ./archive there):

    mkdir /tmp/demo && cd /tmp/demo && PYTHONPATH=<tree> /venv/bin/python demo.py > out.txt

The transcript printed on stdout is deterministic: everything that is
observable from the outside (returned lines, variables, validity, stop
state, counters, collected errors, printouts, exceptions, the archive
listing and the contents of the data files in it) is printed, run-directory
names and timestamps are normalised.
"""
import io
import json
import os
import re
import sys
import traceback
from contextlib import redirect_stdout

CONFIG = """[csvpath_files]
extensions = txt, csvpath, csvpaths

[csv_files]
extensions = txt, csv, tsv, dat, tab, psv, ssv

[errors]
csvpath = collect, fail, print
csvpaths = collect

[logging]
csvpath = debug
csvpaths = info
log_file = logs/csvpath.log
log_files_to_keep = 100
log_file_size = 52428800

[config]
path = config/config.ini

[cache]
path = cache

[listeners]
[marquez]
base_url = http://localhost:5000

[functions]
imports = config/functions.imports

[results]
archive = archive
transfers = transfers

[inputs]
files = inputs/named_files
csvpaths = inputs/named_paths
on_unmatched_file_fingerprints = halt
"""

FILES = {
    # ordinary file, no trailing blank
    "plain.csv": "a,b,c\n1,2,3\n4,5,6\n7,8,9\n10,11,12\n13,14,15\n16,17,18\n",
    # no newline at the end of the last line
    "nonl.csv": "a,b,c\n1,2,3\n4,5,6\n7,8,9",
    # file ends in one blank line
    "trail1.csv": "a,b,c\n1,2,3\n4,5,6\n7,8,9\n10,11,12\n\n",
    # file ends in two blank lines and has an interior blank line
    "trail2.csv": "a,b,c\n1,2,3\n\n4,5,6\n7,8,9\n\n\n",
    # interior blank lines only
    "inner.csv": "a,b,c\n\n1,2,3\n\n\n4,5,6\n7,8,9\n",
    # ragged rows, empty values, zeros, whitespace-only line, quoted values
    "ragged.csv": 'a,b,c\n0,,3\n4\n,,\n4,5,6,7,8\n" ",0,""\n   \n4,0,0\n',
    # header only
    "one.csv": "a,b,c\n",
    # only blank lines
    "blanks.csv": "\n\n\n",
}

SCANS = ["*", "1*", "2-4", "1+3+5", "0", "3*", "0-2", "4-2", "2+6"]

# side-effecting components. every one leaves a trace in variables or
# printouts so that we can see exactly which components ran on which line.
SIDE = [
    'push("s1", line_number())',
    "@c2 = count_lines()",
    'print("p3 line $.csvpath.line_number scan $.csvpath.scan_count match $.csvpath.match_count")',
    'push.onmatch("s4", count())',
    "counter.c5(1)",
]

# control components under study. {C} is replaced by a condition
CONTROLS = [
    "stop({C})",
    "{C} -> stop()",
    "skip({C})",
    "{C} -> skip()",
    "{C} -> advance(2)",
    "{C} -> advance(0)",
    'last.nocontrib() -> push("lastseen", line_number())',
    "last()",
    'last.nocontrib(push("lastchild", count_lines()))',
    "{C} -> fail_and_stop()",
    "skip.once({C})",
]

CONDS = ['#a=="4"', "line_number()==3", "yes()", "no()", 'not(#b)', "mod(line_number(),2)==1"]


def norm(s: str) -> str:
    s = re.sub(r"\d{4}-\d{2}-\d{2}_\d{2}-\d{2}-\d{2}(_\d+)?(\.\d+)?", "<RUN>", s)
    s = re.sub(r"\d{4}-\d{2}-\d{2}[T ]\d{2}:\d{2}:\d{2}(\.\d+)?(\+00:00|Z)?", "<TS>", s)
    s = s.replace(os.getcwd(), "<CWD>")
    return s


def out(*a):
    print(norm(" ".join(str(_) for _ in a)))


def jd(o):
    try:
        return json.dumps(o, sort_keys=True, default=str)
    except TypeError:
        return repr(o)


def describe_errors(p):
    es = p.errors
    if not es:
        return repr(es)
    r = []
    for e in es:
        r.append(
            f"{type(e).__name__}|line={getattr(e, 'line_count', None)}|match={getattr(e, 'match_count', None)}"
            f"|scan={getattr(e, 'scan_count', None)}|{getattr(e, 'message', None)}"
            f"|{type(getattr(e, 'error', None)).__name__}|{str(getattr(e, 'error', None)).split(chr(10))[0][:200]}"
            f"|src={str(getattr(e, 'source', None)).split(chr(10))[0][:80]}"
        )
    return jd(r)


def state(p):
    out("   variables:", jd(p.variables))
    out(
        "   valid:", p.is_valid,
        "stopped:", p.stopped,
        "scan_count:", p.scan_count,
        "match_count:", p.match_count,
        "advance_count:", p.advance_count,
        "frozen:", p.is_frozen,
        "matcher.skip:", (p.matcher.skip if p.matcher else None),
    )
    out("   errors:", describe_errors(p))
    out("   unmatched:", jd(p.unmatched) if hasattr(p, "unmatched") else None)
    try:
        out("   monitor:", p.line_monitor.dump())
    except Exception as ex:  # pylint: disable=W0718
        out("   monitor: EXC", type(ex).__name__, ex)
    if p.matcher:
        out("   expr states:", [e[1] for e in p.matcher.expressions])


def write_config(policy=None):
    c = CONFIG
    if policy:
        c = c.replace("csvpath = collect, fail, print", f"csvpath = {policy}")
        assert c != CONFIG
    with open("config/config.ini", "w", encoding="utf-8") as fh:
        fh.write(c)


def run_one(title, path, *, method="collect", nexts=-1, config=None, repeat=1):
    from csvpath import CsvPath

    out("==", title)
    out("   path:", path, "| method:", method, "| nexts:", nexts)
    p = None
    try:
        if config:
            write_config(config)
        try:
            p = CsvPath()
        finally:
            if config:
                write_config(None)
        p.parse(path)
        for r in range(repeat):
            if repeat > 1:
                out("   -- repeat", r)
            if method == "collect":
                lines = p.collect(nexts=nexts) if nexts != -1 else p.collect()
                out("   lines:", jd(lines))
            elif method == "ff":
                p.fast_forward()
                out("   fast_forward done")
            elif method == "next":
                for i, line in enumerate(p.next()):
                    out(
                        "   next ->", jd(line),
                        "| at line", p.line_monitor.physical_line_number,
                        "stopped", p.stopped,
                        "vars", jd(p.variables),
                    )
            elif method == "next_break":
                for i, line in enumerate(p.next()):
                    out("   next ->", jd(line))
                    if i == 1:
                        out("   caller breaks")
                        break
            state(p)
    except BaseException as ex:  # pylint: disable=W0718
        out("   EXCEPTION:", type(ex).__name__, str(ex).split("\n")[0][:300])
        tb = traceback.extract_tb(ex.__traceback__)
        out("   raised in:", [f.name for f in tb if "/csvpath/" in f.filename][-1:])
        if p is not None:
            try:
                state(p)
            except Exception as ex2:  # pylint: disable=W0718
                out("   state EXC", type(ex2).__name__)


def build(side_n, pos, control):
    comps = SIDE[:side_n]
    comps = comps[:pos] + [control] + comps[pos:]
    return "\n      ".join(comps)


def section_matrix():
    out("#" * 70)
    out("# SECTION 1: position x control x condition on several files and scans")
    out("#" * 70)
    n = 0
    # full position sweep with 1..5 side effects on two files
    for fname in ["trail1.csv", "plain.csv"]:
        for control in CONTROLS:
            conds = CONDS[:2] if "{C}" in control else [None]
            for cond in conds:
                c = control.replace("{C}", cond) if cond else control
                for side_n in range(1, 6):
                    for pos in range(0, side_n + 1):
                        # thin the matrix deterministically
                        n += 1
                        if side_n in (2, 4) and n % 2 == 0:
                            continue
                        path = f"${fname}[*][\n      {build(side_n, pos, c)} ]"
                        run_one(f"matrix {fname} n={side_n} pos={pos}", path)


def section_scans():
    out("#" * 70)
    out("# SECTION 2: all files x all scans, fixed 3 side effects, control in the middle")
    out("#" * 70)
    for fname in FILES:
        for scan in SCANS:
            for control, cond in [
                ("stop({C})", CONDS[1]),
                ("{C} -> stop()", CONDS[0]),
                ("{C} -> skip()", CONDS[5]),
                ("{C} -> advance(2)", CONDS[0]),
                ('last.nocontrib() -> push("lastseen", line_number())', None),
                ("last()", None),
            ]:
                c = control.replace("{C}", cond) if cond else control
                path = f"${fname}[{scan}][\n      {build(3, 1, c)} ]"
                run_one(f"scan {fname}[{scan}]", path)


def section_conditions():
    out("#" * 70)
    out("# SECTION 3: all conditions, control first / last, ragged file; methods")
    out("#" * 70)
    for fname in ["ragged.csv", "trail2.csv"]:
        for control in CONTROLS[:6] + CONTROLS[9:]:
            for cond in CONDS:
                c = control.replace("{C}", cond)
                for pos in (0, 3):
                    path = f"${fname}[*][\n      {build(3, pos, c)} ]"
                    run_one(f"cond {fname} pos={pos}", path, method="ff" if pos == 0 else "collect")


def section_methods():
    out("#" * 70)
    out("# SECTION 4: next(), collect(nexts), repeated runs, caller break")
    out("#" * 70)
    paths = [
        '$trail1.csv[*][ push("s1", line_number()) stop(#a=="7") push("s2", line_number()) ]',
        '$trail1.csv[*][ push("s1", line_number()) push("s2", line_number()) stop(#a=="7") ]',
        '$plain.csv[*][ push("s1", line_number()) skip(#a=="7") push("s2", line_number()) ]',
        '$plain.csv[1*][ push("s1", line_number()) #a=="4" -> advance(2) push("s2", line_number()) ]',
        '$plain.csv[1*][ advance(1) push("s2", line_number()) ]',
        '$plain.csv[1*][ push("s2", line_number()) advance(100) ]',
        '$trail2.csv[*][ push("s1", line_number()) last.nocontrib() -> print("LAST at $.csvpath.line_number") ]',
        '$trail2.csv[*][ last() -> @final = count_lines() ]',
        '$inner.csv[*][ @n = line_number() last.nocontrib() -> @final = line_number() ]',
        '$plain.csv[1-4][ @n = line_number() last.nocontrib() -> @final = line_number() ]',
        '$plain.csv[1-4][ @n = line_number() last() ]',
        '$trail1.csv[*][ yes() ]',
        "$trail1.csv[*][ no() ]",
        "$trail1.csv[*][ ]",
        "$trail1.csv[*][ ~ only a comment ~ ]",
    ]
    for path in paths:
        for method, nexts in [("collect", -1), ("collect", 2), ("next", -1), ("ff", -1), ("next_break", -1)]:
            run_one("methods", path, method=method, nexts=nexts)
    for path in paths[:4]:
        run_one("repeat", path, method="collect", repeat=2)


def section_modes():
    out("#" * 70)
    out("# SECTION 5: modes: OR logic, return no-matches + unmatched, explain, no-run")
    out("#" * 70)
    bodies = [
        'push("s1", line_number()) #a=="4" -> stop() push("s2", line_number())',
        'push("s1", line_number()) skip(#a=="4") push("s2", line_number())',
        'push("s1", line_number()) #a=="4" -> advance(1) push("s2", line_number()) #b=="8"',
        'push("s1", line_number()) last() push("s2", line_number())',
        '#a=="4" #b=="8" skip(#c=="12") @x=line_number()',
        'stop.nocontrib(#a=="7") #b=="5"',
    ]
    modes = [
        "logic-mode: OR",
        "return-mode: no-matches",
        "return-mode: no-matches unmatched-mode: keep",
        "return-mode: matches unmatched-mode: keep",
        "explain-mode: explain",
        "run-mode: no-run",
        "logic-mode: OR return-mode: no-matches unmatched-mode: keep",
        "validation-mode: no-raise, no-stop, print, fail, collect",
    ]
    for fname in ["trail1.csv", "plain.csv", "ragged.csv"]:
        for mode in modes:
            for body in bodies:
                path = f"~ {mode} ~ ${fname}[*][ {body} ]"
                run_one(f"mode {mode}", path)


def section_errors():
    out("#" * 70)
    out("# SECTION 6: errors and odd inputs")
    out("#" * 70)
    paths = [
        '$plain.csv[*][ push("s1", line_number()) advance("x") push("s2", line_number()) ]',
        '$plain.csv[*][ push("s1", line_number()) advance(#b) push("s2", line_number()) ]',
        '$ragged.csv[*][ push("s1", line_number()) advance(#b) push("s2", line_number()) ]',
        '$plain.csv[*][ push("s1", line_number()) advance(-1) push("s2", line_number()) ]',
        "$plain.csv[*][ advance() ]",
        "$plain.csv[*][ stop(1, 2) ]",
        '$plain.csv[*][ skip("a") ]',
        "$plain.csv[*][ last(1) ]",
        "$plain.csv[*][ nosuchfunction() ]",
        "$plain.csv[*][ stop( ]",
        "$nosuchfile.csv[*][ stop() ]",
        "$plain.csv[9-12][ last.nocontrib() -> @x = 1 yes() ]",
        "$plain.csv[6][ last.nocontrib() -> @x = 1 yes() ]",
        "$plain.csv[6*][ last.nocontrib() -> @x = 1 stop() ]",
        # errors raised while last() is activated on a blank final line
        '$trail1.csv[*][ push("s1", line_number()) last.nocontrib() -> @x = divide(1, 0) ]',
        '$trail1.csv[*][ push("s1", line_number()) last.nocontrib() -> @x = int("abc") ]',
        '$trail1.csv[*][ last.nocontrib() -> @x = int("abc") last.nocontrib() -> @y = count_lines() ]',
        '$trail1.csv[*][ @z = add(1, last.nocontrib()) or(last.nocontrib(), no()) -> @y = count_lines() ]',
        '$trail1.csv[*][ not(last.nocontrib()) -> push("notlast", line_number()) last.nocontrib() -> fail() ]',
        '$trail1.csv[*][ last.nocontrib() -> stop() last.nocontrib() -> push("after_stop", 1) ]',
        '$trail1.csv[*][ last.nocontrib() -> skip() last.nocontrib() -> push("after_skip", 1) ]',
        '$trail1.csv[*][ last.nocontrib() -> advance(2) last.nocontrib() -> push("after_adv", 1) ]',
        '$trail1.csv[*][ push("s1", #a) #a == "10" -> skip() ]',
        '$trail1.csv[*][ push("s1", #a) #a == "10" -> stop() ]',
        '$trail1.csv[*][ push("s1", #a) #a == "10" -> advance(1) ]',
        '$trail1.csv[*][ push("s1", #a) #a == "7" -> advance(2) ]',
        '$trail1.csv[*][ push("s1", #a) #a == "7" -> advance(1) last.nocontrib() -> @final = line_number() ]',
        '$blanks.csv[*][ push("s1", line_number()) last.nocontrib() -> @final = line_number() ]',
        '$one.csv[*][ push("s1", line_number()) last.nocontrib() -> @final = line_number() stop() push("s2", 1) ]',
        '$one.csv[*][ push("s1", line_number()) skip() push("s2", 1) last.nocontrib() -> @final = line_number() ]',
        '$one.csv[*][ total_lines() == 1 -> push("tl", total_lines()) last.nocontrib() -> @final = line_number() ]',
    ]
    # several last()s at different depths: the order in which they are
    # activated on a blank final line is visible in the order of the pushes
    nested = [
        'or(last.nocontrib(push("o", "A")), last.nocontrib(push("o", "B"))) last.nocontrib() -> push("o", "C")',
        'and(last.nocontrib(push("o", "A")), not(last.nocontrib(push("o", "B"))), last.nocontrib(push("o", "C")))',
        'last.nocontrib() -> push("o", "C") last.nocontrib() -> push("o", "D") @v = last.nocontrib()',
        'yes() -> last.nocontrib(push("o", "E")) push("o", "x") no() -> last.nocontrib(push("o", "G"))',
        'last.nocontrib(last.nocontrib(push("o", "F"))) push("o", "x")',
        'or(and(last.nocontrib(push("o", "A")), yes()), and(no(), last.nocontrib(push("o", "B")))) -> last.nocontrib(push("o", "H"))',
        '@a = last.nocontrib(push("o", "I")) @b.onmatch = last.nocontrib(push("o", "J")) last.onmatch(push("o", "K"))',
        'last.nocontrib() -> @n = int("abc") or(last.nocontrib(push("o", "A")), last.nocontrib(push("o", "B")))',
        'or(last.nocontrib(push("o", "A")), last.nocontrib(@n = int("abc")), last.nocontrib(push("o", "B")))',
    ]
    for fname in ["trail1.csv", "trail2.csv", "plain.csv", "blanks.csv"]:
        for body in nested:
            paths.append(f"${fname}[*][ {body} ]")
    paths.append(f"$trail1.csv[1-3][ {nested[0]} ]")
    paths.append(f"$trail1.csv[3*][ {nested[1]} ]")
    for path in paths:
        run_one("errors/odd", path)
    out("-- same again with the raising error policy")
    for path in paths[:10] + paths[14:17]:
        run_one("errors/odd raise", path, config="raise, collect, stop, fail, print")
    out("-- skip_blank_lines=False")
    from csvpath import CsvPath

    for path in [
        '$trail2.csv[*][ push("s1", line_number()) last.nocontrib() -> @final = line_number() ]',
        '$inner.csv[*][ push("s1", line_number()) skip(line_number()==3) push("s2", line_number()) ]',
        '$inner.csv[*][ push("s1", line_number()) line_number()==0 -> advance(2) push("s2", line_number()) ]',
    ]:
        out("== keep blanks:", path)
        try:
            p = CsvPath(skip_blank_lines=False)
            p.parse(path)
            out("   lines:", jd(p.collect()))
            state(p)
        except BaseException as ex:  # pylint: disable=W0718
            out("   EXCEPTION:", type(ex).__name__, str(ex).split("\n")[0][:300])
            state(p)


def aslist(x):
    if x is None:
        return None
    if isinstance(x, list):
        return x
    if hasattr(x, "next"):
        return [list(_) for _ in x.next()]
    return list(x)


def listing(root):
    r = []
    for d, ds, fs in os.walk(root):
        ds.sort()
        for f in sorted(fs):
            r.append(os.path.join(d, f))
    return r


def section_groups():
    out("#" * 70)
    out("# SECTION 7: CsvPaths groups and the archive")
    out("#" * 70)
    from csvpath import CsvPaths

    groups = {
        "stops": [
            '~ id: first ~ $[*][ push("s1", line_number()) #a=="4" -> stop() push("s2", line_number()) ]',
            '~ id: second ~ $[*][ push("s1", line_number()) skip(#a=="4") push("s2", line_number()) print("second saw $.csvpath.line_number") ]',
            '~ id: third ~ $[1*][ push("s1", line_number()) #a=="4" -> advance(1) last.nocontrib() -> print("third last at $.csvpath.line_number") ]',
        ],
        "alls": [
            '~ id: a1 ~ $[*][ push("s1", line_number()) #a=="4" -> skip_all() push("s2", line_number()) ]',
            '~ id: a2 ~ $[*][ push("s1", line_number()) #a=="7" -> advance_all(1) push("s2", line_number()) ]',
            '~ id: a3 ~ $[*][ push("s1", line_number()) #a=="13" -> stop_all() push("s2", line_number()) last.nocontrib() -> @final = line_number() ]',
            '~ id: a4 ~ $[*][ push("s1", line_number()) last.nocontrib() -> @final = line_number() ]',
        ],
        "lasts": [
            '~ id: l1 return-mode: no-matches unmatched-mode: keep ~ $[*][ last() -> @final = count_lines() #a=="4" ]',
            '~ id: l2 ~ $[2-3][ last.nocontrib() -> @final = line_number() yes() ]',
            "~ id: l3 ~ $[*][ no() ]",
        ],
    }
    cp = CsvPaths()
    for f in ["plain.csv", "trail1.csv", "trail2.csv", "ragged.csv"]:
        cp.file_manager.add_named_file(name=f[:-4], path=f)
    for g, paths in groups.items():
        cp.paths_manager.add_named_paths(name=g, paths=paths)
    methods = ["collect_paths", "fast_forward_paths", "next_paths", "collect_by_line", "fast_forward_by_line", "next_by_line"]
    for g in groups:
        for f in ["plain", "trail1", "trail2", "ragged"]:
            for m in methods:
                out("== group", g, "file", f, "method", m)
                try:
                    buf = io.StringIO()
                    with redirect_stdout(buf):
                        if m.startswith("next"):
                            got = [list(_) for _ in getattr(cp, m)(filename=f, pathsname=g)]
                        else:
                            got = getattr(cp, m)(filename=f, pathsname=g)
                    out("   stdout:", jd(buf.getvalue().split("\n")))
                    if m.startswith("next"):
                        out("   yielded:", jd(got))
                    for r in cp.results_manager.get_named_results(g):
                        out("   result", r.csvpath.identity)
                        out("     lines:", jd(aslist(r.lines)))
                        out("     unmatched:", jd(aslist(r.unmatched)))
                        out("     variables:", jd(r.csvpath.variables))
                        out("     printouts:", jd(r.printouts))
                        out("     errors:", len(r.errors) if r.errors else 0, "valid:", r.is_valid,
                            "stopped:", r.csvpath.stopped, "scan:", r.csvpath.scan_count,
                            "match:", r.csvpath.match_count, "adv:", r.csvpath.advance_count)
                except BaseException as ex:  # pylint: disable=W0718
                    out("   EXCEPTION:", type(ex).__name__, str(ex).split("\n")[0][:300])
    out("-- archive listing")
    runs = {}
    for path in listing("archive"):
        parts = path.split(os.sep)
        # archive/<group>/<run dir>/...  : number the run dirs per group in order
        if len(parts) > 3:
            key = (parts[1], parts[2])
            grp = [k for k in sorted(runs) if k[0] == parts[1]]
            if key not in runs:
                runs[key] = f"run{len(grp):02d}"
            parts[2] = runs[key]
        npath = os.sep.join(parts)
        base = os.path.basename(path)
        out("  ", npath, "" if base.endswith(".json") and base != "vars.json" else f"({os.path.getsize(path)} bytes)")
        if base in ("data.csv", "unmatched.csv", "vars.json", "printouts.txt"):
            with open(path, "r", encoding="utf-8") as fh:
                out("      |", jd(fh.read()))


def main():
    os.makedirs("config", exist_ok=True)
    write_config(None)
    with open("config/functions.imports", "w", encoding="utf-8") as fh:
        fh.write("")
    for name, content in FILES.items():
        with open(name, "w", encoding="utf-8", newline="") as fh:
            fh.write(content)
    section_matrix()
    section_scans()
    section_conditions()
    section_methods()
    section_modes()
    section_errors()
    section_groups()
    out("DONE")


if __name__ == "__main__":
    main()
