"""Differential demonstration for property C10:

  "Every run gets its own run directory and never touches an earlier run's results"

Run it in an EMPTY scratch directory (it creates ./config, ./inputs, ./archive ...):

    mkdir /tmp/demo && cd /tmp/demo && PYTHONPATH=<csvpath tree> python demo.py > out.txt

Only pre-existing public/internal API is used, so the transcript of an unmodified
tree and of a refactored tree are comparable byte for byte. Everything that
depends on the wall clock, on uuids or on the scratch dir is normalised.
The *run time* of every run is NOT normalised: it is driven by a fake clock that
replaces `datetime` in csvpath.csvpaths, so run directory names are deterministic.
"""
import hashlib
import io
import json
import os
import random
import re
import sys
import traceback
from contextlib import redirect_stdout
from datetime import datetime, timedelta, timezone

CONFIG = """[csvpath_files]
extensions = txt, csvpath, csvpaths

[csv_files]
extensions = txt, csv, tsv, dat, tab, psv, ssv

[errors]
csvpath = collect, fail, print
csvpaths = collect

[logging]
csvpath = info
csvpaths = info
log_file = logs/csvpath.log
log_files_to_keep = 100
log_file_size = 52428800

[config]
path = config/config.ini

[cache]
path = cache

[listeners]
[marquez]
base_url = http://localhost:5000

[functions]
imports = config/functions.imports

[results]
archive = archive
transfers = transfers

[inputs]
files = inputs/named_files
csvpaths = inputs/named_paths
on_unmatched_file_fingerprints = halt
"""

sys.stdout.reconfigure(encoding="utf-8")
if os.path.exists("archive") or os.path.exists("inputs"):
    sys.exit("run me in an empty scratch directory")
os.makedirs("config", exist_ok=True)
with open("config/config.ini", "w") as _f:
    _f.write(CONFIG)
with open("config/functions.imports", "w") as _f:
    _f.write("")

# blank lines, ragged rows, empty values, zero, a non-number
with open("f.csv", "w") as _f:
    _f.write("a,b,c\n1,2,3\n\n4,5\n7,,9,10\n0,0,0\nx,y,z\n\n")
with open("g.csv", "w") as _f:
    _f.write('name,qty\n"smith, j",0\nlee,\n,3\n\n"o""neil",12\n')
with open("h.csv", "w") as _f:
    _f.write("only,a,header\n")

import csvpath.csvpaths as csvpaths_module  # noqa: E402
from csvpath import CsvPaths  # noqa: E402
from csvpath.managers.results.result_serializer import ResultSerializer  # noqa: E402


# ----------------------------------------------------------------- fake clock
class FakeClock:
    """stands in for the name `datetime` inside csvpath/csvpaths.py. CsvPaths only
    calls datetime.now(timezone.utc) there, to stamp the start of a run."""

    value = datetime(2031, 3, 4, 12, 59, 58, tzinfo=timezone.utc)

    @classmethod
    def now(cls, tz=None):
        return cls.value


csvpaths_module.datetime = FakeClock


def tick(step: str) -> None:
    v = FakeClock.value
    if step == "same":
        pass
    elif step == "+1s":
        v = v + timedelta(seconds=1)
    elif step == "to13":  # the next 13:00:00 strictly after now
        n = v.replace(hour=13, minute=0, second=0)
        v = n if n > v else n + timedelta(days=1)
    elif step == "to1259":  # the next 12:59:59 strictly after now
        n = v.replace(hour=12, minute=59, second=59)
        v = n if n > v else n + timedelta(days=1)
    elif step == "to2359":  # the next 23:59:59 strictly after now
        n = v.replace(hour=23, minute=59, second=59)
        v = n if n > v else n + timedelta(days=1)
    elif step == "midnight":  # the next 00:00:00 strictly after now
        v = (v + timedelta(days=1)).replace(hour=0, minute=0, second=0)
    else:
        raise ValueError(step)
    FakeClock.value = v


# -------------------------------------------------------------- normalisation
CWD = os.getcwd()
PKG = os.path.dirname(os.path.abspath(csvpaths_module.__file__))
_SUBS = [
    (re.compile(re.escape(CWD)), "<CWD>"),
    # tracebacks kept in errors.json name the source tree and its line numbers
    (re.compile(re.escape(PKG)), "<PKG>"),
    (re.compile(r"(File \\?\"[^\"]*\\?\", line )\d+"), r"\1<N>"),
    (
        re.compile(r"\d{4}-\d\d-\d\d[ T]\d\d:\d\d:\d\d\.\d+(\+00:00)?"),
        "<WALLCLOCK>",
    ),
    (
        re.compile(
            r"[0-9a-f]{8}-[0-9a-f]{4}-[0-9a-f]{4}-[0-9a-f]{4}-[0-9a-f]{12}"
        ),
        "<UUID>",
    ),
    (re.compile(r'("(?:lines_time|last_line_time)": )[-0-9.e]+'), r"\1<MS>"),
    # fingerprints of files that themselves hold wall clock times
    (
        re.compile(r'("(?:meta|errors)\.json": ")[0-9a-f]{64}'),
        r"\1<SHA-OF-VOLATILE>",
    ),
    (
        re.compile(r'("named_file_last_change": )"[^"]*"'),
        r'\1"<MTIME>"',
    ),
]


def norm(s: str) -> str:
    for rx, rep in _SUBS:
        s = rx.sub(rep, s)
    return s


def out(*a) -> None:
    print(norm(" ".join(str(_) for _ in a)))


def describe_exc(ex) -> str:
    return f"{type(ex).__name__}: {norm(str(ex))}"


# ------------------------------------------------------------ archive helpers
def archive_files() -> list[str]:
    ret = []
    for root, dirs, files in os.walk("archive"):
        dirs.sort()
        for f in sorted(files):
            ret.append(os.path.join(root, f))
    return sorted(ret)


def archive_dirs() -> list[str]:
    ret = []
    for root, dirs, files in os.walk("archive"):
        dirs.sort()
        for d in dirs:
            ret.append(os.path.join(root, d))
    return sorted(ret)


def raw_hash(p) -> str:
    with open(p, "rb") as f:
        return hashlib.sha256(f.read()).hexdigest()


def norm_hash(p) -> str:
    with open(p, "r") as f:
        return hashlib.sha256(norm(f.read()).encode()).hexdigest()[0:16]


def snapshot() -> dict:
    """raw bytes hash of every file in a run directory, i.e. everything in the
    archive but the archive-wide list of runs, archive/manifest.json"""
    return {p: raw_hash(p) for p in archive_files() if p != "archive/manifest.json"}


def run_dirs_of(group) -> list[str]:
    d = os.path.join("archive", group)
    return sorted(os.listdir(d)) if os.path.exists(d) else []


# ---------------------------------------------------------------- the fixture
GROUPS = {
    "p": [
        "~id:one~ $[*][yes()]",
        '~id:two~ $[*][#a=="0" -> print("zero on line $.csvpath.line_number")]',
        '$[1*][ push("seen", #0) @n = count_lines() last() -> print("n is $.variables.n")]',
    ],
    "q": [
        "~id:src~ $[*][ not(empty(#1)) ]",
        "~id:follow source-mode:preceding~ $[*][ @c = count_lines() yes()]",
        "~id:num~ $[1*][ gt(int(#0), 2) ]",
    ],
}
FILES = {"f": "f.csv", "g": "g.csv", "h": "h.csv"}

METHODS = [
    "collect_paths",
    "fast_forward_paths",
    "next_paths",
    "next_paths_collect",
    "collect_by_line",
    "fast_forward_by_line",
    "next_by_line",
]

_reused = {"cp": None}
ALL_RUNS = []  # (group, run dir name) in the order they were made


def new_instance():
    cp = CsvPaths()
    for n, p in FILES.items():
        cp.file_manager.add_named_file(name=n, path=p)
    for n, ps in GROUPS.items():
        cp.paths_manager.add_named_paths(name=n, paths=ps)
    return cp


def instance(kind: str):
    if kind == "new":
        return new_instance()
    if _reused["cp"] is None:
        _reused["cp"] = new_instance()
    return _reused["cp"]


def do_run(cp, method, group, file):
    """returns whatever the method hands back, lists only"""
    if method == "collect_paths":
        return cp.collect_paths(pathsname=group, filename=file)
    if method == "fast_forward_paths":
        return cp.fast_forward_paths(pathsname=group, filename=file)
    if method == "next_paths":
        return list(cp.next_paths(pathsname=group, filename=file))
    if method == "next_paths_collect":
        return list(cp.next_paths(pathsname=group, filename=file, collect=True))
    if method == "collect_by_line":
        return cp.collect_by_line(pathsname=group, filename=file)
    if method == "fast_forward_by_line":
        return cp.fast_forward_by_line(pathsname=group, filename=file)
    if method == "next_by_line":
        return list(
            cp.next_by_line(
                pathsname=group, filename=file, collect=True, if_all_agree=True
            )
        )
    raise ValueError(method)


def one_run(step, kind, method, group, file, results_name=None, verbose=True):
    tick(step)
    before = snapshot()
    dirs_before = {g: run_dirs_of(g) for g in GROUPS}
    out(
        f"RUN clock={FakeClock.value} step={step} instance={kind} "
        f"method={method} paths={group} file={file}"
    )
    cp = instance(kind)
    buf = io.StringIO()
    returned = None
    try:
        with redirect_stdout(buf):
            returned = do_run(cp, method, group, file)
    except Exception as ex:  # pylint: disable=W0718
        out("  raised", describe_exc(ex))
    for line in buf.getvalue().splitlines():
        out("  stdout|", line)
    out("  returned:", returned)
    name = results_name if results_name else group
    try:
        for r in cp.results_manager.get_named_results(name):
            lines = None
            try:
                lines = list(r.lines.next()) if not isinstance(r.lines, list) else r.lines
            except Exception as ex:  # pylint: disable=W0718
                lines = describe_exc(ex)
            out(
                f"  result {r.identity_or_index}: run_dir={r.run_dir} "
                f"instance_dir={r.instance_dir} valid={r.is_valid} "
                f"errors={[str(e.error) for e in r.errors]}"
            )
            if verbose:
                out(f"    lines={lines}")
                out(f"    unmatched={r.unmatched}")
                out(f"    variables={ {k: v for k, v in r.variables.items() if not k.startswith('_intx')} }")
                out(f"    printouts={r.get_printouts()}")
    except Exception as ex:  # pylint: disable=W0718
        out("  no named results:", type(ex).__name__)
    out("  run_time_str memo after run:", cp._run_time_str, cp._current_run_time)
    # what is new on disk
    after_files = archive_files()
    new_files = [p for p in after_files if p not in before and p != "archive/manifest.json"]
    new_dirs = {}
    for g in GROUPS:
        nd = [d for d in run_dirs_of(g) if d not in dirs_before[g]]
        if nd:
            new_dirs[g] = nd
            for d in nd:
                ALL_RUNS.append((g, d))
    out("  new run dirs:", new_dirs)
    touched_groups = sorted({p.split(os.sep)[1] for p in new_files})
    out("  groups written to:", touched_groups)
    if verbose:
        for p in new_files:
            out("   +", p, norm_hash(p))
    else:
        out("   + files:", len(new_files))
    # the property, second half: every earlier file is byte-identical
    now = snapshot()
    changed = [p for p, h in before.items() if now.get(p) != h]
    out("  earlier files changed or removed:", changed)
    return cp


def resolve(cp, ref):
    try:
        out("  resolve", ref, "->", cp.results_manager.data_file_for_reference(ref))
    except Exception as ex:  # pylint: disable=W0718
        out("  resolve", ref, "-> raised", describe_exc(ex))


def resolve_some(cp):
    day = FakeClock.value.strftime("%Y-%m-%d")
    hour = FakeClock.value.strftime("%Y-%m-%d_%H-")
    for g, ident in [("p", "one"), ("p", "two"), ("q", "src"), ("q", "num")]:
        for prefix in ["20", day, hour]:
            for tok in [":last", ":first"]:
                resolve(cp, f"${g}.results.{prefix}{tok}.{ident}")
    # the chronological order of the directory names, seen through _find_in_dir_names
    for g in GROUPS:
        names = os.listdir(os.path.join("archive", g)) if os.path.exists(os.path.join("archive", g)) else []
        made = [d for (gg, d) in ALL_RUNS if gg == g]
        rm = cp.results_manager
        last = rm._find_in_dir_names("20", names, True)
        first = rm._find_in_dir_names("20", names, False)
        out(
            f"  {g}: runs made (in order)={made} :last={last} :first={first} "
            f"last_is_newest={bool(made) and last == made[-1]} "
            f"first_is_oldest={bool(made) and first == made[0]}"
        )


def dump_archive(full: bool):
    out("ARCHIVE DIRS")
    for d in archive_dirs():
        out("  d", d)
    out("ARCHIVE FILES")
    for p in archive_files():
        out("  f", p, norm_hash(p))
        if full:
            with open(p, "r") as f:
                for line in f.read().splitlines():
                    out("      |", line)


# =========================================================== part 1: units
def part_units():
    out("=" * 20, "PART 1: run dir naming, unit level")
    os.makedirs("unit_archive", exist_ok=True)
    rs = ResultSerializer("unit_archive")
    dt = datetime(2031, 3, 4, 13, 5, 9, tzinfo=timezone.utc)
    cases = [
        ("grp", dt),
        ("grp", dt),
        ("$grp.results.2031-03:last.one", dt),
        ("$grp.csvpaths.two:from", dt),
        ("grp#one", dt),
        ("$grp#one.results.x", dt),
        ("other", "2031-03-04_13-05-09"),
        ("other", "not a time"),
        ("other", ""),
        ("other", None),
        ("other", 0),
        ("other", datetime(2031, 3, 4, 0, 0, 0)),
        ("other", datetime(2031, 3, 4, 23, 59, 59, 999999)),
        ("deep/er", dt),
        ("", dt),
        ("$", dt),
        (".hidden", dt),
    ]
    for paths_name, run_time in cases:
        for rnd in range(0, 4):
            try:
                d = rs.get_run_dir(paths_name=paths_name, run_time=run_time)
                out(f"  get_run_dir({paths_name!r}, {run_time!r}) #{rnd} -> {d!r} exists={os.path.exists(d)}")
                if rnd in (0, 1, 3):
                    # claim it, as a run would
                    os.makedirs(d)
                if rnd == 1:
                    # a plain file squatting on the next name is also 'in use'
                    with open(f"{d[: d.rfind('.')] if '.' in os.path.basename(d) else d}.1", "w") as f:
                        f.write("squatter")
            except Exception as ex:  # pylint: disable=W0718
                out(f"  get_run_dir({paths_name!r}, {run_time!r}) #{rnd} -> raised {describe_exc(ex)}")
    for bad in [(None, dt), (5, dt)]:
        try:
            out("  get_run_dir", bad, rs.get_run_dir(paths_name=bad[0], run_time=bad[1]))
        except Exception as ex:  # pylint: disable=W0718
            out("  get_run_dir", bad, "-> raised", describe_exc(ex))
    for v in [None, dt, datetime(2031, 1, 2, 3, 4, 5), datetime(2031, 1, 2, 15, 4, 5)]:
        out("  get_run_dir_name_from_datetime", repr(v), "->", repr(rs.get_run_dir_name_from_datetime(v)))
    for v in ["x", 0]:
        try:
            out("  get_run_dir_name_from_datetime", repr(v), rs.get_run_dir_name_from_datetime(v))
        except Exception as ex:  # pylint: disable=W0718
            out("  get_run_dir_name_from_datetime", repr(v), "-> raised", describe_exc(ex))
    for v in ["a", "$a", "$$a.b.c", "a#b", "a.b#c", "a#b.c", "", "$", ".", "#"]:
        out("  _deref_paths_name", repr(v), "->", repr(rs._deref_paths_name(v)))
    out("  get_instance_dir ->", rs.get_instance_dir(run_dir="unit_archive/grp/x", identity="id1"))
    out("  get_instance_dir again ->", rs.get_instance_dir(run_dir="unit_archive/grp/x", identity="id1"))
    out("  unit_archive listing:")
    for root, dirs, files in os.walk("unit_archive"):
        dirs.sort()
        out("   ", root, sorted(dirs), sorted(files))

    out("=" * 20, "PART 1b: _find_in_dir_names / _find_instance, unit level")
    cp = new_instance()
    rm = cp.results_manager
    name_sets = {
        "empty": [],
        "one": ["2031-03-04_13-05-09"],
        "hours": [
            "2031-03-04_13-00-00",
            "2031-03-04_12-59-59",
            "2031-03-04_01-00-00",
            "2031-03-05_00-00-00",
            "2031-03-04_23-59-59",
        ],
        "counters": [
            "2031-03-04_13-05-09.10",
            "2031-03-04_13-05-09.2",
            "2031-03-04_13-05-09",
            "2031-03-04_13-05-09.0",
            "2031-03-04_13-05-09.1",
            "2031-03-04_13-05-08.7",
            "2031-03-04_13-05-10",
        ],
        "ties": [
            "2031-03-04_13-05-09.01",
            "2031-03-04_13-05-09.1",
            "2031-3-4_13-5-9.1",
            "2031-03-04_13-05-09.-1",
            "2031-03-04_13-05-09",
            "2031-03-04_13-05-09.+1",
        ],
        "junk": ["2031-03-04_13-05-09", "2031-03-04_13-05-09.tmp", "2031-readme.txt"],
        "junk2": ["2031-readme.txt", "2031-03-04_13-05-09", "2031-zzz"],
        "other-years": ["1999-12-31_23-59-59", "2031-01-01_00-00-00", ".DS_Store", "manifest.json"],
        "tuple": ("2031-03-04_13-05-09", "2031-03-04_13-05-08"),
        "leap": ["2032-03-01_00-00-00", "2032-02-29_23-59-59", "2031-02-28_23-59-59", "2031-03-01_00-00-00"],
        "no-such-day": ["2031-02-28_23-59-59", "2031-02-30_00-00-00", "2031-03-01_00-00-00"],
        "no-such-hour": ["2031-03-04_24-00-00", "2031-03-04_23-00-00"],
        "leap-second": ["2031-03-04_12-59-59", "2031-03-04_12-59-60"],
        "year-0": ["0000-01-01_00-00-00"],
        "lax": ["2031-3-4_1-2-3", "2031-03-04_01-02-03.0", "2031-03-04_1-02-02", "2031-03-4_01-02-04"],
        "not-ascii": ["\uff12\uff10\uff13\uff11-03-04_13-05-09", "2031-03-04_13-05-0\u0669", "2031-03-04_13-05-08"],
        "spaces": ["2031-03-04_13-05-09 ", "2031-03-04_13-05-08"],
        "newline": ["2031-03-04_13-05-08", "2031-03-04_13-05-09\n"],
        "short": ["2031-03-04_13-05", "2031-03-04_13-05-08"],
    }
    prefixes = ["", "20", "2031-03-04_", "2031-03-04_13-05-09", "2031-03-04_13-05-09.", "2031-3", "2031-02", "1999", "nope", "."]
    for key, names in name_sets.items():
        keep = list(names)
        for prefix in prefixes:
            for last in [True, False, None, 1, 0]:
                try:
                    r = rm._find_in_dir_names(prefix, names, last)
                    out(f"  _find_in_dir_names({prefix!r}, <{key}>, {last!r}) -> {r!r}")
                except Exception as ex:  # pylint: disable=W0718
                    out(f"  _find_in_dir_names({prefix!r}, <{key}>, {last!r}) -> raised {describe_exc(ex)}")
        out(f"  <{key}> left as it was:", list(names) == keep)
    try:
        out("  default last:", rm._find_in_dir_names("20", name_sets["hours"]))
    except Exception as ex:  # pylint: disable=W0718
        out("  default last raised", describe_exc(ex))
    os.makedirs("unit_archive/runs/2031-03-04_12-59-59")
    os.makedirs("unit_archive/runs/2031-03-04_13-00-00")
    os.makedirs("unit_archive/runs/2031-03-04_13-00-00.0")
    for inst in [
        "2031-03-04_13-00-00",
        "2031-:last",
        "2031-:first",
        "2031-03-04_12:last",
        ":last",
        ":first",
        "2031-:0",
        "2031-:",
        "2031-:last:first",
        "1999:last",
        "",
    ]:
        for base in ["unit_archive/runs", "unit_archive/none"]:
            try:
                out(f"  _find_instance({base!r}, {inst!r}) -> {rm._find_instance(base, inst)!r}")
            except Exception as ex:  # pylint: disable=W0718
                out(f"  _find_instance({base!r}, {inst!r}) -> raised {describe_exc(ex)}")
    for fn in ["_find_last", "_find_first", "_find"]:
        try:
            out(f"  {fn} ->", getattr(rm, fn)("unit_archive/runs", "2031-"))
        except Exception as ex:  # pylint: disable=W0718
            out(f"  {fn} -> raised", describe_exc(ex))

    out("=" * 20, "PART 1c: run coordination state, unit level")
    keys = ["_stop_all", "_fail_all", "_skip_all", "_advance_all", "_current_run_time", "_run_time_str"]
    out("  fresh:", {k: getattr(cp, k) for k in keys})
    try:
        cp.run_time_str()
    except Exception as ex:  # pylint: disable=W0718
        out("  run_time_str() with nothing set -> raised", describe_exc(ex))
    out("  run_time_str('p') ->", cp.run_time_str("p"))
    out("  run_time_str('q') is memoized ->", cp.run_time_str("q"))
    out("  run_time_str() ->", cp.run_time_str())
    out("  archive after run_time_str only:", archive_dirs(), archive_files())
    cp.stop_all()
    cp.fail_all()
    cp.skip_all()
    cp.advance_all(3)
    out("  set:", {k: getattr(cp, k) for k in keys})
    out("  clear returns:", cp.clear_run_coordination())
    out("  cleared:", {k: getattr(cp, k) for k in keys})
    out("  run_time_str('q') ->", cp.run_time_str("q"))
    out("  get_run_time_str ->", rm.get_run_time_str("$q.results.x:last.y", FakeClock.value))
    out("  get_run_time_str str ->", rm.get_run_time_str("q", "some-run"))
    cp.clear_run_coordination()
    out("  archive after run_time_str only:", archive_dirs(), archive_files())


# ===================================================== part 2: scripted runs
def part_scripted():
    out("=" * 20, "PART 2: scripted sequences, full detail")
    seq = [
        # three runs in one second, two groups, new + reused instances
        ("same", "new", "collect_paths", "p", "f"),
        ("same", "reused", "collect_paths", "p", "f"),
        ("same", "reused", "collect_paths", "q", "f"),
        ("same", "new", "fast_forward_paths", "p", "g"),
        # 12:59:59 -> 13:00:00
        ("+1s", "reused", "next_paths_collect", "p", "f"),
        ("+1s", "reused", "collect_by_line", "q", "g"),
        ("same", "new", "collect_by_line", "q", "g"),
    ]
    cp = None
    for s in seq:
        cp = one_run(*s)
        resolve_some(cp)
    dump_archive(full=True)

    out("=" * 20, "PART 2b: references, replay, error cases")
    cp = instance("reused")
    for ref in [
        "$p.results.2031-03-04_12-59-58:last.one",
        "$p.results.2031-03-04_12-59-58.0:last.one",
        "$p.results.2031-03-04_12-59-58.one",
        "$p.results.2031-03-04_12-59-58.1.one",
        "$p.results.2031-03-04_12-59-58.2.one",
        "$p.results.2031-03-04_13:last.one",
        "$p.results.2031-03-04_13:first.two",
        "$p.results.2031-03-04_13:first.2",
        "$p.results.2031-03-04_13:first.nobody",
        "$p.results.2031-03-04_14:last.one",
        "$p.results.2031:0.one",
        "$p.results.2031:latest.one",
        "$p.results.:last.one",
        "$p.variables.2031:last.one",
        "$p.csvpaths.one",
        "$nobody.results.2031:last.one",
        "$q.results.20:last.src",
        "$q.results.20:first.follow",
        "$q.results.20:last.num",
        "$p.results.20:last",
        "p.results.20:last.one",
        "$p#x.results.20:last.one",
    ]:
        resolve(cp, ref)
    for name in ["$p.results.20:last.one", "f", "nobody"]:
        try:
            out("  get_named_file", name, "->", cp.file_manager.get_named_file(name))
        except Exception as ex:  # pylint: disable=W0718
            out("  get_named_file", name, "-> raised", describe_exc(ex))
    # replay: the file is the data of an earlier run, the paths are a tail of the group
    one_run("+1s", "reused", "collect_paths", "$q.csvpaths.follow:from", "$q.results.20:first.src", results_name="q")
    one_run("same", "new", "collect_paths", "$p.csvpaths.two:from", "$p.results.2031-03-04_12:last.one", results_name="p")
    one_run("same", "new", "fast_forward_paths", "$p.csvpaths.one:to", "$p.results.20:first.one", results_name="p")
    # runs that cannot start leave nothing behind
    one_run("same", "reused", "collect_paths", "p", "nobody")
    one_run("same", "reused", "collect_paths", "nobody", "f")
    one_run("same", "new", "fast_forward_paths", "nobody", "f")
    one_run("same", "reused", "collect_by_line", "nobody", "f")
    one_run("same", "reused", "collect_paths", "p", "$p.results.1999:last.one", results_name="p")
    # header-only file
    one_run("+1s", "reused", "collect_paths", "p", "h")
    one_run("same", "reused", "next_by_line", "q", "h")
    resolve_some(instance("reused"))


# ======================================= part 3: clock edges, then random mix
def part_edges():
    out("=" * 20, "PART 3: hour and day boundaries")
    seq = [
        ("to1259", "new", "collect_paths", "p", "f"),
        ("+1s", "reused", "collect_paths", "p", "g"),
        ("same", "new", "next_by_line", "p", "f"),
        ("to2359", "reused", "collect_paths", "p", "f"),
        ("same", "reused", "collect_paths", "q", "f"),
        ("+1s", "new", "collect_paths", "p", "g"),
        ("same", "new", "collect_paths", "q", "g"),
        ("+1s", "reused", "fast_forward_by_line", "q", "f"),
        ("to1259", "reused", "next_paths", "q", "f"),
        ("to13", "new", "next_paths_collect", "q", "g"),
    ]
    cp = None
    for s in seq:
        cp = one_run(*s, verbose=False)
        resolve_some(cp)


def part_random():
    out("=" * 20, "PART 4: seeded random sequences")
    rnd = random.Random(20240610)
    steps = ["same", "same", "+1s", "to13", "to1259", "midnight", "to2359"]
    for n in range(0, 6):
        out("-" * 10, "sequence", n)
        cp = None
        for _ in range(0, rnd.randint(3, 6)):
            cp = one_run(
                rnd.choice(steps),
                rnd.choice(["new", "reused"]),
                rnd.choice(METHODS),
                rnd.choice(["p", "q"]),
                rnd.choice(["f", "g"]),
                verbose=False,
            )
        resolve_some(cp)
    dump_archive(full=False)
    # directory names sort like the order the runs were made in, group by group
    for g in GROUPS:
        made = [d for (gg, d) in ALL_RUNS if gg == g]
        out(f"  {g}: {len(made)} runs, all distinct={len(set(made)) == len(made)}")


if __name__ == "__main__":
    try:
        part_units()
        part_scripted()
        part_edges()
        part_random()
    except Exception:  # pylint: disable=W0718
        out("DEMO FAILED")
        out(traceback.format_exc())
        raise
    out("DONE")
