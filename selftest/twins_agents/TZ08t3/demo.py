# ---------------------------------------------------------------------------
# common harness (inlined in every demo so that each demo.py is standalone)
# ---------------------------------------------------------------------------
import contextlib
import io
import json
import os
import re
import shutil
import sys

if os.environ.get("PYTHONHASHSEED") != "0":
    # lark's error messages list a set of token names. set order follows the
    # string hash seed, so pin it. (nothing else here depends on it.)
    env = dict(os.environ)
    env["PYTHONHASHSEED"] = "0"
    os.execve(sys.executable, [sys.executable] + sys.argv, env)

CONFIG_INI = """[csvpath_files]
extensions = txt, csvpath, csvpaths

[csv_files]
extensions = txt, csv, tsv, dat, tab, psv, ssv

[errors]
csvpath = {csvpath_policy}
csvpaths = {csvpaths_policy}

[logging]
csvpath = info
csvpaths = info
log_file = logs/csvpath.log
log_files_to_keep = 100
log_file_size = 52428800

[config]
path = config/config.ini

[cache]
path = cache

[listeners]
[marquez]
base_url = http://localhost:5000

[functions]
imports = config/functions.imports

[results]
archive = archive
transfers = transfers

[inputs]
files = inputs/named_files
csvpaths = inputs/named_paths
on_unmatched_file_fingerprints = halt
"""

OUT = []


def say(s=""):
    OUT.append(f"{s}")


def write_config(csvpath_policy="collect, fail, print", csvpaths_policy="collect"):
    os.makedirs("config", exist_ok=True)
    with open("config/config.ini", "w", encoding="utf-8") as f:
        f.write(
            CONFIG_INI.format(
                csvpath_policy=csvpath_policy, csvpaths_policy=csvpaths_policy
            )
        )
    if not os.path.exists("config/functions.imports"):
        with open("config/functions.imports", "w", encoding="utf-8") as f:
            f.write("")


def fresh_dirs():
    for d in ["archive", "inputs", "cache", "transfers", "data"]:
        shutil.rmtree(d, ignore_errors=True)


def write_file(path, text):
    d = os.path.dirname(path)
    if d:
        os.makedirs(d, exist_ok=True)
    with open(path, "w", encoding="utf-8", newline="") as f:
        f.write(text)


RUN_RE = re.compile(r"\d{4}-\d{2}-\d{2}_\d{2}-\d{2}-\d{2}(\.\d+)?")
DT_RE = re.compile(r"\d{4}-\d{2}-\d{2}[ T]\d{2}:\d{2}:\d{2}(\.\d+)?(\+00:00)?")
ADDR_RE = re.compile(r"0x[0-9a-fA-F]+")
CWD = os.getcwd()


def norm_str(s):
    s = s.replace(CWD, "<cwd>")
    s = RUN_RE.sub("<RUN>", s)
    s = DT_RE.sub("<DT>", s)
    s = ADDR_RE.sub("0xADDR", s)
    return s


def norm_trace(t):
    """a traceback is reduced to the chain of function names and the last
    line. line numbers of the package source are not behaviour."""
    if t is None:
        return None
    frames = re.findall(r'File "[^"]*", line \d+, in (\S+)', t)
    last = [ln for ln in t.strip().split("\n") if ln.strip() != ""]
    last = last[-1] if last else ""
    return {"frames": frames, "last": norm_str(last)}


VOLATILE = {
    "time",
    "time_completed",
    "time_started",
    "uuid",
    "named_paths_uuid",
    "run_time",
    "lines_time",
    "last_line_time",
    "named_file_last_change",
    "at",
}


def norm_json(o, key=None):
    if isinstance(o, dict):
        r = {}
        for k, v in o.items():
            if k in VOLATILE:
                r[k] = "<volatile>" if v is not None else None
            elif k == "trace":
                r[k] = norm_trace(v)
            elif k == "file_fingerprints" and isinstance(v, dict):
                r[k] = {
                    fk: ("<fp>" if fk in ("meta.json", "errors.json") else fv)
                    for fk, fv in v.items()
                }
            else:
                r[k] = norm_json(v, k)
        return r
    if isinstance(o, list):
        return [norm_json(v) for v in o]
    if isinstance(o, str):
        return norm_str(o)
    return o


def run_sort_key(name):
    m = re.match(r"(\d{4}-\d{2}-\d{2}_\d{2}-\d{2}-\d{2})(?:\.(\d+))?$", name)
    if not m:
        return (1, name, -1)
    return (0, m.group(1), int(m.group(2)) if m.group(2) is not None else -1)


def dump_tree(root):
    """everything under root, run dirs renamed RUN<n> in the order they were made"""
    if not os.path.exists(root):
        say(f"  [{root}: absent]")
        return

    def walk(d, shown, depth):
        names = os.listdir(d)
        runs = sorted([n for n in names if RUN_RE.fullmatch(n)], key=run_sort_key)
        others = sorted([n for n in names if not RUN_RE.fullmatch(n)])
        labelled = [(n, f"RUN{i+1}") for i, n in enumerate(runs)]
        labelled += [(n, n) for n in others]
        for n, label in labelled:
            p = os.path.join(d, n)
            sp = f"{shown}/{label}"
            if os.path.isdir(p):
                say(f"  DIR  {sp}")
                walk(p, sp, depth + 1)
            else:
                say(f"  FILE {sp}")
                show_file(p)

    walk(root, root, 0)


def show_file(p):
    try:
        with open(p, "r", encoding="utf-8", newline="") as f:
            text = f.read()
    except Exception as e:  # pylint: disable=W0718
        say(f"       (unreadable: {type(e).__name__})")
        return
    if p.endswith(".json"):
        try:
            j = json.loads(text)
            text = json.dumps(norm_json(j), sort_keys=True)
        except Exception:  # pylint: disable=W0718
            text = norm_str(text)
    else:
        text = norm_str(text)
    for ln in text.split("\n"):
        say(f"       | {ln!r}" if not p.endswith(".json") else f"       | {ln}")


def show_error(e):
    j = e.to_json() if hasattr(e, "to_json") else {"error": f"{e}"}
    j = norm_json(j)
    return json.dumps(j, sort_keys=True)


def lines_of(result):
    ls = result.lines
    if ls is None:
        return None
    if isinstance(ls, list):
        return [list(x) for x in ls]
    try:
        return [list(x) for x in ls.next()]
    except Exception as e:  # pylint: disable=W0718
        return f"<{type(e).__name__}: {e}>"


def show_results(cp, name):
    try:
        results = cp.results_manager.get_named_results(name)
    except Exception as e:  # pylint: disable=W0718
        say(f"  results: <{type(e).__name__}>")
        return
    say(f"  results: {len(results)}")
    for r in results:
        c = r.csvpath
        say(f"  - identity={r.identity_or_index!r} run_index={r.run_index}")
        say(f"    lines={lines_of(r)}")
        say(f"    unmatched={r.unmatched}")
        say(f"    variables={json.dumps(c.variables, sort_keys=True, default=str)}")
        say(
            f"    valid={r.is_valid} cvalid={c.is_valid} stopped={c.stopped} aborted={c.aborted} completed={c.completed}"
        )
        lm = c.line_monitor
        say(
            f"    scan_count={c.scan_count} match_count={c.match_count} "
            f"line={lm.physical_line_number if lm else None} "
            f"data_line={lm.data_line_number if lm else None} "
            f"end={lm.physical_end_line_number if lm else None} "
            f"data_end={lm.data_end_line_number if lm else None}"
        )
        say(f"    headers={c.headers}")
        say(f"    metadata={json.dumps(norm_json(c.metadata), sort_keys=True)}")
        say(f"    printouts={json.dumps(norm_json(r.get_printouts()), sort_keys=True)}")
        say(f"    errors={len(r.errors)}")
        for e in r.errors:
            say(f"      {show_error(e)}")
    try:
        say(f"  group valid={cp.results_manager.is_valid(name)}")
        say(
            f"  group variables={json.dumps(cp.results_manager.get_variables(name), sort_keys=True, default=str)}"
        )
    except Exception as e:  # pylint: disable=W0718
        say(f"  group: <{type(e).__name__}: {norm_str(str(e))}>")


def describe_exc(e):
    s = f"{type(e).__name__}: {norm_str(str(e))}"
    c = e.__cause__
    while c is not None:
        s += f" <- caused by {type(c).__name__}: {norm_str(str(c))}"
        c = c.__cause__
    return s


def new_csvpaths(**kw):
    from csvpath import CsvPaths

    return CsvPaths(**kw)


METHODS = [
    "collect_paths",
    "fast_forward_paths",
    "next_paths",
    "next_paths_collect",
    "collect_by_line",
    "fast_forward_by_line",
    "next_by_line",
    "next_by_line_collect",
]


def call_method(cp, method, pathsname, filename, **kw):
    """runs one of the eight ways to run a group. returns what came back."""
    if method == "collect_paths":
        return cp.collect_paths(pathsname=pathsname, filename=filename)
    if method == "fast_forward_paths":
        return cp.fast_forward_paths(pathsname=pathsname, filename=filename)
    if method == "next_paths":
        return [list(x) for x in cp.next_paths(pathsname=pathsname, filename=filename)]
    if method == "next_paths_collect":
        return [
            list(x)
            for x in cp.next_paths(pathsname=pathsname, filename=filename, collect=True)
        ]
    if method == "collect_by_line":
        return cp.collect_by_line(pathsname=pathsname, filename=filename, **kw)
    if method == "fast_forward_by_line":
        return cp.fast_forward_by_line(pathsname=pathsname, filename=filename, **kw)
    if method == "next_by_line":
        return [
            list(x)
            for x in cp.next_by_line(pathsname=pathsname, filename=filename, **kw)
        ]
    if method == "next_by_line_collect":
        return [
            list(x)
            for x in cp.next_by_line(
                pathsname=pathsname, filename=filename, collect=True, **kw
            )
        ]
    raise ValueError(method)


def run_case(title, cp, method, pathsname, filename, archive=True, **kw):
    say("=" * 78)
    say(f"CASE {title}: {method} paths={pathsname} file={filename} {kw if kw else ''}")
    buf = io.StringIO()
    ret = None
    exc = None
    with contextlib.redirect_stdout(buf):
        try:
            ret = call_method(cp, method, pathsname, filename, **kw)
        except Exception as e:  # pylint: disable=W0718
            exc = e
    say(f"  returned={ret}")
    say(f"  raised={describe_exc(exc) if exc is not None else None}")
    say("  stdout:")
    for ln in norm_str(buf.getvalue()).split("\n"):
        say(f"    > {ln}")
    show_results(cp, pathsname)
    say(f"  csvpaths errors={len(cp.errors)}")
    for e in cp.errors:
        say(f"    {show_error(e)}")
    say(
        f"  coordination: stop={cp._stop_all} fail={cp._fail_all} skip={cp._skip_all} adv={cp._advance_all} "
        f"rt_set={cp._current_run_time is not None} rts={norm_str(str(cp._run_time_str))}"
    )
    if archive:
        say("  archive:")
        dump_tree("archive")


def standalone(title, pathstr, method="collect"):
    """the same csvpath run by a CsvPath on its own"""
    from csvpath import CsvPath

    say("-" * 78)
    say(f"STANDALONE {title}: {method} {pathstr!r}")
    buf = io.StringIO()
    p = CsvPath()
    ret = None
    exc = None
    with contextlib.redirect_stdout(buf):
        try:
            p.parse(pathstr)
            if method == "collect":
                ret = p.collect()
            elif method == "fast_forward":
                ret = p.fast_forward()
            else:
                ret = [list(x) for x in p.next()]
        except Exception as e:  # pylint: disable=W0718
            exc = e
    say(f"  returned={ret}")
    say(f"  raised={describe_exc(exc) if exc is not None else None}")
    say(f"  variables={json.dumps(p.variables, sort_keys=True, default=str)}")
    say(
        f"  valid={p.is_valid} stopped={p.stopped} scan_count={p.scan_count} match_count={p.match_count}"
    )
    say(f"  errors={[show_error(e) for e in (p.errors or [])]}")
    say("  stdout:")
    for ln in norm_str(buf.getvalue()).split("\n"):
        say(f"    > {ln}")


def finish():
    sys.stdout.write("\n".join(OUT) + "\n")

# ---------------------------------------------------------------------------
# t3 scenarios: breadth-first runs (next_by_line and its two wrappers), with
# csvpaths that stop at different lines, all the flag combinations, several
# orders of each group, and the same groups run serially and standalone
# ---------------------------------------------------------------------------
import itertools

FILES = {
    # blank line, ragged rows, empty values, zeros
    "f": "a,b,c\n1,2,3\n\n4,,6\n7,8\n0,0,0\n9,9,9,9\n5,5,5\n",
    "empty": "",
    "head": "a,b,c\n",
    "tail": "a,b,c\n1,2,3\n\n\n",
    "blankfirst": "\n\na,b,c\n,,\n0,0,0\n",
    "one": "1,2,3\n",
}

GROUPS = {
    # nobody stops before the end of the file
    "plain": [
        '$[*][ yes() @n = count() ]',
        '~id:fours unmatched-mode:keep~ $[*][ #a == "4" @x = #b ]',
        '~name:zeros~ $[1*][ #a == "0" print("zero at $.csvpath.line_number") ]',
    ],
    # everybody stops, at different lines: the run ends before the file does
    "stops": [
        '~id:s3~ $[*][ yes() line_number() == 3 -> stop() ]',
        '~id:s1 unmatched-mode:keep~ $[*][ #a == "1" -> stop() ]',
        '~id:range~ $[1-2][ yes() @r = count() ]',
        '~id:these~ $[0+2+4][ yes() @t = count() ]',
    ],
    # everybody is done by line 1: the run ends there
    "allstop": [
        '~id:r01~ $[0-1][ yes() @r = count() ]',
        '~id:s1~ $[*][ #a == "1" -> stop() ]',
        '~id:l1~ $[1][ yes() print("at $.csvpath.line_number") ]',
    ],
    # one stops, one does not
    "mixed": [
        '~id:early~ $[0-1][ yes() ]',
        '~id:all return-mode:no-matches~ $[*][ #b == "2" ]',
    ],
    "single": ['~id:only~ $[2*][ #a ]'],
    "singlestop": ['~id:only~ $[1][ yes() ]'],
    "norun": [
        '~id:idle run-mode:no-run~ $[*][ yes() @never = "x" ]',
        '~id:busy~ $[*][ #a == "7" @t = count() ]',
    ],
    "allnorun": ['~id:idle run-mode:no-run~ $[*][ yes() ]'],
    "collects": [
        '~id:ca unmatched-mode:keep~ $[*][ #a == "9" collect("a", "c") ]',
        '~id:cb~ $[*][ yes() collect(1) ]',
    ],
    # the cross-path signals. not part of the property but the same code
    "signals": [
        '~id:sk~ $[*][ #a == "4" -> skip_all() yes() ]',
        '~id:ad~ $[*][ #a == "1" -> advance_all(1) yes() ]',
        '~id:fa~ $[*][ #a == "7" -> fail_all() yes() ]',
        '~id:st~ $[*][ #a == "0" -> stop_all() yes() ]',
        '~id:la~ $[*][ yes() @c = count() ]',
    ],
    # errors: a csvpath that cannot be parsed, one that fails on a late line
    "syntax": [
        '~id:good1~ $[*][ #a == "1" ]',
        "~id:broken~ $[*][ yes( ]",
        '~id:good2~ $[*][ yes() ]',
    ],
    "late": [
        '~id:one unmatched-mode:keep~ $[*][ #a == "1" ]',
        '~id:u unmatched-mode:keep~ $[1*][ #a == "1" @d = divide(6, int(#c)) ]',
        '~id:three~ $[*][ yes() @t = count() ]',
    ],
    "preceding": [
        '~id:src~ $[*][ #a == "1" ]',
        '~id:pre source-mode:preceding~ $[*][ yes() ]',
    ],
}

FLAGS = [
    {},
    {"if_all_agree": True},
    {"collect_when_not_matched": True},
    {"if_all_agree": True, "collect_when_not_matched": True},
]
BYLINE = ["collect_by_line", "fast_forward_by_line", "next_by_line", "next_by_line_collect"]
SERIAL = ["collect_paths", "fast_forward_paths", "next_paths_collect"]


def setup(extra_groups=None):
    fresh_dirs()
    cp = new_csvpaths()
    for name, text in FILES.items():
        write_file(f"data/{name}.csv", text)
        cp.file_manager.add_named_file(name=name, path=f"data/{name}.csv")
    for name, paths in GROUPS.items():
        cp.paths_manager.add_named_paths(name=name, paths=paths)
    cp.paths_manager.add_named_paths(name="nopaths", paths=[])
    return cp


def block(title, csvpath_policy, csvpaths_policy, groups, files, flags, orders=False):
    say("#" * 78)
    say(f"BLOCK {title}: csvpath policy [{csvpath_policy}] csvpaths policy [{csvpaths_policy}]")
    write_config(csvpath_policy=csvpath_policy, csvpaths_policy=csvpaths_policy)
    cp = setup()
    n = 0
    for group in groups:
        for fname in files:
            for k, fl in enumerate(flags):
                for method in BYLINE:
                    if k >= 2 and method in ("fast_forward_by_line", "next_by_line_collect"):
                        continue
                    n += 1
                    run_case(f"{title}.{n}", cp, method, group, fname, archive=False, **fl)
            for method in SERIAL:
                n += 1
                run_case(f"{title}.{n}", cp, method, group, fname, archive=False)
    if orders:
        # every order of the two groups where the order decides when the run ends
        for group in ["stops", "plain", "allstop"]:
            for k, perm in enumerate(itertools.permutations(GROUPS[group])):
                if k == 0:
                    continue
                name = f"{group}_o{k}"
                cp.paths_manager.add_named_paths(name=name, paths=list(perm))
                for fl in [{}, {"if_all_agree": True}]:
                    n += 1
                    run_case(f"{title}.{n}", cp, "collect_by_line", name, "f", archive=False, **fl)
    # names that are not there, a group with nothing in it
    for method in BYLINE:
        for group, fname in [("plain", "nosuchfile"), ("nosuchpaths", "f"), ("nopaths", "f")]:
            n += 1
            run_case(f"{title}.{n}", cp, method, group, fname, archive=False)
    # a caller who stops listening part way, then runs again on the same instance
    say("=" * 78)
    say(f"CASE {title}.gen: next_by_line closed early, then run again")
    buf = io.StringIO()
    with contextlib.redirect_stdout(buf):
        gen = cp.next_by_line(pathsname="plain", filename="f", collect=True)
        got = [list(next(gen)) for _ in range(3)]
        gen.close()
    say(f"  got={got}")
    show_results(cp, "plain")
    run_case(f"{title}.again", cp, "collect_by_line", "plain", "f", archive=False)
    say("ARCHIVE after block")
    dump_tree("archive")


def other_dialect():
    say("#" * 78)
    say("BLOCK dialect: a CsvPaths reading with ; and '")
    write_config()
    fresh_dirs()
    cp = new_csvpaths(delimiter=";", quotechar="'", skip_blank_lines=False)
    write_file("data/semi.csv", "a;b;c\n1;'x;y';3\n\n4;;6\n0;0;0\n")
    cp.file_manager.add_named_file(name="semi", path="data/semi.csv")
    cp.paths_manager.add_named_paths(
        name="semi",
        paths=['~id:q~ $[*][ #b == "x;y" ]', '~id:z unmatched-mode:keep~ $[1*][ #a == "0" ]'],
    )
    for fl in FLAGS:
        run_case("dialect", cp, "collect_by_line", "semi", "semi", archive=False, **fl)
    run_case("dialect", cp, "collect_paths", "semi", "semi", archive=False)
    say("ARCHIVE after block")
    dump_tree("archive")


def main():
    block(
        "collect",
        "collect, fail, print",
        "collect",
        groups=[g for g in GROUPS if g != "preceding"],
        files=["f"],
        flags=FLAGS,
        orders=True,
    )
    block(
        "files",
        "collect, fail, print",
        "collect",
        groups=["plain", "stops", "mixed", "singlestop", "collects"],
        files=["empty", "head", "tail", "blankfirst", "one"],
        flags=[{}, {"if_all_agree": True}],
    )
    block(
        "raise",
        "raise, collect, stop, fail, print",
        "raise, collect",
        groups=["stops", "signals", "syntax", "late", "preceding", "norun"],
        files=["f"],
        flags=[{}, {"if_all_agree": True}],
    )
    other_dialect()
    say("#" * 78)
    write_config()
    write_file("data/f.csv", FILES["f"])
    for g in ["plain", "stops", "mixed", "collects"]:
        for i, pth in enumerate(GROUPS[g]):
            j = pth.find("[")
            standalone(f"{g}[{i}]", pth[:j] + "data/f.csv" + pth[j:], "collect")
    finish()


main()
