#!/usr/bin/env python
# demo for t1 (memo of parsed results references in ResultsManager.data_file_for_reference)
# the changed code runs wherever a "$group.results..." reference is resolved: all of
# section C (every reference is resolved three times in a row on one ResultsManager,
# again after each new run so that :last/:first must move, on a second CsvPaths
# instance, with unparsable / non-results / empty / None references, and through
# collect_paths / next_paths / fast_forward_paths / collect_by_line replays whose
# _load_csvpath resolves the same string once per csvpath). sections A, B and D are
# the regression net for everything else that shares the ResultsManager.
"""
Differential demonstration for property C20:
  "Data and values flow between csvpaths as declared"

The script is self-contained. Run it with cwd set to an EMPTY scratch directory:

    mkdir /tmp/demo_x && cd /tmp/demo_x
    PYTHONPATH=<csvpath checkout> /venv/bin/python /path/to/demo.py > out.txt 2> err.txt

It writes ./config/config.ini itself (offline: no OpenLineage listeners), creates its
own CSV files, runs named-paths groups through CsvPaths and prints a deterministic
transcript of everything observable: returned lines, variables, validity, errors,
printouts, and the listing and contents of ./archive. Run directory names, times,
uuids, elapsed-time figures and the fingerprints of files that contain times are
normalised. The "trace" of a collected error is reduced to its last line (the
exception) because tracebacks carry source line numbers, which any edit shifts.

The transcript of a csvpath checkout with a behaviour-preserving change must be
byte-identical to the transcript of unmodified HEAD.
"""
import os
import sys
import re
import json
import shutil
import datetime
import time
import io
import contextlib

CONFIG = """[csvpath_files]
extensions = txt, csvpath, csvpaths

[csv_files]
extensions = txt, csv, tsv, dat, tab, psv, ssv

[errors]
csvpath = {csvpath_policy}
csvpaths = {csvpaths_policy}

[logging]
csvpath = info
csvpaths = info
log_file = logs/csvpath.log
log_files_to_keep = 100
log_file_size = 52428800

[config]
path = config/config.ini

[cache]
path = cache

[listeners]
[marquez]
base_url = http://localhost:5000

[functions]
imports = config/functions.imports

[results]
archive = archive
transfers = transfers

[inputs]
files = inputs/named_files
csvpaths = inputs/named_paths
on_unmatched_file_fingerprints = halt
"""

POLICY_RAISE = ("raise, collect, stop, fail, print", "raise, collect")
POLICY_COLLECT = ("collect, fail, print", "collect")

CWD = os.getcwd()


def out(*args) -> None:
    print(*args)
    sys.stdout.flush()


def set_policy(policy) -> None:
    os.makedirs("config", exist_ok=True)
    with open("config/config.ini", "w", encoding="utf-8") as f:
        f.write(CONFIG.format(csvpath_policy=policy[0], csvpaths_policy=policy[1]))
    if not os.path.exists("config/functions.imports"):
        with open("config/functions.imports", "w", encoding="utf-8") as f:
            f.write("")


# ----------------------------------------------------------------------------
# normalisation
# ----------------------------------------------------------------------------

RUN_RE = r"\d{4}-\d\d-\d\d_\d\d-\d\d-\d\d(?:\.\d+)?"
STAMP = "%Y-%m-%d_%H-%M-%S"


def _run_key(x):
    t, dot, n = x.partition(".")
    return (datetime.datetime.strptime(t, STAMP), int(n) if dot else -1)


def run_dirs(group):
    d = os.path.join("archive", group)
    if not os.path.isdir(d):
        return []
    names = [n for n in os.listdir(d) if re.fullmatch(RUN_RE, n)]
    return sorted(names, key=_run_key)


def norm(s) -> str:
    s = f"{s}"
    s = s.replace(CWD, "<CWD>")

    def _sub(m):
        group, run = m.group(1), m.group(2)
        names = run_dirs(group)
        k = names.index(run) + 1 if run in names else "?"
        return f"archive/{group}/<RUN-{k}>"

    s = re.sub(r"archive/([^/\s\"']+)/(" + RUN_RE + ")", _sub, s)
    s = re.sub(RUN_RE, "<RUNSTAMP>", s)
    s = re.sub(
        r"\d{4}-\d\d-\d\d[ T]\d\d:\d\d:\d\d(?:\.\d+)?(?:\+00:00)?", "<TIME>", s
    )
    s = re.sub(
        r"[0-9a-f]{8}-[0-9a-f]{4}-[0-9a-f]{4}-[0-9a-f]{4}-[0-9a-f]{12}", "<UUID>", s
    )
    s = re.sub(r" at 0x[0-9a-f]+", " at 0x<ADDR>", s)
    return s


# files whose content carries times, uuids or object addresses. their content
# is shown (normalised) but their fingerprints cannot be compared
VOLATILE_FINGERPRINTS = ("meta.json", "errors.json", "manifest.json", "printouts.txt")


def mask(obj, key=None):
    if isinstance(obj, dict):
        ret = {}
        for k, v in obj.items():
            if k == "trace":
                ret[k] = last_line(v)
            elif k == "file_fingerprints" and isinstance(v, dict):
                ret[k] = {
                    a: ("<FINGERPRINT>" if a in VOLATILE_FINGERPRINTS else b)
                    for a, b in v.items()
                }
            elif "time" in f"{k}" or k in ("uuid", "named_paths_uuid", "at"):
                ret[k] = None if v is None else "<MASKED>"
            elif k == "named_file_last_change":
                ret[k] = None if v is None else "<MASKED>"
            else:
                ret[k] = mask(v, k)
        return ret
    if isinstance(obj, list):
        return [mask(_) for _ in obj]
    return obj


def last_line(trace) -> str:
    if trace is None:
        return None
    ls = [_ for _ in f"{trace}".split("\n") if _.strip() != ""]
    return ls[-1] if ls else ""


def describe_exception(ex) -> str:
    s = f"{ex.__class__.__name__}: {norm(ex)}"
    c = ex.__cause__
    depth = 0
    while c is not None and depth < 5:
        s = f"{s}\n      caused by {c.__class__.__name__}: {norm(c)}"
        c = c.__cause__
        depth += 1
    return s


def attempt(label, fn):
    """runs fn. whatever csvpath itself prints to stdout while fn runs (the
    default printer, error printouts) is captured and shown normalised."""
    out(f"--> {label}")
    buf = io.StringIO()
    ret = None
    raised = None
    with contextlib.redirect_stdout(buf):
        try:
            ret = fn()
        except Exception as ex:  # pylint: disable=W0718
            raised = ex
    text = buf.getvalue()
    if text != "":
        for line in norm(text).split("\n"):
            out(f"    stdout| {line}")
    if raised is not None:
        out(f"    RAISED {describe_exception(raised)}")
        return None
    if ret is not None:
        out(f"    returned: {norm(repr(ret))}")
    return ret


# ----------------------------------------------------------------------------
# showing things
# ----------------------------------------------------------------------------


def show_error(e) -> str:
    return (
        f"{e.error.__class__.__name__}: {norm(e.error)} "
        f"[line {e.line_count}, match {e.match_count}, scan {e.scan_count}, "
        f"file {norm(e.filename)}]"
    )


def show_results(cp, name) -> None:
    out(f"    results of '{name}':")
    try:
        results = cp.results_manager.get_named_results(name)
    except Exception as ex:  # pylint: disable=W0718
        out(f"      RAISED {ex.__class__.__name__}: {norm(ex)}")
        return
    rm = cp.results_manager
    out(f"      number of results: {rm.get_number_of_results(name)}")
    out(f"      has_lines: {rm.has_lines(name)}")
    out(f"      is_valid: {rm.is_valid(name)}")
    out(f"      has_errors: {rm.has_errors(name)}")
    out(f"      get_variables: {norm(rm.get_variables(name))}")
    last = rm.get_last_named_result(name=name)
    out(f"      last result: {last.identity_or_index if last is not None else None}")
    for r in results:
        out(f"      - instance {r.identity_or_index} (run_index {r.run_index})")
        out(f"        identity lookup is same object: {rm.get_specific_named_result(name, r.csvpath.identity) is r}")
        out(f"        paths_name: {norm(r.paths_name)}; file_name: {norm(r.file_name)}")
        out(f"        valid: {r.is_valid}; csvpath.is_valid: {r.csvpath.is_valid}; stopped: {r.csvpath.stopped}")
        out(f"        source_mode_preceding: {r.source_mode_preceding}")
        out(f"        data_from_preceding: {r.csvpath.data_from_preceding}")
        out(f"        actual_data_file: {norm(r.actual_data_file)}")
        out(f"        origin_data_file: {norm(r.origin_data_file)}")
        out(f"        data_file_path: {norm(r.data_file_path)}")
        out(f"        scanner file: {norm(r.csvpath.scanner.filename if r.csvpath.scanner else None)}")
        out(f"        delimiter/quotechar: {r.csvpath.delimiter!r} {r.csvpath.quotechar!r}")
        out(f"        metadata: {norm(r.csvpath.metadata)}")
        out(f"        len(lines): {len(r.lines)}")
        lines = None
        try:
            lines = list(r.lines.next())
        except Exception as ex:  # pylint: disable=W0718
            lines = f"RAISED {ex.__class__.__name__}: {norm(ex)}"
        out(f"        lines: {lines}")
        out(f"        unmatched: {r.unmatched}")
        out(f"        variables: {norm(r.csvpath.variables)}")
        out(f"        all_variables: {norm(r.all_variables)}")
        out(f"        counts: lines {r.csvpath.line_monitor.physical_line_count if r.csvpath.line_monitor else None} matches {r.csvpath.match_count} scans {r.csvpath.scan_count}")
        out(f"        errors ({r.errors_count}):")
        for e in r.errors:
            out(f"          {show_error(e)}")
        out(f"        printouts: {norm(r.get_printouts())}")


_SEEN_RUNS = set()


def show_archive(only_new=True) -> None:
    """prints the listing and the contents of every run dir not shown before"""
    out("    archive:")
    if not os.path.isdir("archive"):
        out("      (no archive)")
        return
    for group in sorted(os.listdir("archive")):
        gd = os.path.join("archive", group)
        if not os.path.isdir(gd):
            continue
        names = run_dirs(group)
        others = sorted(set(os.listdir(gd)) - set(names))
        out(f"      group {group}: {len(names)} run dirs; other entries: {others}")
        for k, run in enumerate(names):
            key = (group, run)
            if only_new and key in _SEEN_RUNS:
                continue
            _SEEN_RUNS.add(key)
            rd = os.path.join(gd, run)
            for root, dirs, files in os.walk(rd):
                dirs.sort()
                for f in sorted(files):
                    show_file(os.path.join(root, f))


def show_file(path) -> None:
    out(f"      FILE {norm(path)}")
    try:
        with open(path, "r", encoding="utf-8") as f:
            text = f.read()
    except Exception as ex:  # pylint: disable=W0718
        out(f"        unreadable: {ex.__class__.__name__}")
        return
    if path.endswith(".json"):
        try:
            j = json.loads(text)
            text = json.dumps(mask(j), indent=1)
        except Exception as ex:  # pylint: disable=W0718
            out(f"        not json: {ex.__class__.__name__}")
    text = norm(text)
    if text == "":
        out("        (empty)")
    for line in text.split("\n"):
        out(f"        | {line}")


def show_root_manifest() -> None:
    p = os.path.join("archive", "manifest.json")
    if os.path.exists(p):
        show_file(p)


def write(path, text) -> str:
    with open(path, "w", encoding="utf-8", newline="") as f:
        f.write(text)
    return path


def fresh_dirs() -> None:
    _SEEN_RUNS.clear()
    for d in ("archive", "inputs", "cache", "logs", "transfers", "data"):
        if os.path.exists(d):
            shutil.rmtree(d)
    os.makedirs("data", exist_ok=True)


# ----------------------------------------------------------------------------
# data
# ----------------------------------------------------------------------------

FILES = {
    # plain: header + values incl. empty values and zeros
    "plain": "a,b,c\n1,x,10\n2,,20\n3,z,0\n0,w,30\n5,,\n6,y,60\n",
    # blank lines, ragged rows, quoted commas, quoted newline-free text, trailing blank
    "ragged": 'a,b,c\n1,x,10\n\n2,,20\n3,z\n0,w,0,extra,more\n"4","q,r",40\n\n,,\n7\n"8","say ""hi""",80\n\n',
    # header only
    "headeronly": "a,b,c\n",
    # a second file with the same header but other values: used to re-run groups
    "other": "a,b,c\n9,k,90\n0,,0\n8,m,\n",
    # zero bytes
    "zerobytes": "",
}

SEMI = "a;b;c\n1;'x;y';10\n2;;20\n\n3;z\n0;w;0;extra\n"

# a pool of filters. %s is where source-mode goes
FILTERS = [
    "~ id:first %s ~ $[*][ #b ]",
    '~ id:second %s ~ $[*][ or(#a=="a", #c) ]',
    '~ name:third %s ~ $[*][ not(#a=="0") push("as", #a) ]',
    "~ %s ~ $[*][ @k = count() yes() ]",
]


def chain(n, s):
    """n members; members with index >= s are source-mode: preceding"""
    paths = []
    for i in range(n):
        mode = "source-mode:preceding" if i >= s else ""
        paths.append(FILTERS[i] % mode)
    return paths


def make_paths(policy, **kw):
    from csvpath import CsvPaths

    set_policy(policy)
    cp = CsvPaths(**kw)
    for name, text in FILES.items():
        write(f"data/{name}.csv", text)
        cp.file_manager.add_named_file(name=name, path=f"data/{name}.csv")
    return cp


def drain(gen):
    return [list(_) if isinstance(_, list) else _ for _ in gen]


# ----------------------------------------------------------------------------
# A. chains of 2-4 filters, source-mode: preceding on every suffix, several files
# ----------------------------------------------------------------------------


def section_a():
    out("=" * 70)
    out("A. serial chains with source-mode: preceding on a suffix")
    cp = make_paths(POLICY_RAISE)
    shapes = [(2, 1), (3, 1), (3, 2), (4, 1), (4, 2), (4, 3), (3, 3)]
    for n, s in shapes:
        name = f"chain{n}{s}"
        cp.paths_manager.add_named_paths(name=name, paths=chain(n, s))
    for fname in ("plain", "ragged", "headeronly"):
        for n, s in shapes:
            name = f"chain{n}{s}"
            attempt(
                f"collect_paths {name} on {fname}",
                lambda: cp.collect_paths(filename=fname, pathsname=name),
            )
            show_results(cp, name)
            show_archive()
    #
    # the other serial methods
    #
    attempt(
        "fast_forward_paths chain42 on ragged",
        lambda: cp.fast_forward_paths(filename="ragged", pathsname="chain42"),
    )
    show_results(cp, "chain42")
    show_archive()
    for collect in (True, False):
        attempt(
            f"next_paths chain31 on ragged collect={collect}",
            lambda: drain(
                cp.next_paths(filename="ragged", pathsname="chain31", collect=collect)
            ),
        )
        show_results(cp, "chain31")
        show_archive()
    attempt(
        "collect_paths chain21 on zerobytes",
        lambda: cp.collect_paths(filename="zerobytes", pathsname="chain21"),
    )
    show_results(cp, "chain21")
    show_archive()
    #
    # repeated runs of the same group on the same instance, with the file
    # rewritten at the same path and registered again in between
    #
    for i in range(3):
        text = FILES["plain"] + "".join(f"{10 + j},r{i},{j}\n" for j in range(i + 1))
        write("data/plain.csv", text)
        cp.file_manager.add_named_file(name="plain", path="data/plain.csv")
        attempt(
            f"collect_paths chain32 on rewritten plain #{i}",
            lambda: cp.collect_paths(filename="plain", pathsname="chain32"),
        )
        show_results(cp, "chain32")
        show_archive()
    #
    # first member asks for its predecessor's data; by_line with preceding
    #
    cp.paths_manager.add_named_paths(
        name="firstpreceding",
        paths=[
            "~ id:alpha source-mode:preceding ~ $[*][ yes() ]",
            "~ id:beta source-mode:preceding ~ $[*][ #a ]",
        ],
    )
    attempt(
        "collect_paths firstpreceding on plain (raise policy)",
        lambda: cp.collect_paths(filename="plain", pathsname="firstpreceding"),
    )
    show_results(cp, "firstpreceding")
    show_archive()
    attempt(
        "collect_by_line chain21 on plain",
        lambda: cp.collect_by_line(filename="plain", pathsname="chain21"),
    )
    show_results(cp, "chain21")
    show_archive()
    cp2 = make_paths(POLICY_COLLECT)
    cp2.paths_manager.add_named_paths(
        name="firstpreceding",
        paths=[
            "~ id:alpha source-mode:preceding ~ $[*][ yes() ]",
            "~ id:beta source-mode:preceding ~ $[*][ #a ]",
        ],
    )
    attempt(
        "collect_paths firstpreceding on plain (collect policy)",
        lambda: cp2.collect_paths(filename="plain", pathsname="firstpreceding"),
    )
    show_results(cp2, "firstpreceding")
    show_archive()
    attempt(
        "next_paths firstpreceding on ragged (collect policy)",
        lambda: drain(
            cp2.next_paths(filename="ragged", pathsname="firstpreceding", collect=True)
        ),
    )
    show_results(cp2, "firstpreceding")
    show_archive()
    #
    # another dialect: data.csv is written and read back with it
    #
    cp3 = make_paths(POLICY_RAISE, delimiter=";", quotechar="'")
    write("data/semi.csv", SEMI)
    cp3.file_manager.add_named_file(name="semi", path="data/semi.csv")
    cp3.paths_manager.add_named_paths(name="semichain", paths=chain(3, 1))
    attempt(
        "collect_paths semichain on semi (delimiter ; quotechar ')",
        lambda: cp3.collect_paths(filename="semi", pathsname="semichain"),
    )
    show_results(cp3, "semichain")
    show_archive()
    cp3.paths_manager.add_named_paths(
        name="semiuse",
        paths=['$[1][ @bs = $semichain.headers.b.second @n = $semichain.variables.as ]'],
    )
    attempt(
        "collect_paths semiuse on semi",
        lambda: cp3.collect_paths(filename="semi", pathsname="semiuse"),
    )
    show_results(cp3, "semiuse")
    show_archive()


# ----------------------------------------------------------------------------
# B. variable and header references after 1-3 runs of the referenced group
# ----------------------------------------------------------------------------

SRC = [
    """~ id:s1 ~ $[1*][ @v = count() @w = "one" @zero = 0 @empty = "" @n = none()
                        track.bya(#a, #b) push("bs", #b) ]""",
    """~ id:s2 ~ $[1*][ @w = "two" @only2 = count_lines() #c ]""",
]

SOLO = ["""~ id:solo ~ $[*][ @total = count() #b ]"""]

USE_VARS = [
    """~ id:usevars ~ $[1][
        @got_v = $src.variables.v
        @got_w = $src.variables.w
        @got_zero = $src.variables.zero
        @got_empty = $src.variables.empty
        @got_n = $src.variables.n
        @got_only2 = $src.variables.only2
        @got_bs = $src.variables.bs
        @got_bya = $src.variables.bya
        @got_bya_1 = $src.variables.bya.1
        @got_bya_0 = $src.variables.bya.0
        @got_bya_nokey = $src.variables.bya.nokey
        @got_total = $solo.variables.total
        print("v=$.variables.got_v w=$.variables.got_w bya1=$.variables.got_bya_1 total=$.variables.got_total")
    ]"""
]

USE_VARS_EVERY_LINE = [
    """~ id:everyline ~ $[*][
        @x = $src.variables.v
        @y = $src.variables.bya.nokey
        push("xs", @x)
        push("ys", @y)
    ]"""
]

USE_HEADERS = [
    """~ id:useheaders ~ $[1][
        @solo_b = $solo.headers.b
        @solo_a = $solo.headers.a
        @solo_c = $solo.headers.c
        @s1_b = $src.headers.b.s1
        @s2_c = $src.headers.c.s2
        @has = in("x", $solo.headers.b)
        @hasnt = in("nope", $solo.headers.b)
        print("solo_b=$.variables.solo_b s2_c=$.variables.s2_c")
    ]"""
]

BAD_USES = {
    "unknownvar": "$[1][ @x = $src.variables.nosuchvar ]",
    "unknowngroup": "$[1][ @x = $nosuchgroup.variables.v ]",
    "toomany": "$[1][ @x = $src.headers.b ]",
    "unknowntracking": "$[1][ @x = $src.headers.b.nosuchid ]",
    "unknownheader": "$[1][ @x = $solo.headers.nosuchheader ]",
    "nolines": "$[1][ @x = $ffonly.headers.b ]",
    "trackingonscalar": "$[1][ @x = $src.variables.v.key ]",
    "trackingonstring": "$[1][ @x = $src.variables.w.o ]",
    "csvpathstype": "$[1][ @x = $src.csvpaths.s1 ]",
    "metadatatype": "$[1][ @x = $src.metadata.id ]",
}


def section_b():
    out("=" * 70)
    out("B. variable and header references")
    for policy, pname in ((POLICY_RAISE, "raise"), (POLICY_COLLECT, "collect")):
        out(f"---- policy {pname}")
        cp = make_paths(policy)
        pm = cp.paths_manager
        pm.add_named_paths(name="src", paths=SRC)
        pm.add_named_paths(name="solo", paths=SOLO)
        pm.add_named_paths(name="usevars", paths=USE_VARS)
        pm.add_named_paths(name="everyline", paths=USE_VARS_EVERY_LINE)
        pm.add_named_paths(name="useheaders", paths=USE_HEADERS)
        pm.add_named_paths(name="ffonly", paths=["~ id:ff ~ $[*][ #b ]"])
        for k, v in BAD_USES.items():
            pm.add_named_paths(name=k, paths=[v])
        attempt(
            "usevars before src ever ran",
            lambda: cp.collect_paths(filename="plain", pathsname="usevars"),
        )
        show_results(cp, "usevars")
        runs = ["plain", "ragged", "other"]
        for i, fname in enumerate(runs):
            attempt(
                f"run #{i + 1} of src, on {fname}",
                lambda: cp.collect_paths(filename=fname, pathsname="src"),
            )
            show_results(cp, "src")
            attempt(
                f"run #{i + 1} of solo, on {fname}",
                lambda: cp.collect_paths(filename=fname, pathsname="solo"),
            )
            show_results(cp, "solo")
            for user in ("usevars", "everyline", "useheaders"):
                attempt(
                    f"collect_paths {user} after run #{i + 1}",
                    lambda: cp.collect_paths(filename="plain", pathsname=user),
                )
                show_results(cp, user)
            if i == 0:
                attempt(
                    "fast_forward_paths usevars after run #1",
                    lambda: cp.fast_forward_paths(
                        filename="ragged", pathsname="usevars"
                    ),
                )
                show_results(cp, "usevars")
                attempt(
                    "next_paths useheaders after run #1",
                    lambda: drain(
                        cp.next_paths(
                            filename="ragged", pathsname="useheaders", collect=True
                        )
                    ),
                )
                show_results(cp, "useheaders")
        attempt(
            "fast_forward_paths ffonly on plain",
            lambda: cp.fast_forward_paths(filename="plain", pathsname="ffonly"),
        )
        for k in BAD_USES:
            attempt(
                f"collect_paths {k} on plain",
                lambda: cp.collect_paths(filename="plain", pathsname=k),
            )
            show_results(cp, k)
        #
        # a standalone csvpath made by the CsvPaths uses the same references
        #
        path = cp.csvpath()
        attempt(
            "standalone csvpath with references",
            lambda: path.parse(
                '$data/plain.csv[1-2][ @sv = $src.variables.v @sh = $solo.headers.b @m = $src.variables.bya.nokey ]'
            ).collect(),
        )
        out(f"    standalone variables: {norm(path.variables)}; valid {path.is_valid}")
        #
        # src is re-run by fast_forward: variables are there, lines are not
        #
        attempt(
            "fast_forward_paths src on other",
            lambda: cp.fast_forward_paths(filename="other", pathsname="src"),
        )
        show_results(cp, "src")
        for user in ("usevars", "useheaders"):
            attempt(
                f"collect_paths {user} after fast-forwarded src",
                lambda: cp.collect_paths(filename="plain", pathsname=user),
            )
            show_results(cp, user)
        show_archive()
        show_root_manifest()
        #
        # a new CsvPaths over the same archive has no results in memory
        #
        from csvpath import CsvPaths

        cpn = CsvPaths()
        cpn.paths_manager.add_named_paths(name="usevars", paths=USE_VARS)
        attempt(
            "new CsvPaths instance: usevars",
            lambda: cpn.collect_paths(filename="plain", pathsname="usevars"),
        )
        show_results(cpn, "usevars")
        fresh_dirs()


# ----------------------------------------------------------------------------
# C. results references used as file names
# ----------------------------------------------------------------------------


def section_c():
    out("=" * 70)
    out("C. results references as file names")
    cp = make_paths(POLICY_RAISE)
    rm = cp.results_manager
    pm = cp.paths_manager
    pm.add_named_paths(name="grp", paths=chain(3, 2))
    pm.add_named_paths(
        name="replayer",
        paths=["~ id:r1 ~ $[*][ yes() ]", "~ id:r2 source-mode:preceding ~ $[*][ #a ]"],
    )
    pm.add_named_paths(name="ffgrp", paths=["~ id:ff ~ $[*][ yes() ]"])
    refs = [
        "$grp.results.20:last.first",
        "$grp.results.20:first.first",
        "$grp.results.20:last.second",
        "$grp.results.20:first.third",
        "$grp.results.2:last.first",
        "$grp.results.:last.first",
        "$grp.results.1999:last.first",
        "$grp.results.20:last.nosuch",
        "$grp.results.20:middle.first",
        "$grp.results.20:last",
        "$nosuch.results.20:last.first",
        "$grp.variables.as.x",
        "$grp.headers.a",
        "$grp.csvpaths.first",
        "$grp.nonsense.x.y",
        "$ffgrp.results.20:last.ff",
        "$grp#first.results.20:last.first",
        "nodollar.results.20:last.first",
        "$",
        "",
        None,
    ]

    def resolve_all(label):
        out(f"    -- resolving references {label}")
        for ref in refs:
            for i in range(3):
                attempt(
                    f"data_file_for_reference({ref!r}) call {i + 1}",
                    lambda: rm.data_file_for_reference(ref),
                )
            if isinstance(ref, str):
                attempt(
                    f"get_named_file({ref!r})",
                    lambda: cp.file_manager.get_named_file(ref),
                )

    resolve_all("before any run")
    for i, fname in enumerate(("plain", "ragged", "other")):
        #
        # a run dir made within the same second as another gets a .N suffix and a
        # name with a dot cannot be written in a reference. wait so that each of
        # these runs gets a plain name, whatever the speed of the machine.
        #
        time.sleep(1.1)
        attempt(
            f"run #{i + 1} of grp on {fname}",
            lambda: cp.collect_paths(filename=fname, pathsname="grp"),
        )
        show_results(cp, "grp")
        if i == 0:
            attempt(
                "fast_forward_paths ffgrp on plain",
                lambda: cp.fast_forward_paths(filename="plain", pathsname="ffgrp"),
            )
        resolve_all(f"after run #{i + 1}")
        exact = run_dirs("grp")[-1]
        attempt(
            f"data_file_for_reference(exact run dir name of run #{i + 1})",
            lambda: rm.data_file_for_reference(f"$grp.results.{exact}.second"),
        )
        for ref in (
            "$grp.results.20:last.first",
            "$grp.results.20:first.second",
            f"$grp.results.{exact}.third",
            "$grp.results.20:last.nosuch",
            "$ffgrp.results.20:last.ff",
        ):
            attempt(
                f"collect_paths replayer on {norm(ref)}",
                lambda: cp.collect_paths(filename=ref, pathsname="replayer"),
            )
            show_results(cp, "replayer")
        attempt(
            "next_paths replayer on $grp.results.20:last.third",
            lambda: drain(
                cp.next_paths(
                    filename="$grp.results.20:last.third",
                    pathsname="replayer",
                    collect=True,
                )
            ),
        )
        show_results(cp, "replayer")
        attempt(
            "fast_forward_paths replayer on $grp.results.20:first.first",
            lambda: cp.fast_forward_paths(
                filename="$grp.results.20:first.first", pathsname="replayer"
            ),
        )
        show_results(cp, "replayer")
        show_archive()
    #
    # a group that replays its own last run, and a replay from a member on
    #
    attempt(
        "collect_paths grp on its own last run's first member",
        lambda: cp.collect_paths(
            filename="$grp.results.20:last.first", pathsname="grp"
        ),
    )
    show_results(cp, "grp")
    show_archive()
    attempt(
        "collect_paths $grp.csvpaths.second:from on $grp.results.20:first.first",
        lambda: cp.collect_paths(
            filename="$grp.results.20:first.first",
            pathsname="$grp.csvpaths.second:from",
        ),
    )
    show_results(cp, "grp")
    show_results(cp, "$grp.csvpaths.second:from")
    show_archive()
    attempt(
        "collect_by_line replayer on $grp.results.20:first.first",
        lambda: cp.collect_by_line(
            filename="$grp.results.20:first.first", pathsname="replayer"
        ),
    )
    show_results(cp, "replayer")
    show_archive()
    resolve_all("at the end")
    #
    # junk in the group's directory
    #
    os.makedirs("archive/grp/not-a-run", exist_ok=True)
    attempt(
        "data_file_for_reference with a junk dir that does not match the prefix",
        lambda: rm.data_file_for_reference("$grp.results.20:last.first"),
    )
    attempt(
        "data_file_for_reference with a junk dir that matches the prefix",
        lambda: rm.data_file_for_reference("$grp.results.n:last.first"),
    )
    shutil.rmtree("archive/grp/not-a-run")
    #
    # a new CsvPaths instance resolves the same references from disk
    #
    from csvpath import CsvPaths

    cpn = CsvPaths()
    for ref in refs[0:6]:
        for i in range(2):
            attempt(
                f"new instance data_file_for_reference({ref!r}) call {i + 1}",
                lambda: cpn.results_manager.data_file_for_reference(ref),
            )
    show_root_manifest()


# ----------------------------------------------------------------------------
# D. the helpers, directly
# ----------------------------------------------------------------------------


def section_d():
    out("=" * 70)
    out("D. helpers called directly")
    from csvpath.matching.productions import Reference
    from csvpath.util.reference_parser import ReferenceParser

    cp = make_paths(POLICY_RAISE)
    rm = cp.results_manager
    names = [
        "2024-03-04_03-51-07",
        "2024-03-03_01-01-03",
        "2024-03-04_03-51-07.0",
        "2024-03-04_03-51-07.10",
        "2024-03-04_03-51-07.2",
        "2024-03-04_05-25-10",
        "2025-01-01_00-00-00",
    ]
    for instance in ("2024-", "2024-03-04_03", "2025", "2026", "", "2024-03-04_03-51-07."):
        for last in (True, False, 1, 0, None, "yes"):
            attempt(
                f"_find_in_dir_names({instance!r}, names, {last!r})",
                lambda: rm._find_in_dir_names(instance, list(names), last),
            )
        attempt(
            f"_find_in_dir_names({instance!r}, names)",
            lambda: rm._find_in_dir_names(instance, list(names)),
        )
    attempt(
        "_find_in_dir_names with a name that is not a run dir",
        lambda: rm._find_in_dir_names("2", ["2024-03-04_03-51-07", "2nd-thoughts"], True),
    )
    attempt("_find_in_dir_names with no names", lambda: rm._find_in_dir_names("2", [], True))
    os.makedirs("archive/manual/2024-03-04_03-51-07", exist_ok=True)
    os.makedirs("archive/manual/2024-03-04_03-51-07.0", exist_ok=True)
    os.makedirs("archive/manual/2024-03-05_03-51-07", exist_ok=True)
    for inst in ("2024-:last", "2024-:first", "2024-03-04:last", "2024-03-05_03-51-07", "2024:nth", "1:last", ":first"):
        attempt(
            f"_find_instance('archive/manual', {inst!r})",
            lambda: rm._find_instance("archive/manual", inst),
        )
    attempt("_find_last", lambda: rm._find_last("archive/manual", "2024-03-04"))
    attempt("_find_first", lambda: rm._find_first("archive/manual", "2024-03-04"))
    attempt("_find default", lambda: rm._find("archive/manual", "2024-03-04"))
    attempt("_find_instance on a missing dir", lambda: rm._find_instance("archive/nosuch", "2:last"))
    shutil.rmtree("archive/manual")
    #
    # references taken apart
    #
    r = Reference(matcher=None, name="grp.variables.v.k")
    for parts in (
        ["grp", "variables", "v", "k"],
        ["grp", "variables", "v"],
        ["grp", "headers", "h"],
        ["grp", "headers", "h", "id"],
        ["grp", "csvpaths", "p"],
        ["grp", "variables", "v", "k", "extra"],
        ["grp", "metadata", "m"],
        ["grp", "results", "x", "y"],
        ["grp", "", "x"],
        ["grp", "variables"],
        ["grp"],
        [],
    ):
        attempt(
            f"_get_reference_for_parts({parts!r})",
            lambda: r._get_reference_for_parts(parts),
        )
    for name in (
        "grp.variables.v.k",
        "grp.variables.v",
        "grp.headers.h",
        "grp.headers.h.id",
        "grp.csvpaths.p",
        "grp.variables.v.",
        "grp.metadata.m",
    ):
        ref = attempt(f"Reference(name={name!r})", lambda: Reference(matcher=None, name=name))
        if ref is None:
            continue
        for m in ("data_type", "is_header", "is_variable", "data_name", "tracking_name", "_get_reference"):
            attempt(f"  .{m}()", getattr(ref, m))
    for s in ("$grp.results.20:last.first", "$grp#id.results.2024-01-01_:first#x.second#y", "$.variables.v", "$grp.results.x"):
        p = attempt(f"ReferenceParser({s!r})", lambda: ReferenceParser(s))
        if p is not None:
            out(f"    -> {p.root_major!r} {p.root_minor!r} {p.datatype!r} {p.names!r}")
    #
    # results manager bookkeeping: order of results within a group, groups side by side
    #
    cp.paths_manager.add_named_paths(name="one", paths=chain(2, 1))
    cp.paths_manager.add_named_paths(name="two", paths=chain(3, 1))
    for fname, pname in (("plain", "one"), ("ragged", "two"), ("other", "one"), ("plain", "two")):
        attempt(
            f"collect_paths {pname} on {fname}",
            lambda: cp.collect_paths(filename=fname, pathsname=pname),
        )
        out(
            "    named_results: "
            + norm({k: [r.identity_or_index for r in v] for k, v in rm.named_results.items()})
        )
        for g in ("one", "two", "three"):
            attempt(f"get_number_of_results({g!r})", lambda: rm.get_number_of_results(g))
            attempt(f"get_variables({g!r})", lambda: rm.get_variables(g))
            attempt(f"has_lines({g!r})", lambda: rm.has_lines(g))
            attempt(
                f"get_last_named_result({g!r})",
                lambda: rm.get_last_named_result(name=g).identity_or_index,
            )
            attempt(
                f"get_specific_named_result({g!r}, 'second')",
                lambda: rm.get_specific_named_result(g, "second").identity_or_index,
            )
            attempt(f"get_metadata({g!r})", lambda: mask(rm.get_metadata(g)))
    attempt("remove_named_results('one')", lambda: rm.remove_named_results("one"))
    attempt("remove_named_results('one') again", lambda: rm.remove_named_results("one"))
    attempt("clean_named_results('one')", lambda: rm.clean_named_results("one"))
    out("    named_results: " + norm({k: len(v) for k, v in rm.named_results.items()}))
    kept = rm.get_named_results("two")
    attempt("set_named_results", lambda: rm.set_named_results({"two": list(kept)}))
    out(
        "    named_results: "
        + norm({k: [r.identity_or_index for r in v] for k, v in rm.named_results.items()})
    )
    attempt("list_named_results", rm.list_named_results)
    show_archive()


def main():
    fresh_dirs()
    section_a()
    fresh_dirs()
    section_b()
    fresh_dirs()
    section_c()
    fresh_dirs()
    section_d()
    out("done")


if __name__ == "__main__":
    main()
