"""Differential demonstration for property C12 (named-paths groups round-trip and
select by identity).  Run with cwd = an empty temp dir and PYTHONPATH pointing at
the csvpath tree under test.  Prints a deterministic transcript of everything
observable: returned csvpaths, selections, exceptions, stdout printouts, the
group file, the manifest (times/uuids normalised) and file listings.
"""
import contextlib
import hashlib
import io
import itertools
import json
import os
import random
import re
import shutil
import sys

CONFIG = """[csvpath_files]
extensions = txt, csvpath, csvpaths

[csv_files]
extensions = txt, csv, tsv, dat, tab, psv, ssv

[errors]
csvpath = raise, collect, stop, fail, print
csvpaths = raise, collect

[logging]
csvpath = info
csvpaths = info
log_file = logs/csvpath.log
log_files_to_keep = 100
log_file_size = 52428800

[config]
path = config/config.ini

[cache]
path = cache

[listeners]
[marquez]
base_url = http://localhost:5000

[functions]
imports = config/functions.imports

[results]
archive = archive
transfers = transfers

[inputs]
files = inputs/named_files
csvpaths = inputs/named_paths
on_unmatched_file_fingerprints = halt
"""

# ---------------------------------------------------------------- environment
for d in ("config", "inputs", "archive", "cache", "logs", "transfers", "srcs"):
    if os.path.exists(d):
        shutil.rmtree(d)
os.makedirs("config")
with open("config/config.ini", "w", encoding="utf-8") as f:
    f.write(CONFIG)
with open("config/functions.imports", "w", encoding="utf-8") as f:
    f.write("")
os.makedirs("inputs/named_paths")
os.makedirs("inputs/named_files")
with open("file.csv", "w", encoding="utf-8") as f:
    f.write("a,b\n1,2\n")

from csvpath import CsvPath, CsvPaths  # noqa: E402
from csvpath.managers.paths.paths_manager import PathsManager  # noqa: E402

OUT = sys.stdout


def say(*a):
    print(*a, file=OUT)


TS = re.compile(r"\d{4}-\d{2}-\d{2}_\d{2}-\d{2}-\d{2}(_\d+)?")


ADDR = re.compile(r"at 0x[0-9a-f]+")


def norm(s):
    return TS.sub("<RUN>", s)


def call(label, fn, *a, **kw):
    """call fn, report its result or exception and anything it printed"""
    buf = io.StringIO()
    res = None
    try:
        with contextlib.redirect_stdout(buf):
            res = fn(*a, **kw)
        say(f"{label} -> {ADDR.sub('at 0x..', repr(res))}")
    except BaseException as e:  # noqa
        say(f"{label} !! {type(e).__name__}: {e}")
        res = e
    if buf.getvalue():
        say(f"{label} printed: {buf.getvalue()!r}")
    return res


def listing(root):
    out = []
    for dp, dns, fns in os.walk(root):
        dns.sort()
        for fn in sorted(fns):
            out.append(norm(os.path.join(dp, fn)))
    return sorted(out)


def sha(path):
    with open(path, "rb") as f:
        return hashlib.sha256(f.read()).hexdigest()


def show_group(name):
    home = os.path.join("inputs/named_paths", name)
    say(f"  [disk] home exists: {os.path.exists(home)}")
    if not os.path.exists(home):
        return
    say(f"  [disk] files: {sorted(os.listdir(home))}")
    g = os.path.join(home, "group.csvpaths")
    if os.path.exists(g):
        with open(g, "r", encoding="utf-8") as f:
            say(f"  [disk] group file: {f.read()!r}")
        say(f"  [disk] group sha256: {sha(g)}")
    m = os.path.join(home, "manifest.json")
    if os.path.exists(m):
        with open(m, "r", encoding="utf-8") as f:
            raw = f.read()
        j = json.loads(raw)
        say(f"  [disk] manifest entries: {len(j)}")
        for i, e in enumerate(j):
            e = dict(e)
            for k in ("time", "uuid", "time_started", "time_completed"):
                if k in e:
                    e[k] = "<" + k + ">"
            say(f"  [disk] manifest[{i}] keys={list(e.keys())}")
            say(f"  [disk] manifest[{i}] = {json.dumps(e, sort_keys=True)}")
    d = os.path.join(home, "definition.json")
    if os.path.exists(d):
        with open(d, "r", encoding="utf-8") as f:
            say(f"  [disk] definition.json: {f.read()!r}")


def identities_of(paths):
    ids = []
    for p in paths:
        m = re.match(r"\s*~(.*?)~", p, re.S)
        if not m:
            continue
        for k in re.findall(r"\b(id|Id|ID|name|Name|NAME)\s*:\s*([A-Za-z0-9_ -]+)", m.group(1)):
            ids.append(k[1].strip())
    return ids


def probe(pm, name, extra_ids=()):
    """everything get_named_paths can say about group `name`"""
    whole = call(f"get_named_paths({name!r})", pm.get_named_paths, name)
    call(f"has_named_paths({name!r})", pm.has_named_paths, name)
    call(f"number_of_named_paths({name!r})", pm.number_of_named_paths, name)
    ids = []
    if isinstance(whole, list):
        idps = call(f"get_identified_paths_in({name!r})", pm.get_identified_paths_in, name)
        if isinstance(idps, list):
            ids = [t[0] for t in idps]
    seen = []
    for i in list(ids) + list(extra_ids):
        if i in seen:
            continue
        seen.append(i)
        for form in (
            f"{name}#{i}",
            f"${name}.csvpaths.{i}",
            f"{name}#{i}:from",
            f"{name}#{i}:to",
            f"${name}.csvpaths.{i}:from",
            f"${name}.csvpaths.{i}:to",
        ):
            call(f"get_named_paths({form!r})", pm.get_named_paths, form)
    show_group(name)


# ------------------------------------------------------------ 1. CsvPath.identity
say("=" * 30, "1. identity precedence")
KEYS = ["id", "Id", "ID", "name", "Name", "NAME"]
for r in range(0, 7):
    for combo in itertools.combinations(KEYS, r):
        c = CsvPath()
        c.metadata = {k: f"v-{k}" for k in reversed(combo)}
        say(f"identity{list(combo)} -> {c.identity!r}")
for md in (
    None,
    {},
    {"other": "x"},
    {"id": ""},
    {"id": None, "name": "n"},
    {"id": 0, "name": "n"},
    {"Id": "", "ID": "x"},
    {"NAME": 0},
    {"original_comment": "hello", "Name": " padded "},
    {"iD": "nope", "nAME": "nope"},
):
    c = CsvPath()
    c.metadata = md
    say(f"identity of metadata {md!r} -> {c.identity!r}")
for text in (
    "$file.csv[*][yes()]",
    "~id:a~ $file.csv[*][yes()]",
    "~ name: my path description: an example ~ $file.csv[*][yes()]",
    "~ NAME: shouty Name: quiet ~ $file.csv[*][yes()]",
    "~ name: n ID: upper id: lower Id: mixed ~ $file.csv[*][yes()]",
    "~ id: ~ $file.csv[*][yes()]",
    "~ id:\n  multi\n  line\n description: x ~\n$file.csv[*][\n ~ inner id: no ~ yes()]",
    "~ just a comment ~ $file.csv[*][yes()]",
    "~ id: first ~ $file.csv[*][yes()] ~ id: second ~",
):
    c = CsvPath()
    call(f"parse({text!r})", c.parse, text)
    say(f"   identity={c.identity!r} metadata={c.metadata!r}")

# ------------------------------------------------ 2. fixed add / get / select
say("=" * 30, "2. fixed groups")
cp = CsvPaths()
pm = cp.paths_manager

FIXED = {
    "plain": ["$[*][yes()]"],
    "four": [
        "~id:wonderful~ $[*][#1 yes()]",
        "~Id:amazing~ $[*][#2 yes()]",
        "~name:fun~ $[*][#3 yes()]",
        "~Name:interesting~ $[*][#4 yes()]",
    ],
    "mixed": [
        "  ~ ID: first\n   description: outer comment with\n   newlines ~\n$[*][\n    ~ inner comment id: not-me ~\n    yes()\n]\n\n",
        "$[1*][ #0 == \"0\" ]",
        "~ NAME: third name: 3rd ~ $[*][ ~ c1 ~ yes() ~ c2 ~ no() ]",
        "\n\n~ no metadata here ~\n$[0][yes()]\t",
        "~ id: dup ~ $[*][#a]",
        "~ name: dup ~ $[*][#b]",
    ],
    "dups": ["~id:x~ $[1][yes()]", "~id:x~ $[2][yes()]", "~id:y~ $[3][yes()]", "~id:x~ $[4][yes()]"],
    "blankids": ["~id: ~ $[1][yes()]", "~ name:   \n~ $[2][yes()]", "$[3][yes()]", "~id:3~ $[4][yes()]"],
    "marker": ["~id:m~ $[*][ print(\"---- CSVPATH ----\") ]", "~id:n~ $[*][ yes() ]"],
    "colon": ["~id:a b~ $[*][yes()]", "~id:c-d_e~ $[*][no()]"],
}
for name, paths in FIXED.items():
    say("-" * 10, name)
    call(f"add_named_paths({name!r}, {paths!r})", pm.add_named_paths, name=name, paths=paths)
    probe(pm, name, extra_ids=["missing", "", "0", "1"])
    got = pm.get_named_paths(name)
    say(f"  round-trip strip-equal: {[g.strip() for g in got] == [p.strip() for p in paths]}")

say("-" * 10, "error and edge cases")
call("add_named_paths(paths=None)", pm.add_named_paths, name="bad", paths=None)
call("add_named_paths(paths='str')", pm.add_named_paths, name="bad", paths="$[*][yes()]")
call("add_named_paths(paths=tuple)", pm.add_named_paths, name="bad", paths=("$[*][yes()]",))
call("has bad", pm.has_named_paths, "bad")
call("add_named_paths(paths=[])", pm.add_named_paths, name="empty", paths=[])
probe(pm, "empty", extra_ids=["x"])
call("add_named_paths(paths=[''])", pm.add_named_paths, name="emptystr", paths=[""])
show_group("emptystr")
call("get emptystr", pm.get_named_paths, "emptystr")
call("add_named_paths(paths=['   ', ok])", pm.add_named_paths, name="blankel", paths=["   ", "$[*][yes()]"])
show_group("blankel")
call("get blankel", pm.get_named_paths, "blankel")
call("add_named_paths(paths=[nonpath])", pm.add_named_paths, name="nonpath", paths=["hello world"])
show_group("nonpath")
call("add_named_paths(paths=[1, 2])", pm.add_named_paths, name="ints", paths=[1, 2])
show_group("ints")
call("add_named_paths(paths=[None])", pm.add_named_paths, name="nones", paths=[None])
show_group("nones")
call("get unknown group", pm.get_named_paths, "nosuch")
call("get unknown group#x", pm.get_named_paths, "nosuch#x")
call("get unknown group#x:from", pm.get_named_paths, "nosuch#x:from")
call("get unknown group#x:to", pm.get_named_paths, "nosuch#x:to")
say(f"  nosuch exists on disk: {os.path.exists('inputs/named_paths/nosuch')}")
call("get $nosuch.csvpaths.x", pm.get_named_paths, "$nosuch.csvpaths.x")
call("get four#", pm.get_named_paths, "four#")
call("get #four", pm.get_named_paths, "#four")
say(f"  '#four' exists on disk: {os.path.exists('inputs/named_paths/#four')}")
call("get four#fun:", pm.get_named_paths, "four#fun:")
call("get four#fun:upto", pm.get_named_paths, "four#fun:upto")
call("get four#fun:to:from", pm.get_named_paths, "four#fun:to:from")
call("get four#fun:TO", pm.get_named_paths, "four#fun:TO")
call("get four#:to", pm.get_named_paths, "four#:to")
call("get four#:from", pm.get_named_paths, "four#:from")
call("get four#fun#amazing", pm.get_named_paths, "four#fun#amazing")
call("get $four.variables.fun", pm.get_named_paths, "$four.variables.fun")
call("get $four.results.fun:to", pm.get_named_paths, "$four.results.fun:to")
call("get $four.nonsense.fun", pm.get_named_paths, "$four.nonsense.fun")
call("get $four.csvpaths", pm.get_named_paths, "$four.csvpaths")
call("get $four.csvpaths.fun.extra", pm.get_named_paths, "$four.csvpaths.fun.extra")
call("get $four.csvpaths.fun#amazing", pm.get_named_paths, "$four.csvpaths.fun#amazing")
call("get $four#amazing.csvpaths.fun", pm.get_named_paths, "$four#amazing.csvpaths.fun")
call("get $four.csvpaths.fun:sideways", pm.get_named_paths, "$four.csvpaths.fun:sideways")
call("get $.csvpaths.fun", pm.get_named_paths, "$.csvpaths.fun")
call("get $", pm.get_named_paths, "$")
call("get ''", pm.get_named_paths, "")
call("get None", pm.get_named_paths, None)
call("_find_one(None, 'x')", pm._find_one, None, "x")
call("_find_one('four', None)", pm._find_one, "four", None)
call("_get_to('four', None)", pm._get_to, "four", None)
call("_get_from('four', None)", pm._get_from, "four", None)
call("_get_to('dups', 'x')", pm._get_to, "dups", "x")
call("_get_from('dups', 'x')", pm._get_from, "dups", "x")
call("_get_to('blankids', '')", pm._get_to, "blankids", "")
call("_get_from('blankids', '')", pm._get_from, "blankids", "")
call("_str_from_list([])", pm._str_from_list, [])
call("_str_from_list(['a'])", pm._str_from_list, ["a"])
call("_str_from_list(['a','','b\\n'])", pm._str_from_list, ["a", "", "b\n"])
call("_str_from_list((1, None))", pm._str_from_list, (1, None))
call("_str_from_list(None)", pm._str_from_list, None)
call("_paths_name_path('a#b')", pm._paths_name_path, "a#b")
call("_paths_name_path('#b')", pm._paths_name_path, "#b")
call("_paths_name_path('a#')", pm._paths_name_path, "a#")
call("_paths_name_path('a#b#c:to')", pm._paths_name_path, "a#b#c:to")
call("_paths_name_path('abc')", pm._paths_name_path, "abc")
call("get_identified_paths_in('x', paths=[])", pm.get_identified_paths_in, "x", paths=[])
call(
    "get_identified_paths_in('x', paths=[...])",
    pm.get_identified_paths_in,
    "x",
    paths=["~id:q~$[*][yes()]", "$[*][no()]", "~Name:r id:s~$[*][no()]"],
)
call("get_identified_paths_in('x', paths=['bad'])", pm.get_identified_paths_in, "x", paths=["bad"])
call("get_identified_paths_in('nosuch')", pm.get_identified_paths_in, "nosuch")
call("named_paths_names", lambda: sorted(pm.named_paths_names))

# ------------------------------- 3. file / dir / json / dict loaders (callers)
say("=" * 30, "3. loaders")
os.makedirs("srcs/dir")
with open("srcs/one.csvpaths", "w", encoding="utf-8") as f:
    f.write("~id:f1~ $[*][yes()]\n---- CSVPATH ----\n\n  \n---- CSVPATH ----\n~name:f2~\n$[*][no()]\n")
with open("srcs/dir/a.csvpath", "w", encoding="utf-8") as f:
    f.write("~id:da~ $[*][yes()]")
with open("srcs/dir/b.txt", "w", encoding="utf-8") as f:
    f.write("~id:db~ $[*][yes()] ---- CSVPATH ---- ~id:db2~ $[*][no()]")
with open("srcs/dir/ignored.md", "w", encoding="utf-8") as f:
    f.write("not a csvpath")
with open("srcs/dir/.hidden.csvpath", "w", encoding="utf-8") as f:
    f.write("$[*][yes()]")
with open("srcs/dir/noext", "w", encoding="utf-8") as f:
    f.write("$[*][yes()]")
with open("srcs/defs.json", "w", encoding="utf-8") as f:
    json.dump({"j1": ["srcs/one.csvpaths", "srcs/dir/a.csvpath"], "j2": ["srcs/dir/b.txt"]}, f)
with open("srcs/bad.json", "w", encoding="utf-8") as f:
    f.write("{ not json")
call("add from_file", pm.add_named_paths, name="ff", from_file="srcs/one.csvpaths")
probe(pm, "ff")
call("add_named_paths_from_file", pm.add_named_paths_from_file, name="ff2", file_path="srcs/dir/b.txt")
probe(pm, "ff2")
call("add from_file missing", pm.add_named_paths, name="ff3", from_file="srcs/nope.csvpaths")
call("add from_dir named", pm.add_named_paths, name="fd", from_dir="srcs/dir")
probe(pm, "fd")
call("add_named_paths_from_dir unnamed", pm.add_named_paths_from_dir, directory="srcs/dir")
for n in ("a", "b"):
    probe(pm, n)
call("add from_dir not a dir", pm.add_named_paths, name="fd2", from_dir="srcs/one.csvpaths")
call("add from_json", pm.add_named_paths, name="ignored", from_json="srcs/defs.json")
for n in ("j1", "j2"):
    probe(pm, n)
call("add from_json bad", pm.add_named_paths_from_json, "srcs/bad.json")
call("add from_json missing", pm.add_named_paths_from_json, "srcs/missing.json")
call(
    "set_named_paths ok",
    pm.set_named_paths,
    {"s1": ["~id:s1a~ $[*][yes()]"], "s2": ["~id:s2a~ $[*][yes()]", "$[*][no()]"]},
)
for n in ("s1", "s2"):
    probe(pm, n)
call("set_named_paths bad", pm.set_named_paths, {"s3": ["$[*][yes()]"], "s4": "$[*][yes()]"})
call("has s3", pm.has_named_paths, "s3")
call("named_paths_names", lambda: sorted(pm.named_paths_names))

# --------------------------------------- 4. generated operation sequences
say("=" * 30, "4. generated sequences")
rnd = random.Random(120012)
IDKEYS = ["id", "Id", "ID", "name", "Name", "NAME"]
WORDS = ["alpha", "beta", "gamma", "delta", "x1", "y-2", "z_3", "0", "7", "two words"]
BODIES = [
    "$[*][yes()]",
    "$[1*][ #0 == \"a\" ]",
    "$[*][\n  ~ inner comment ~\n  yes()\n]",
    "$[0-3][ @n = count() ~ trailing inner id: no ~ ]",
    "$[*][ print(\"hello: $.csvpath.line_number\") ]",
    "$[2][\n\n   no()\n\n]",
]


def gen_path():
    body = rnd.choice(BODIES)
    kind = rnd.randrange(6)
    pre = rnd.choice(["", " ", "\n", "\n\n  ", "\t"])
    post = rnd.choice(["", " ", "\n", "\n\n", " \t\n"])
    if kind == 0:
        return f"{pre}{body}{post}"
    if kind == 1:
        return f"{pre}~ only a description, nothing else ~{rnd.choice(['', ' ', chr(10)])}{body}{post}"
    n = rnd.choice([1, 1, 1, 2, 3])
    ks = rnd.sample(IDKEYS, n)
    fields = []
    for k in ks:
        fields.append(f"{k}{rnd.choice([':', ': ', ' : '])}{rnd.choice(WORDS)}")
    if rnd.random() < 0.4:
        fields.insert(rnd.randrange(len(fields) + 1), "description: some\n   text here")
    sep = rnd.choice([" ", "\n", "\n  "])
    return f"{pre}~{sep}{sep.join(fields)}{sep}~{rnd.choice(['', ' ', chr(10)])}{body}{post}"


def gen_list():
    return [gen_path() for _ in range(rnd.randint(1, 5))]


for seq in range(14):
    say("-" * 10, f"sequence {seq}")
    for n in ("g1", "g2"):
        if os.path.exists(os.path.join("inputs/named_paths", n)):
            shutil.rmtree(os.path.join("inputs/named_paths", n))
    cp = CsvPaths()
    pm = cp.paths_manager
    last = {}
    for step in range(rnd.randint(2, 5)):
        name = rnd.choice(["g1", "g2"])
        op = rnd.choice(["add", "add", "readd", "replace", "remove", "new", "strict-remove"])
        say(f"--- step {step}: {op} {name}")
        if op in ("add", "replace") or (op == "readd" and name not in last):
            paths = gen_list()
            last[name] = paths
            call(f"add_named_paths({name!r}, {paths!r})", pm.add_named_paths, name=name, paths=paths)
        elif op == "readd":
            paths = list(last[name])
            call(f"re-add_named_paths({name!r})", pm.add_named_paths, name=name, paths=paths)
        elif op == "remove":
            call(f"remove_named_paths({name!r})", pm.remove_named_paths, name)
            last.pop(name, None)
        elif op == "strict-remove":
            call(f"remove_named_paths({name!r}, strict)", pm.remove_named_paths, name, strict=True)
            last.pop(name, None)
        elif op == "new":
            cp = CsvPaths()
            pm = cp.paths_manager
            say("new CsvPaths instance")
        for n in ("g1", "g2"):
            probe(pm, n, extra_ids=["alpha", "zzz"])
            got = pm.get_named_paths(n)
            if n in last:
                say(
                    f"  round-trip strip-equal {n}: {got is not None and [g.strip() for g in got] == [p.strip() for p in last[n]]}"
                )
            else:
                say(f"  round-trip {n}: absent -> {got!r}")

# ------------------------------------------------ 5. runs that use identities
say("=" * 30, "5. runs")
with open("srcs/f.csv", "w", encoding="utf-8") as f:
    f.write("a,b,c\n1,2,3\n\n4,5\n,,\n0,,zero\n7,8,9,10\n")
cp = CsvPaths()
pm = cp.paths_manager
call("add_named_file", cp.file_manager.add_named_file, name="f", path="srcs/f.csv")
RUNP = [
    "~id:one~ $[*][yes()]",
    "~ name: two description: has a #b ~ $[*][ #b == \"2\" print(\"two: $.csvpath.line_number $.headers.a\") ]",
    "$[*][ @z = #a  #a == \"0\" ]",
    "~ Id: four ~ $[1*][ ~ skip ~ @c = count() last() -> print(\"count $.variables.c\") ]",
]
call("add run group", pm.add_named_paths, name="run", paths=RUNP)


def run_dirs():
    out = set()
    if os.path.exists("archive"):
        for n in os.listdir("archive"):
            d = os.path.join("archive", n)
            if os.path.isdir(d):
                for r in os.listdir(d):
                    if os.path.isdir(os.path.join(d, r)):
                        out.add(os.path.join(d, r))
    return out


def show_new_runs(before):
    new = sorted(run_dirs() - before)
    say(f"   new run dirs: {len(new)} under {sorted(set(os.path.dirname(n) for n in new))}")
    for k, rd in enumerate(new):
        for dp, dns, fns in os.walk(rd):
            dns.sort()
            for fn in sorted(fns):
                full = os.path.join(dp, fn)
                rel = os.path.join(f"<RUN{k}>", os.path.relpath(full, rd))
                if fn in ("data.csv", "unmatched.csv", "printouts.txt"):
                    with open(full, "r", encoding="utf-8") as f:
                        say(f"      {rel}: {f.read()!r}")
                elif fn == "vars.json":
                    with open(full, "r", encoding="utf-8") as f:
                        say(f"      {rel}: {json.dumps(json.load(f), sort_keys=True)}")
                else:
                    say(f"      {rel}")


def show_results(ref):
    call("get_named_results", lambda: len(cp.results_manager.get_named_results(ref)))
    for res in cp.results_manager.get_named_results(ref):
        say(
            f"   identity={res.csvpath.identity!r} id_or_index={res.identity_or_index!r} valid={res.is_valid} "
            f"lines={len(res.lines)} vars={res.variables!r} errors={len(res.errors)} printouts={res.printouts!r}"
        )


for ref in ("run", "run#two", "$run.csvpaths.four", "run#two:from", "$run.csvpaths.two:to", "run#nope", "run#2", "norun", "run"):
    say("-" * 10, f"collect_paths {ref}")
    before = run_dirs()
    r = call(f"collect_paths({ref!r})", cp.collect_paths, filename="f", pathsname=ref)
    show_new_runs(before)
    if isinstance(r, BaseException):
        continue
    show_results(ref)
say("-" * 10, "fast_forward + next + by_line")
before = run_dirs()
call("fast_forward_paths", cp.fast_forward_paths, filename="f", pathsname="run#one:to")
show_new_runs(before)
show_results("run#one:to")
before = run_dirs()
call("next_paths", lambda: [list(l) for l in cp.next_paths(filename="f", pathsname="run#four:from")])
show_new_runs(before)
show_results("run#four:from")
before = run_dirs()
call("collect_by_line", lambda: [list(l) for l in cp.collect_by_line(filename="f", pathsname="run")])
show_new_runs(before)
show_results("run")
say("inputs/named_paths listing:")
for p in listing("inputs/named_paths"):
    say("  ", p)
say("done")
