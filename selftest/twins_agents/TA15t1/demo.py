"""Differential demo for refactoring t1 (MetadataParser).

Run in an empty temp directory:
    cd /tmp/demo_TWC15_1 && PYTHONPATH=<tree> /venv/bin/python demo.py > out.txt

Prints a deterministic transcript of everything observable that depends on
the outer-comment parser: the csvpath returned, the metadata collected, the
exceptions raised, and the downstream effect of comment mode settings on
standalone CsvPath runs and on CsvPaths group runs (archive listing/contents
with run-directory timestamps normalised).
"""
import io
import json
import os
import re
import shutil
import sys
import contextlib
import itertools

CONFIG = """[csvpath_files]
extensions = txt, csvpath, csvpaths

[csv_files]
extensions = txt, csv, tsv, dat, tab, psv, ssv

[errors]
csvpath = raise, collect, stop, fail, print
csvpaths = raise, collect

[logging]
csvpath = info
csvpaths = info
log_file = logs/csvpath.log
log_files_to_keep = 100
log_file_size = 52428800

[config]
path = config/config.ini

[cache]
path = cache

[listeners]
[marquez]
base_url = http://localhost:5000

[functions]
imports = config/functions.imports

[results]
archive = archive
transfers = transfers

[inputs]
files = inputs/named_files
csvpaths = inputs/named_paths
on_unmatched_file_fingerprints = halt
"""

HERE = os.getcwd()


def setup_env():
    for d in ["config", "archive", "inputs", "cache", "logs", "transfers", "data"]:
        if os.path.exists(d):
            shutil.rmtree(d)
    os.makedirs("config")
    os.makedirs("data")
    with open("config/config.ini", "w", encoding="utf-8") as f:
        f.write(CONFIG)
    with open("config/functions.imports", "w", encoding="utf-8") as f:
        f.write("")
    files = {
        "plain.csv": "a,b,c\n1,2,3\n4,5,6\n7,8,9\n3,0,x\n",
        # blank lines, ragged rows, empty values, zero
        "ragged.csv": "a,b,c\n1,2,3\n\n4,5\n,,\n0,0,0\n7,8,9,10\n   \n3,,x\n",
        # trailing blank line
        "trail.csv": "a,b,c\n3,2,1\n1,2,3\n\n",
        "header_only.csv": "a,b,c\n",
        "quoted.csv": 'a,b,c\n"3","x, y","~z~"\n"1","[q]","$"\n',
    }
    for k, v in files.items():
        with open(os.path.join("data", k), "w", encoding="utf-8") as f:
            f.write(v)
    return files


setup_env()

from csvpath import CsvPath, CsvPaths  # noqa: E402
from csvpath.util.metadata_parser import MetadataParser  # noqa: E402


def show(label, value):
    print(f"{label}: {value!r}")


def exc_str(e):
    s = str(e)
    s = s.replace(HERE, "<cwd>")
    return f"{type(e).__name__}: {s}"


class Holder:
    """a minimal 'instance' for the parser: only has .metadata"""

    def __init__(self, metadata):
        self.metadata = metadata


# ---------------------------------------------------------------------------
# Part A: the parser alone
# ---------------------------------------------------------------------------
PARSER_INPUTS = [
    "$data/plain.csv[*][yes()]",
    "   $data/plain.csv[*][yes()]   ",
    "~~$data/plain.csv[*][yes()]",
    "~ ~ $data/plain.csv[*][yes()]",
    "~ just some free text with no fields ~ $data/plain.csv[*][yes()]",
    "~id:one~$data/plain.csv[*][yes()]",
    "~ id: one ~ $data/plain.csv[*][yes()]",
    "~ id : spaced name ~ $data/plain.csv[*][yes()]",
    "~ name: my path description: an example of two fields ~ $data/plain.csv[1*][#a==\"3\"]",
    "~ return-mode: no-matches unmatched-mode: keep run-mode: run print-mode: no-default logic-mode: OR ~ $data/plain.csv[*][no()]",
    "~ return-mode:no-matches\n unmatched-mode:keep\r\n\trun-mode:no-run ~\n$data/plain.csv[*][yes()]",
    "~ validation-mode: no-raise, no-print, match explain-mode:explain ~ $data/plain.csv[*][yes()]",
    "~ files-mode: data, unmatched source-mode: preceding transfer-mode: data > x ~ $data/plain.csv[*][yes()]",
    "~ time: 10:30 url: http://example.com/a?b=c&d=e ~ $data/plain.csv[*][yes()]",
    "~ a-b_c: d-e_f 0: zero x: 0 ~ $data/plain.csv[*][yes()]",
    "~ empty: ~ $data/plain.csv[*][yes()]",
    "~ empty:~ $data/plain.csv[*][yes()]",
    "~ :leading colon ~ $data/plain.csv[*][yes()]",
    "~ a: 1 : 2 ~ $data/plain.csv[*][yes()]",
    "~ trailing word colon: value last: ~ $data/plain.csv[*][yes()]",
    "~ dup: one dup: two Dup: three ~ $data/plain.csv[*][yes()]",
    "~ punct: (a) {b} <c> \"d\" 'e' a.b,c;d!e?f*g+h=i/j\\k|l@m#n%o^p&q ~ $data/plain.csv[*][yes()]",
    "~ unicode: h\u00e9llo w\u00f6rld \u00e9t\u00e9: \u00fc ~ $data/plain.csv[*][yes()]",
    "~ original_comment: sneaky ~ $data/plain.csv[*][yes()]",
    "~ id: first ~ ~ id: second ~ $data/plain.csv[*][yes()]",
    "~ id: inner ~ $data/plain.csv[*][ ~ an inner comment id: nope ~ yes()]",
    "~ id: after ~ $data/plain.csv[*][yes()] ~ trailing: comment ~",
    "$data/plain.csv[*][yes()] ~ only: trailing ~",
    "~ dollar: in $comment cost: $5 ~ $data/plain.csv[*][yes()]",
    "~ id: q ~ $data/quoted.csv[*][#b == \"[q]\" or #c == \"$\"]",
    "~ id: nested ~ $data/plain.csv[1-3][ @x = count() #a == \"3\" -> print(\"$.csvpath.count_matches: $.headers.a\") ]",
    "~ id: tilde-in-match ~ $data/plain.csv[*][ #a == \"~\" ]",
    "~ id: unclosed $data/plain.csv[*][yes()]",
    "~ id: no path ~",
    "~",
    "$",
    "$[*][yes()]",
    "~ id: nameless ~ $[*][yes()]",
    "x$data/plain.csv[*][yes()]",
    "[*][yes()]",
    "~ a:: b ~ $data/plain.csv[*][yes()]",
    "~ a: : b ~ $data/plain.csv[*][yes()]",
    "~ a:(: b ~ $data/plain.csv[*][yes()]",
    "~ a:b:c:d ~ $data/plain.csv[*][yes()]",
    "~ a: b c:d e: f g h:i ~ $data/plain.csv[*][yes()]",
    "~ -: dash _: under -_-: mixed ~ $data/plain.csv[*][yes()]",
    "~ x: ] ~ $data/plain.csv[*][yes()]",
    "~ x: [ y: z ~ $data/plain.csv[*][yes()]",
    "",
    "    ",
]


def part_a():
    print("=" * 20, "PART A: MetadataParser alone")
    for i, s in enumerate(PARSER_INPUTS):
        print(f"--- A{i}")
        show("input", s)
        for start in (None, {}, {"pre": "existing", "id": "old"}):
            h = Holder(start if start is None else dict(start))
            c = CsvPath()
            try:
                ret = MetadataParser(c).extract_metadata(instance=h, csvpath=s)
                show(f"  start={start!r} returned", ret)
                show("    metadata", h.metadata)
                if h.metadata is not None:
                    show("    key order", list(h.metadata.keys()))
            except Exception as e:  # pylint: disable=W0718
                show(f"  start={start!r} raised", exc_str(e))
                show("    metadata", h.metadata)
        try:
            show("  split", MetadataParser(CsvPath()).extract_csvpath_and_comment(s))
        except Exception as e:  # pylint: disable=W0718
            show("  split raised", exc_str(e))
    #
    # collect_metadata directly, including comment text the extractor would never pass
    #
    print("--- collect_metadata direct")
    for s in [
        "",
        " ",
        ":",
        "::",
        "a",
        "a:",
        "a:b",
        " a : b ",
        "a:b\n",
        "a:\tb\tc\t",
        "a: b: c",
        "a: b:",
        "a: b :",
        "a:~b [c] $d",
        "0:0",
        "a: 0 b: 00 c: -1 d: _",
        "word word2 key: v1 v2 v3 key2: w1",
        "a:\n\nb\n\nc:\r\nd",
    ]:
        for start in (None, {"a": "kept?"}):
            h = Holder(start if start is None else dict(start))
            try:
                r = MetadataParser(CsvPath()).collect_metadata(h, s)
                show(f"  collect({s!r}, start={start!r}) ->", (r, h.metadata))
            except Exception as e:  # pylint: disable=W0718
                show(f"  collect({s!r}, start={start!r}) raised", (exc_str(e), h.metadata))
    #
    # constructor guard
    #
    try:
        MetadataParser(object())
    except Exception as e:  # pylint: disable=W0718
        show("  MetadataParser(object())", exc_str(e))
    #
    # non-str split inputs
    #
    for weird in (["~", "a", "~", "$", "[", "]"], ("$", "]", "x"), ["]"], b"~a~$[*]", None):
        try:
            show(f"  split({weird!r})", MetadataParser(CsvPath()).extract_csvpath_and_comment(weird))
        except Exception as e:  # pylint: disable=W0718
            show(f"  split({weird!r}) raised", exc_str(e))


# ---------------------------------------------------------------------------
# Part B: standalone CsvPath driven by comments
# ---------------------------------------------------------------------------
def run_path(path, method="collect"):
    out = io.StringIO()
    p = None
    res = None
    err = None
    with contextlib.redirect_stdout(out):
        try:
            p = CsvPath()
            p.parse(path)
            if method == "collect":
                res = p.collect()
            elif method == "ff":
                res = p.fast_forward()
            elif method == "next":
                res = [line for line in p.next()]
            elif method == "collect2":
                res = p.collect(nexts=2)
        except Exception as e:  # pylint: disable=W0718
            err = exc_str(e)
    show("  path", path)
    show("  method", method)
    show("  error", err)
    show("  result", res)
    if p is not None:
        show("  unmatched", p.unmatched)
        show("  variables", p.variables)
        show("  is_valid", p.is_valid)
        show("  stopped", p.stopped)
        show("  errors", None if p.errors is None else [f"{e.line}:{e.message}" if hasattr(e, 'message') else str(e) for e in p.errors])
        show("  metadata", p.metadata)
        show("  identity", p.identity)
        show("  scan", p.scan)
        show("  match", p.match)
        show("  counts", (p.scan_count, p.match_count, p.line_monitor.physical_line_number if p.scanner else None))
        show("  printers", [type(x).__name__ for x in p.printers])
        for attr in (
            "collect_when_not_matched",
            "unmatched_available",
            "will_run",
            "AND",
            "explain",
            "data_from_preceding",
            "all_expected_files",
            "transfers",
            "return_mode",
            "unmatched_mode",
            "run_mode",
            "print_mode",
            "logic_mode",
        ):
            try:
                show(f"  mode.{attr}", getattr(p, attr))
            except Exception as e:  # pylint: disable=W0718
                show(f"  mode.{attr} raised", exc_str(e))
    show("  stdout", out.getvalue())


def comment_of(**modes):
    return " ".join(f"{k}: {v}" for k, v in modes.items() if v is not None)


def part_b():
    print("=" * 20, "PART B: standalone CsvPath")
    n = 0
    matches = [
        '#a == "3" print("line $.csvpath.line_number: $.headers.a")',
        '#a == "3" #b == "2"',
        "@n = count_lines() no()",
    ]
    files = ["plain.csv", "ragged.csv", "trail.csv", "header_only.csv"]
    combos = list(
        itertools.product(
            [None, "matches", "no-matches"],
            [None, "keep", "no-keep"],
            [None, "run", "no-run"],
            [None, "default", "no-default"],
            [None, "AND", "OR"],
        )
    )
    for i, (rm, um, run, pm, lm) in enumerate(combos):
        # deterministic thinning: every file/match pairing appears, not all 243*12
        f = files[i % len(files)]
        m = matches[i % len(matches)]
        extra = ["", "free text before", "desc: a description, with punctuation! id: p%d" % i][i % 3]
        c = comment_of(**{"return-mode": rm, "unmatched-mode": um, "run-mode": run, "print-mode": pm, "logic-mode": lm})
        if i % 2:
            comment = f"{extra} {c} note: trailing words"
        else:
            comment = f"{extra} {c}"
        path = f"~ {comment} ~ $data/{f}[*][{m}]"
        print(f"--- B{n} combo={(rm, um, run, pm, lm)} file={f}")
        n += 1
        run_path(path, ["collect", "next", "ff", "collect2"][i % 4])
    # the partition on every file with a non-trivial scan
    for f in files:
        for scan in ["*", "1*", "2-4", "1+3+5", "0"]:
            for rm in ["matches", "no-matches"]:
                print(f"--- B{n} partition file={f} scan={scan} rm={rm}")
                n += 1
                run_path(f'~ unmatched-mode: keep return-mode: {rm} ~ $data/{f}[{scan}][#a == "3"]')
    # bad settings
    for bad in [
        "return-mode: sometimes",
        "run-mode: maybe",
        "print-mode: loud",
        "logic-mode: xor",
        "files-mode: everything",
        "unmatched-mode: whatever",
        "return-mode: no-matches, really",
        "logic-mode:  or ",
        "run-mode:no-run!",
        "explain-mode: explain!",
    ]:
        print(f"--- B{n} bad setting {bad!r}")
        n += 1
        run_path(f"~ {bad} ~ $data/plain.csv[*][yes()]")
    # repeated parse on one instance: settings from a second comment take over
    print(f"--- B{n} reparse")
    out = io.StringIO()
    with contextlib.redirect_stdout(out):
        p = CsvPath()
        p.parse('~ id: first return-mode: no-matches print-mode: no-default ~ $data/plain.csv[*][#a=="3"]')
        first = (dict(p.metadata), p.collect_when_not_matched, [type(x).__name__ for x in p.printers])
        p.parse('~ name: second unmatched-mode: keep ~ $data/plain.csv[*][#a=="3"]')
        second = (dict(p.metadata), p.collect_when_not_matched, [type(x).__name__ for x in p.printers])
        lines = p.collect()
    show("  first", first)
    show("  second", second)
    show("  lines", lines)
    show("  unmatched", p.unmatched)
    show("  stdout", out.getvalue())


# ---------------------------------------------------------------------------
# Part C: CsvPaths group runs and the archive
# ---------------------------------------------------------------------------
RUN_DIR = re.compile(r"^\d{4}-\d{2}-\d{2}_\d{2}-\d{2}-\d{2}(\.\d+)?$")
VOLATILE_KEYS = {
    "time",
    "uuid",
    "run_uuid",
    "time_started",
    "time_completed",
    "run_time",
    "run_home",
    "instance_home",
    "file_fingerprint",
    "manifest_path",
    "named_file_path",
    "named_paths_uuid",
    "named_file_uuid",
    "run_started_at",
    "created_at",
    "uuid_string",
    "last_row_time",
    "rows_time",
    "total_iteration_time",
    "lines_time",
    "last_line_time",
    "hostname",
    "username",
    "ip_address",
    "os",
    "python_version",
}


def scrub(o):
    if isinstance(o, dict):
        ret = {}
        for k, v in sorted(o.items()):
            if k in VOLATILE_KEYS:
                ret[k] = "<volatile>"
            elif k == "file_fingerprints" and isinstance(v, dict):
                # meta.json holds run times, so its fingerprint differs run to run
                ret[k] = {f: ("<volatile>" if f in ("meta.json", "manifest.json") else h) for f, h in sorted(v.items())}
            else:
                ret[k] = scrub(v)
        return ret
    if isinstance(o, list):
        return [scrub(v) for v in o]
    if isinstance(o, str):
        s = o.replace(HERE, "<cwd>")
        s = re.sub(r"\d{4}-\d{2}-\d{2}[_T ]\d{2}[-:]\d{2}[-:]\d{2}(\.\d+)?(\+00:00)?", "<ts>", s)
        s = re.sub(r"[0-9a-f]{8}-[0-9a-f]{4}-[0-9a-f]{4}-[0-9a-f]{4}-[0-9a-f]{12}", "<uuid>", s)
        return s
    return o


def dump_tree(root):
    if not os.path.exists(root):
        print(f"  (no {root})")
        return
    for dirpath, dirnames, filenames in os.walk(root):
        dirnames.sort()
        parts = dirpath.split(os.sep)
        # number run dirs in sorted order so that their timestamps are normalised
        shown = []
        for i, part in enumerate(parts):
            if RUN_DIR.match(part):
                sibs = sorted(d for d in os.listdir(os.sep.join(parts[:i])) if RUN_DIR.match(d))
                shown.append(f"<run{sibs.index(part)}>")
            else:
                shown.append(part)
        shown = "/".join(shown)
        for fn in sorted(filenames):
            full = os.path.join(dirpath, fn)
            print(f"  FILE {shown}/{fn}")
            with open(full, "r", encoding="utf-8") as f:
                text = f.read()
            if fn.endswith(".json"):
                try:
                    print("    " + json.dumps(scrub(json.loads(text)), sort_keys=True))
                except Exception:  # pylint: disable=W0718
                    print("    " + repr(scrub(text)))
            else:
                print("    " + repr(scrub(text)))


GROUPS = {
    "modes": [
        '~ id: keepers unmatched-mode: keep files-mode: all ~ $[*][#a == "3" print("kept $.csvpath.line_number")]',
        '~ id: inverse return-mode: no-matches unmatched-mode: keep files-mode: data, unmatched ~ $[*][#a == "3"]',
        '~ id: skipped run-mode: no-run ~ $[*][yes() print("never")]',
        '~ id: quiet print-mode: no-default unmatched-mode: no-keep ~ $[*][yes() print("quiet $.csvpath.line_number")]',
        '~ id: either logic-mode: OR description: any of them ~ $[1*][#a == "3" #b == "2"]',
        '$[*][#c == "x"]',
    ],
    "plain": [
        "~ just words ~ $[*][yes()]",
        '~ name: named not id validation-mode: no-raise, print ~ $[2-3][@c = count() yes()]',
    ],
}


def part_c():
    print("=" * 20, "PART C: CsvPaths")
    n = 0
    for method in ["collect_paths", "fast_forward_paths", "next_paths", "collect_by_line", "fast_forward_by_line", "next_by_line"]:
        for fname in ["ragged", "trail", "plain"]:
            for gname, paths in GROUPS.items():
                for d in ["archive", "inputs", "cache"]:
                    if os.path.exists(d):
                        shutil.rmtree(d)
                print(f"--- C{n} {method} file={fname} group={gname}")
                n += 1
                out = io.StringIO()
                err = None
                yielded = None
                cp = None
                with contextlib.redirect_stdout(out):
                    try:
                        cp = CsvPaths()
                        cp.file_manager.add_named_file(name=fname, path=f"data/{fname}.csv")
                        cp.paths_manager.add_named_paths(name=gname, paths=paths)
                        m = getattr(cp, method)
                        if method.startswith("next"):
                            yielded = [list(x) if isinstance(x, list) else x for x in m(filename=fname, pathsname=gname)]
                        else:
                            yielded = m(filename=fname, pathsname=gname)
                    except Exception as e:  # pylint: disable=W0718
                        err = exc_str(e)
                show("  error", err)
                show("  yielded", yielded)
                show("  stdout", out.getvalue())
                if cp is not None:
                    try:
                        results = cp.results_manager.get_named_results(gname)
                    except Exception as e:  # pylint: disable=W0718
                        results = []
                        show("  results raised", exc_str(e))
                    for r in results:
                        show("  result", r.csvpath.identity)
                        try:
                            lines = r.lines
                            lines = None if lines is None else [list(x) for x in lines.next()] if hasattr(lines, "next") else list(lines)
                        except Exception as e:  # pylint: disable=W0718
                            lines = exc_str(e)
                        show("    lines", lines)
                        try:
                            um = r.unmatched
                            um = None if um is None else [list(x) for x in um.next()] if hasattr(um, "next") else list(um)
                        except Exception as e:  # pylint: disable=W0718
                            um = exc_str(e)
                        show("    unmatched", um)
                        show("    csvpath.unmatched", r.csvpath.unmatched)
                        show("    variables", r.csvpath.variables)
                        show("    metadata", scrub(r.csvpath.metadata))
                        show("    is_valid", r.csvpath.is_valid)
                        show("    printouts", {k: list(v) for k, v in (r.printouts or {}).items()} if isinstance(r.printouts, dict) else r.printouts)
                        show("    errors", r.errors_count if hasattr(r, "errors_count") else None)
                        show("    printers", [type(x).__name__ for x in r.csvpath.printers])
                dump_tree("archive")


if __name__ == "__main__":
    part_a()
    part_b()
    part_c()
