#!/usr/bin/env python
"""Differential demonstration for t1 (Header: numeric name resolved once).

Run in an empty scratch directory:

    mkdir /tmp/demo_TZC01_1 && cd /tmp/demo_TZC01_1
    PYTHONPATH=/tmp/wt/TZC01 /venv/bin/python /tmp/wt/TZC01.out/t1/demo.py > out.txt

The transcript is deterministic: it must be byte-identical for unmodified
HEAD and for HEAD + patch.diff.
"""
import json
import os
import re
import shutil
import sys

CONFIG = """[csvpath_files]
extensions = txt, csvpath, csvpaths

[csv_files]
extensions = txt, csv, tsv, dat, tab, psv, ssv

[errors]
csvpath = raise, collect, stop, fail, print
csvpaths = raise, collect

[logging]
csvpath = info
csvpaths = info
log_file = logs/csvpath.log
log_files_to_keep = 100
log_file_size = 52428800

[config]
path = config/config.ini

[cache]
path = cache

[listeners]
[marquez]
base_url = http://localhost:5000

[functions]
imports = config/functions.imports

[results]
archive = archive
transfers = transfers

[inputs]
files = inputs/named_files
csvpaths = inputs/named_paths
on_unmatched_file_fingerprints = halt
"""

for d in ("config", "logs", "cache", "archive", "inputs"):
    shutil.rmtree(d, ignore_errors=True)
os.makedirs("config")
with open("config/config.ini", "w", encoding="utf-8") as f:
    f.write(CONFIG)
with open("config/functions.imports", "w", encoding="utf-8") as f:
    f.write("")

from csvpath import CsvPath  # noqa: E402
from csvpath.util.printer import Printer  # noqa: E402
from csvpath.matching.productions import Header  # noqa: E402

CWD = os.getcwd()


def norm(s) -> str:
    s = f"{s}"
    s = s.replace(CWD, "<CWD>")
    s = re.sub(r"0x[0-9a-fA-F]+", "0x?", s)
    # lark lists the tokens it expected in set order, which varies per process
    s = re.sub(
        r"^\t\* \w+(?:\n\t\* \w+)*$",
        lambda mo: "\n".join(sorted(mo.group(0).split("\n"))),
        s,
        flags=re.M,
    )
    return s


def trace_shape(trace) -> str:
    """function names of the frames only: file paths and line numbers move
    with every edit of a source file."""
    if not trace:
        return "-"
    return ">".join(re.findall(r", in (\S+)", trace))


class CapPrinter(Printer):
    def __init__(self):
        self.lines = []

    @property
    def last_line(self):
        return self.lines[-1] if self.lines else None

    @property
    def lines_printed(self) -> int:
        return len(self.lines)

    def print(self, string: str) -> None:
        self.print_to(None, string)

    def print_to(self, name: str, string: str) -> None:
        self.lines.append(f"[{name}] {string}")


def write(name: str, text: str) -> None:
    with open(name, "w", encoding="utf-8", newline="") as f:
        f.write(text)


def fresh(policy=None, **kw):
    p = CsvPath(print_default=False, **kw)
    pr = CapPrinter()
    p.add_printer(pr)
    if policy is not None:
        p.config.csvpath_errors_policy = policy
    return p, pr


def report(p, pr) -> None:
    print("   variables:", norm(json.dumps(p.variables, sort_keys=True, default=str)))
    print(
        "   is_valid:",
        p.is_valid,
        "stopped:",
        p.stopped,
        "aborted:",
        p.aborted,
        "scan_count:",
        p.scan_count,
        "match_count:",
        p.match_count,
    )
    print("   headers:", p.headers)
    es = p.errors or []
    print("   errors:", len(es))
    for e in es:
        print(
            "     -",
            type(e.error).__name__,
            "|",
            norm(e.error),
            "| line",
            e.line_count,
            "scan",
            e.scan_count,
            "match",
            e.match_count,
            "| source",
            norm(e.source),
            "| trace",
            trace_shape(e.trace),
            "| json",
            norm(" ".join(f"{e.json}".split())),
        )
    print("   printouts:", len(pr.lines))
    for ln in pr.lines:
        print("     >", norm(ln))
    if p.unmatched is not None:
        print("   unmatched:", p.unmatched)


def run(label, csvpath, *, policy=None, method="collect", **kw) -> None:
    print(f"== {label}: {csvpath}  policy={policy} method={method}")
    p, pr = fresh(policy, **kw)
    try:
        p.parse(csvpath)
        if method == "collect":
            lines = p.collect()
            print("   lines:", lines)
        elif method == "next":
            lines = []
            for ln in p.next():
                lines.append(list(ln))
            print("   lines:", lines)
        else:
            p.fast_forward()
            print("   fast_forward done")
    except Exception as ex:  # pylint: disable=W0718
        print("   RAISED:", type(ex).__name__, "|", norm(ex))
    report(p, pr)


# ---------------------------------------------------------------- files
write(
    "f1.csv",
    "a,b,c,2\n"
    "1,x,,9\n"
    "2,,z\n"
    ",,\n"
    "3, yy ,zz,7,extra\n"
    "\n"
    "10,q,r,0\n"
    "0,false,None,nan\n",
)
# same but the last line is blank
write("f2.csv", "a,b,c\n1,2,3\n4,,6\n7,8\n\n")
# wide file for multi-digit indexes
write(
    "wide.csv",
    ",".join(f"h{i}" for i in range(13))
    + "\n"
    + ",".join(str(i * 11) for i in range(13))
    + "\n"
    + ",".join(str(i) for i in range(11))
    + "\n"
    + ",".join("" if i % 2 else f"v{i}" for i in range(13))
    + "\n",
)
write("semi.csv", "a;b;c\n1;'x;y';3\n4;;6\n")
write("empty.csv", "")
write("one.csv", "only\n")

LOOSE = ["collect", "print"]

PATHS = [
    "$f1.csv[*][#0]",
    "$f1.csv[*][#1]",
    "$f1.csv[*][#2]",
    "$f1.csv[*][#3]",
    "$f1.csv[*][#4]",
    "$f1.csv[*][#5]",
    "$f1.csv[*][#007]",
    "$f1.csv[*][#00]",
    '$f1.csv[*][#"2"]',
    '$f1.csv[*][#"2" == "z"]',
    '$f1.csv[*][#2 == "z"]',
    "$f1.csv[*][#2 == #c]",
    "$f1.csv[*][#a == #0]",
    '$f1.csv[*][#0 == "1"]',
    "$f1.csv[*][#0 == 1]",
    "$f1.csv[*][#0 == 10]",
    "$f1.csv[1*][#0.asbool]",
    "$f1.csv[1*][#1.asbool]",
    "$f1.csv[1*][#2.asbool]",
    "$f1.csv[1*][#3.asbool]",
    "$f1.csv[1*][#3.nocontrib #1]",
    "$f1.csv[*][not(#1)]",
    "$f1.csv[*][not(#3)]",
    "$f1.csv[1*][gt(#0, 1)]",
    "$f1.csv[1*][gt(#3, 6)]",
    "$f1.csv[1*][lt(#0, #3)]",
    "$f1.csv[*][#a #b]",
    "$f1.csv[*][#1 #2 #3]",
    "$f1.csv[*][#3 #2 #1]",
    "$f1.csv[*][@x = #1 #0]",
    "$f1.csv[*][@x = #3 @y = #0 @z = #4]",
    "$f1.csv[*][@x.notnone = #2]",
    "$f1.csv[*][@t.onmatch = #0 #1]",
    "$f1.csv[*][#1 -> @seen = #0]",
    "$f1.csv[*][#3 -> @last3 = #3 last() -> @done = #0]",
    "$f1.csv[*][count(#1) == 2]",
    "$f1.csv[*][@c = count() #2]",
    "$f1.csv[1*][@s = add(#0, #3)]",
    "$f1.csv[1*][@s = concat(#1, #2, #4)]",
    "$f1.csv[*][length(#1) == 2]",
    "$f1.csv[*][push(\"firsts\", #0) push(\"fourths\", #3)]",
    "$f1.csv[2-4][#0]",
    "$f1.csv[1+3+6][#2]",
    "$f1.csv[3][#0]",
    "$f1.csv[*][#nosuch]",
    "$f1.csv[*][#2.nosuchqual]",
    "$f1.csv[*][collect(0, 3) #1]",
    "~ logic-mode: OR ~ $f1.csv[*][#3 #1 == \"q\"]",
    "~ logic-mode: OR ~ $f1.csv[*][#4 #5]",
    "~ logic-mode: OR ~ $f1.csv[*][#2 @x = #1]",
    "~ return-mode: no-matches ~ $f1.csv[*][#2]",
    "~ return-mode: no-matches unmatched-mode: keep ~ $f1.csv[*][#3]",
    "~ unmatched-mode: keep ~ $f1.csv[*][#1 collect(0, 1)]",
    "$f2.csv[*][#2]",
    "$f2.csv[*][#2 last() -> @end = #0]",
    "$f2.csv[*][@two = #2 last() -> print(\"last: $.variables.two\")]",
    "$f2.csv[*][print(\"$.headers.0 / $.headers.2 / $.headers.c\") #1]",
    "$wide.csv[*][#10]",
    "$wide.csv[*][#12]",
    "$wide.csv[*][#11 #10]",
    "$wide.csv[*][#1 == 11]",
    "$wide.csv[*][#10 == #h10]",
    "$wide.csv[*][#h11]",
    "$wide.csv[*][@a = #12 @b = #9 @c = #100]",
    "$wide.csv[1*][gt(#12, 100)]",
    "$empty.csv[*][#0]",
    "$one.csv[*][#0]",
    "$one.csv[*][#1]",
    "$one.csv[0][#0 == \"only\"]",
    # header changes mid-file: names move, numbers do not
    "$f1.csv[*][line_number() == 2 -> reset_headers() @a = #a @zero = #0 @z = #z @two = #2]",
    "$f1.csv[*][line_number() == 4 -> reset_headers() #3 #7]",
]

for i, cp in enumerate(PATHS):
    run(f"P{i}", cp)
    run(f"P{i}/loose", cp, policy=LOOSE)

for i, cp in enumerate(PATHS[0:12]):
    run(f"N{i}", cp, method="next", policy=LOOSE)
    run(f"F{i}", cp, method="ff", policy=LOOSE)

run("D0", "$semi.csv[*][#1]", delimiter=";", quotechar="'")
run("D1", "$semi.csv[*][#2 == 6]", delimiter=";", quotechar="'")
run("D2", "$semi.csv[*][#1]")
run("B0", "$f1.csv[*][#1]", skip_blank_lines=False, policy=LOOSE)
run("B1", "$f1.csv[*][not(#1)]", skip_blank_lines=False, policy=LOOSE)
run("B2", "$f2.csv[*][#2]", skip_blank_lines=False, policy=LOOSE)

# ------------------------------------------------- repeated / partial runs
print("== R0: the same instance used again")
p, pr = fresh(LOOSE)
p.parse("$f1.csv[*][#2 @x = #3]")
print("   first:", p.collect())
try:
    print("   second:", p.collect())
except Exception as ex:  # pylint: disable=W0718
    print("   RAISED:", type(ex).__name__, norm(ex))
report(p, pr)

print("== R1: collect(nexts=2) then the rest with next()")
p, pr = fresh(LOOSE)
p.parse("$f1.csv[*][#1]")
print("   two:", p.collect(nexts=2))
try:
    print("   rest:", [list(_) for _ in p.next()])
except Exception as ex:  # pylint: disable=W0718
    print("   RAISED:", type(ex).__name__, norm(ex))
report(p, pr)

print("== R2: the file is rewritten between two instances")
write("rw.csv", "a,b\n1,2\n3,\n")
run("R2a", "$rw.csv[*][#1]")
write("rw.csv", "a,b,c\n1,,2\n,3,\n5,6,7\n")
run("R2b", "$rw.csv[*][#1]")
run("R2c", "$rw.csv[*][#2]")

print("== R3: advance() and stop() in the middle of next()")
p, pr = fresh(LOOSE)
p.parse("$f1.csv[*][#0 @v = #3]")
got = []
for n, ln in enumerate(p.next()):
    got.append(list(ln))
    if n == 0:
        p.advance(2)
    if n == 2:
        p.stop()
print("   lines:", got)
report(p, pr)

# -------------------------------------- the Header object, driven directly
print("== H: one Header object, its name rewritten between lines")
p, pr = fresh(LOOSE)
p.parse("$f1.csv[*][#1 #b.asbool #3]")
p.collect()
m = p.matcher
hs = [et[0].children[0] for et in m.expressions]
print("   headers in the csvpath:", [norm(h) for h in hs], [h.name for h in hs])
# the run is over; unfreeze nothing, we only read values
LINES = [
    ["p", "q", "r", "s"],
    ["p"],
    [],
    ["", " padded ", "0", "false"],
    ["1", "2", "3", "4", "5", "6", "7", "8", "9", "10", "11"],
]
NAMES = [
    "1",
    "1",
    "3",
    "03",
    "b",
    "2",
    2,
    0,
    -1,
    -4,
    -5,
    True,
    "10",
    "10",
    "c",
    "nosuch",
    "1",
    "٣",  # ARABIC-INDIC DIGIT THREE: isdecimal() and int() == 3
    "²",  # SUPERSCRIPT TWO: isdigit() but not isdecimal()
    "1.0",
    "-1",
    " 1",
    "",
    None,
    1.0,
    "3",
]
for h in hs:
    for name in NAMES:
        h.name = name
        out = []
        for line in LINES:
            m.line = line
            h.reset()
            try:
                v = h.to_value(skip=[])
                again = h.to_value(skip=[])
                mt = h.matches(skip=[])
                out.append((v, again, mt))
            except Exception as ex:  # pylint: disable=W0718
                out.append(f"{type(ex).__name__}: {norm(ex)}")
        print(f"   {norm(h)!s:24} name={name!r:10} -> {out}")

print("== H2: many Header objects sharing a line, interleaved")
p, pr = fresh(LOOSE)
p.parse("$wide.csv[*][#0 #1 #10 #h10 #12 #h12]")
print("   lines:", p.collect())
m = p.matcher
hs = [et[0].children[0] for et in m.expressions]
for line in (["a"], ["a", "b"], [str(i) for i in range(13)], []):
    m.line = line
    for h in hs:
        h.reset()
    print("   ", line, "->", [h.to_value(skip=[]) for h in hs])
    hs[0].name, hs[2].name = hs[2].name, hs[0].name
    for h in hs:
        h.reset()
    print("    swapped ->", [h.to_value(skip=[]) for h in hs])

print("done")
