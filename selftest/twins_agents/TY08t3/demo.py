#!/usr/bin/env python
"""Differential demonstration for property C08 (serial vs breadth-first runs).

Run with cwd set to an empty scratch directory, e.g.

    mkdir -p /tmp/demo_TYC08_x && cd /tmp/demo_TYC08_x && \
        PYTHONPATH=/tmp/wt/TYC08 /venv/bin/python /path/to/demo.py > out.txt

The script is self-contained: it writes its own offline ./config/config.ini
(no OpenLineage listeners), its own data files and named-paths groups. Every
scenario runs in its own sub-directory ./work/sNNN so that archive listings
are deterministic. Everything observable is printed: returned lines, each
member's lines / unmatched / variables / validity / counters / errors /
printouts / metadata and the normalised content of ./archive.

This variant additionally captures every record the "csvpaths" logger emits
(the CsvPaths log level is set to debug in the generated config) because the
change under test moves log message texts into constants.
"""
import io
import json
import os
import re
import shutil
import sys
import contextlib
import logging

CONFIG = """[csvpath_files]
extensions = txt, csvpath, csvpaths

[csv_files]
extensions = txt, csv, tsv, dat, tab, psv, ssv

[errors]
csvpath = raise, collect, stop, fail, print
csvpaths = raise, collect

[logging]
csvpath = info
csvpaths = debug
log_file = logs/csvpath.log
log_files_to_keep = 100
log_file_size = 52428800

[config]
path = config/config.ini

[cache]
path = cache

[listeners]
[marquez]
base_url = http://localhost:5000

[functions]
imports = config/functions.imports

[results]
archive = archive
transfers = transfers

[inputs]
files = inputs/named_files
csvpaths = inputs/named_paths
on_unmatched_file_fingerprints = halt
"""

BASE = os.getcwd()
WORK = os.path.join(BASE, "work")

FILES = {
    "basic": "a,b,c\n1,2,3\n3,0,\n5,6,7\n3,4,0\n0,0,0\n7,8,9\n",
    "blank": "a,b,c\n1,2,3\n\n3,0,x\n\n\n5,6,7\n3,3,3\n\n",
    "ragged": "a,b,c\n1\n3,4\n5,6,7,8,9\n,,\n3,,5\n2,2\n",
    "quoted": 'a,b,c\n"1,5","say ""hi""",3\n3," ",\n"3","0","zero"\nñ,ü,3\n',
    "header_only": "a,b,c\n",
    "one_line_no_nl": "3,0,1",
    "trailing_blanks": "a,b,c\n3,1,1\n4,2,2\n\n\n",
}

GROUPS = {
    "single": ["$[*][yes()]"],
    "counting": [
        '~id:count~ $[*][@n = count_lines() #a == "3"]',
        "~id:sum~ $[1*][@s = sum(#b) above(#b, 1)]",
        "~name:tally~ $[1*][tally(#a) no()]",
    ],
    "effects": [
        '~id:pr~ $[*][print("line $.csvpath.line_number: a=$.headers.a matches=$.csvpath.count_matches")]',
        '~id:stopper~ $[*][@seen = count_lines() #a == "5" -> stop()]',
        '~id:failer~ $[1*][#b == "0" -> fail() @v = count()]',
        '~id:skipper~ $[*][#a == "3" -> skip() @after = count_lines()]',
    ],
    "advance": [
        '~id:adv~ $[*][@c = count() #a == "1" -> advance(2)]',
        "~id:all~ $[*][@lines.onmatch = count_lines()]",
    ],
    "scans": [
        "~id:r13~ $[1-3][yes()]",
        "~id:r2and4~ $[2+4][@x = line_number()]",
        "~id:r0~ $[0][yes()]",
        "~id:r3on~ $[3*][@c = count()]",
    ],
    "modes": [
        '~id:lim~ $[*][collect("a", "c") #a == "3"]',
        '~id:um unmatched-mode:keep~ $[*][#a == "3"]',
        '~id:rm return-mode:no-matches~ $[*][#a == "3"]',
        '~id:orr logic-mode:OR~ $[*][#a == "1" #b == "0"]',
        '~id:norun run-mode:no-run~ $[*][yes() print("never")]',
    ],
    "last": [
        '~id:lst~ $[*][last.nocontrib() -> print("last line is $.csvpath.line_number") @t = total_lines()]',
        "~id:first~ $[*][firstline.nocontrib() -> @hdrs = count_headers() yes()]",
    ],
    "quiet_errors": [
        '~id:bad validation-mode:no-raise,no-print,no-stop,no-fail~ $[1*][@d = divide(#a, #b)]',
        "~id:good~ $[*][@n = count()]",
    ],
    "loud_errors": [
        "~id:ok1~ $[*][@n = count()]",
        "~id:boom~ $[1*][@d = divide(#a, #b)]",
        "~id:ok2~ $[*][@n = count()]",
    ],
    "parse_error": [
        "~id:ok1~ $[*][@n = count()]",
        "~id:syntax~ $[*][nosuchfunction(#a)]",
        "~id:ok2~ $[*][yes()]",
    ],
    "unbalanced": [
        "~id:ok1~ $[*][yes()]",
        "~id:broken~ $[*][yes()",
    ],
    "same_twice": ['$[*][#a == "3"]', '$[*][#a == "3"]'],
    # the cross-path signals are outside the property but are existing behaviour
    "sig_stop": [
        '~id:s1~ $[*][@n = count_lines() #a == "5" -> stop_all()]',
        "~id:s2~ $[*][@n = count_lines()]",
    ],
    "sig_fail": [
        '~id:f1~ $[*][@n = count_lines() #a == "5" -> fail_all()]',
        "~id:f2~ $[*][@n = count_lines()]",
    ],
    "sig_skip": [
        '~id:k1~ $[*][#a == "3" -> skip_all() @n = count_lines()]',
        "~id:k2~ $[*][@n = count()]",
        "~id:k3~ $[*][@n = count()]",
    ],
    "sig_adv": [
        '~id:a1~ $[*][#a == "1" -> advance_all(2) @n = count()]',
        "~id:a2~ $[*][@n = count()]",
    ],
    "comments": [
        "~ id: spaced out   description: a $dollar and a [bracket] live here ~ $[*][yes()]",
        '~name:inner~ $[*][ ~ an inner comment ~ #a == "3" ~ another ~ ]',
        "~~ $[1*][yes()]",
        '~ Id:Mixed-Case_1 note: x:y ~$[*][ regex(#a, /[0-9]/) ]',
        "$[*][yes()] ~ id:trailing ~",
        "~ID:upper\n multi: line\n\tcomment ~\n$[*][\n  yes()\n]\n",
    ],
}

METADATA_BATTERY = [
    "$[*][yes()]",
    "~id:x~ $[*][yes()]",
    "~ id: x ~$f.csv[1-2][ #a == \"]\" ]",
    "~a:b~~c:d~ $[*][yes()]",
    "~ unterminated $[*][yes()]",
    "$[*][yes()] ~ id:after ~",
    "$[*][ ~ inner ~ yes() ] trailing text",
    "~ $ ~ $ $[*][ $x.variables.y ]",
    "~~$[*][]",
    "$",
    "~",
    "$[",
    "$]",
    "$[]][[]",
    "~id:ü~ $[*][ #ñ == \"~\" ]",
    "  ~ padded: yes ~   $[*][yes()]   ",
    "~x:~ $[*][yes()]",
    "~:~ $[*][yes()]",
    "~ a: 1 b: 2 c ~ $[*][yes()]",
    "~ words only no field ~ $[*][yes()]",
    "",
    "x[*][yes()]",
]

# ------------------------------------------------------------------ normalise

TS = re.compile(
    r"\d{4}-\d\d-\d\d[ T_]\d\d[:-]\d\d[:-]\d\d(?:\.\d+)?(?:\+00:00)?(?:\.\d+)?"
)
ADDR = re.compile(r" at 0x[0-9a-f]+")
VOLATILE_KEYS = {
    "time",
    "time_completed",
    "time_started",
    "uuid",
    "named_paths_uuid",
    "run_time",
    "lines_time",
    "last_line_time",
    "run_started_at",
    "at",
    "run",
    "named_file_last_change",
}


def norm_str(s: str) -> str:
    s = s.replace(BASE, "<BASE>")
    s = ADDR.sub(" at 0x..", s)
    s = TS.sub("<TS>", s)
    return s


def norm_trace(t):
    if t is None:
        return None
    lines = [ln for ln in f"{t}".strip().split("\n") if ln.strip()]
    return norm_str(lines[-1]) if lines else ""


def norm_json(o, rundirs):
    if isinstance(o, dict):
        out = {}
        for k, v in o.items():
            if k == "trace":
                out[k] = norm_trace(v)
            elif k in VOLATILE_KEYS:
                out[k] = None if v is None else "<volatile>"
            elif k == "file_fingerprints" and isinstance(v, dict):
                # meta.json and errors.json embed clock times / tracebacks
                out[k] = {
                    fk: ("<volatile>" if fk in ("meta.json", "errors.json") else fv)
                    for fk, fv in v.items()
                }
            else:
                out[k] = norm_json(v, rundirs)
        return out
    if isinstance(o, list):
        return [norm_json(v, rundirs) for v in o]
    if isinstance(o, str):
        s = o
        for real, alias in rundirs.items():
            s = s.replace(real, alias)
        return norm_str(s)
    return o


def dump_archive(root="archive"):
    if not os.path.exists(root):
        print("    (no archive)")
        return
    # map run directory names to RUN0, RUN1.. in chronological (sorted) order
    rundirs = {}
    for group in sorted(os.listdir(root)):
        gp = os.path.join(root, group)
        if os.path.isdir(gp):
            names = sorted(
                os.listdir(gp),
                key=lambda n: (n.split(".")[0], int(n.split(".")[1]) if "." in n else -1),
            )
            for i, rd in enumerate(names):
                rundirs[os.path.join(group, rd)] = os.path.join(group, f"RUN{i}")
    listing = []
    for dirpath, _, filenames in os.walk(root):
        for fn in filenames:
            listing.append(os.path.join(dirpath, fn))

    def alias(p):
        # longest names first so that "X.0" is not clobbered by "X"
        for real in sorted(rundirs, key=len, reverse=True):
            if real in p:
                return p.replace(real, rundirs[real])
        return p

    # aliases for substitution inside file content: bare run dir names, longest first
    bare = {}
    for real in sorted(rundirs, key=len, reverse=True):
        bare[real] = rundirs[real]
    for p in sorted(listing, key=alias):
        print(f"    FILE {alias(p)}")
        with open(p, "r", encoding="utf-8") as f:
            content = f.read()
        if p.endswith(".json"):
            try:
                j = json.loads(content)
                content = json.dumps(norm_json(j, bare), indent=1, sort_keys=False)
            except Exception as e:  # pragma: no cover
                content = f"(unparseable json: {type(e).__name__}) {norm_str(content)}"
        else:
            content = norm_str(content)
        for ln in content.split("\n"):
            print(f"      | {ln}")


# ------------------------------------------------------------------ observe


def lines_of(container):
    if container is None:
        return None
    if isinstance(container, list):
        return container
    return [ln for ln in container.next()]


def show_errors(errors, indent="      "):
    print(f"{indent}errors: {len(errors)}")
    for e in errors:
        j = e.to_json()
        j = norm_json(j, {})
        print(f"{indent}  - {json.dumps(j, sort_keys=True)}")


def show_csvpath(p, indent="      "):
    lm = p.line_monitor
    print(f"{indent}identity: {p.identity!r}")
    print(f"{indent}is_valid: {p.is_valid} stopped: {p.stopped} completed: {safe(lambda: p.completed)}")
    print(
        f"{indent}counters: scan_count={p.scan_count} match_count={p.match_count} "
        f"current_match_count={p.current_match_count} advance_count={p.advance_count}"
    )
    print(
        f"{indent}line_monitor: pln={lm.physical_line_number} plc={lm.physical_line_count} "
        f"peln={lm.physical_end_line_number} pelc={lm.physical_end_line_count} "
        f"dln={lm.data_line_number} dlc={lm.data_line_count} "
        f"deln={lm.data_end_line_number} delc={lm.data_end_line_count}"
    )
    print(f"{indent}variables: {json.dumps(p.variables, sort_keys=True, default=str)}")
    print(f"{indent}headers: {p.headers}")
    print(f"{indent}metadata: {json.dumps(norm_json(p.metadata, {}), sort_keys=True, default=str)}")
    print(f"{indent}unmatched: {p.unmatched}")
    print(f"{indent}collect_when_not_matched: {p.collect_when_not_matched}")


def safe(fn):
    try:
        return fn()
    except Exception as e:  # pylint: disable=W0718
        return f"<{type(e).__name__}: {norm_str(str(e))}>"


def show_results(cp, pathsname):
    try:
        results = cp.results_manager.get_named_results(pathsname)
    except Exception as e:  # pylint: disable=W0718
        print(f"    no named results: {type(e).__name__}")
        return
    print(f"    results: {len(results)}")
    for r in results:
        print(f"    - result run_index={r.run_index} identity_or_index={r.identity_or_index} by_line={r.by_line}")
        print(f"      lines: {safe(lambda: lines_of(r.lines))}")
        print(f"      result.unmatched: {r.unmatched}")
        print(f"      result.is_valid: {r.is_valid} has_errors: {r.has_errors()}")
        show_errors(r.errors)
        print(f"      printouts: {json.dumps(r.get_printouts(), sort_keys=True)}")
        print(f"      lines_printed: {r.lines_printed} last_line: {r.last_line!r}")
        show_csvpath(r.csvpath)
    rm = cp.results_manager
    print(f"    manager.is_valid: {safe(lambda: rm.is_valid(pathsname))}")
    print(f"    manager.has_errors: {safe(lambda: rm.has_errors(pathsname))}")
    print(f"    manager.get_variables: {safe(lambda: json.dumps(rm.get_variables(pathsname), sort_keys=True, default=str))}")
    print(f"    manager.has_lines: {safe(lambda: rm.has_lines(pathsname))}")
    print(f"    csvpaths.errors: {len(cp.errors)}")
    show_errors(cp.errors, indent="    ")
    print(
        f"    coordination: stop_all={cp._stop_all} fail_all={cp._fail_all} "
        f"skip_all={cp._skip_all} advance_all={cp._advance_all} "
        f"run_time_cleared={cp._current_run_time is None and cp._run_time_str is None}"
    )


# ------------------------------------------------------------------ log capture


class TranscriptHandler(logging.Handler):
    """prints the CsvPaths component's log records into the transcript"""

    def emit(self, record):
        try:
            msg = record.getMessage()
        except Exception as e:  # pylint: disable=W0718
            msg = f"<unformattable {type(e).__name__}> {record.msg!r} {record.args!r}"
        # tracebacks carry source line numbers, which any edit to a module shifts
        msg = re.sub(r'File "[^"]+", line \d+', 'File "<file>", line <n>', msg)
        # the line-count cache key includes the data file's mtime
        msg = re.sub(r"cache/[0-9a-f]{64}", "cache/<key>", msg)
        msg = msg.replace("\n", "\\n")
        if len(msg) > 300:
            msg = msg[:300] + "..."
        print(f"  LOG {record.levelname} {msg}")


_HANDLER = TranscriptHandler(level=logging.DEBUG)


def capture_logs():
    lg = logging.getLogger("csvpaths")
    if _HANDLER not in lg.handlers:
        lg.addHandler(_HANDLER)


# ------------------------------------------------------------------ scenarios

COUNTER = [0]


@contextlib.contextmanager
def scenario(title):
    COUNTER[0] += 1
    n = COUNTER[0]
    d = os.path.join(WORK, f"s{n:03d}")
    os.makedirs(os.path.join(d, "config"))
    with open(os.path.join(d, "config", "config.ini"), "w", encoding="utf-8") as f:
        f.write(CONFIG)
    with open(os.path.join(d, "config", "functions.imports"), "w", encoding="utf-8") as f:
        f.write("")
    for name, content in FILES.items():
        with open(os.path.join(d, f"{name}.csv"), "w", encoding="utf-8") as f:
            f.write(content)
    os.chdir(d)
    print(f"=== S{n:03d} {title}")
    buf = io.StringIO()
    try:
        with contextlib.redirect_stdout(buf):
            yield
    except Exception as e:  # pylint: disable=W0718
        buf.write(f"  !! scenario raised {type(e).__name__}: {norm_str(str(e))}\n")
    finally:
        os.chdir(BASE)
    # stdout of the library (print() to the default printer) is part of the transcript
    sys.stdout.write(norm_str(buf.getvalue()))
    print()


def make(filename, groupname, paths=None):
    from csvpath import CsvPaths

    cp = CsvPaths()
    capture_logs()
    cp.file_manager.add_named_file(name=filename, path=f"{filename}.csv")
    cp.paths_manager.add_named_paths(
        name=groupname, paths=list(GROUPS[groupname] if paths is None else paths)
    )
    return cp


def call(label, fn):
    print(f"  -> {label}")
    try:
        ret = fn()
        if ret is not None and not isinstance(ret, list):
            out = []
            for line in ret:
                out.append(line)
            ret = out
        print(f"  <- returned: {ret}")
    except Exception as e:  # pylint: disable=W0718
        print(f"  <- raised {type(e).__name__}: {norm_str(str(e))}")


METHODS = [
    ("collect_paths", lambda cp, f, g: cp.collect_paths(filename=f, pathsname=g)),
    ("fast_forward_paths", lambda cp, f, g: cp.fast_forward_paths(filename=f, pathsname=g)),
    ("next_paths", lambda cp, f, g: cp.next_paths(filename=f, pathsname=g)),
    ("next_paths(collect)", lambda cp, f, g: cp.next_paths(filename=f, pathsname=g, collect=True)),
    ("collect_by_line", lambda cp, f, g: cp.collect_by_line(filename=f, pathsname=g)),
    ("fast_forward_by_line", lambda cp, f, g: cp.fast_forward_by_line(filename=f, pathsname=g)),
    ("next_by_line", lambda cp, f, g: cp.next_by_line(filename=f, pathsname=g)),
    ("next_by_line(collect)", lambda cp, f, g: cp.next_by_line(filename=f, pathsname=g, collect=True)),
    (
        "collect_by_line(if_all_agree)",
        lambda cp, f, g: cp.collect_by_line(filename=f, pathsname=g, if_all_agree=True),
    ),
    (
        "collect_by_line(collect_when_not_matched)",
        lambda cp, f, g: cp.collect_by_line(
            filename=f, pathsname=g, collect_when_not_matched=True
        ),
    ),
    (
        "collect_by_line(if_all_agree,collect_when_not_matched)",
        lambda cp, f, g: cp.collect_by_line(
            filename=f, pathsname=g, if_all_agree=True, collect_when_not_matched=True
        ),
    ),
]


def standalone(filename, groupname):
    from csvpath import CsvPath

    for i, path in enumerate(GROUPS[groupname]):
        for how in ("collect", "fast_forward", "next"):
            with scenario(f"standalone {how} file={filename} group={groupname}[{i}]"):
                p = CsvPath()
                full = path.replace("$[", f"${filename}.csv[", 1)
                try:
                    p.parse(full)
                    if how == "collect":
                        print(f"  collected: {p.collect()}")
                    elif how == "fast_forward":
                        p.fast_forward()
                    else:
                        print(f"  next: {[ln for ln in p.next()]}")
                except Exception as e:  # pylint: disable=W0718
                    print(f"  raised {type(e).__name__}: {norm_str(str(e))}")
                show_errors(p.errors or [], indent="  ")
                if p.line_monitor is not None and p.scanner is not None:
                    show_csvpath(p, indent="  ")


def group_runs(filename, groupname, methods=None, archive=True, reverse=False):
    for label, fn in METHODS:
        if methods is not None and label not in methods:
            continue
        paths = list(GROUPS[groupname])
        if reverse:
            paths.reverse()
        title = f"{label} file={filename} group={groupname}{' (reversed)' if reverse else ''}"
        with scenario(title):
            cp = make(filename, groupname, paths)
            call(label, lambda: fn(cp, filename, groupname))
            show_results(cp, groupname)
            if archive:
                dump_archive()


def main():
    if os.path.exists(WORK):
        shutil.rmtree(WORK)
    os.makedirs(WORK)

    core = [
        "collect_paths",
        "fast_forward_paths",
        "next_paths(collect)",
        "collect_by_line",
        "fast_forward_by_line",
        "next_by_line",
    ]
    # 1. the full method matrix, with archive dumps, on the bread-and-butter group
    group_runs("basic", "counting")
    group_runs("blank", "effects")
    # 2. every group on several files, both orders, core methods
    for g in GROUPS:
        for f in ("basic", "blank", "ragged"):
            group_runs(f, g, methods=core, archive=False)
        group_runs("basic", g, methods=["collect_paths", "collect_by_line"], archive=False, reverse=True)
    # 3. edge-case files
    for f in ("quoted", "header_only", "one_line_no_nl", "trailing_blanks"):
        for g in ("single", "counting", "last", "modes"):
            group_runs(f, g, methods=["collect_paths", "next_paths", "collect_by_line", "collect_by_line(if_all_agree)"], archive=(g == "last"))
    # 4. if_all_agree / collect_when_not_matched matrix
    for g in ("effects", "scans", "same_twice", "modes"):
        group_runs(
            "basic",
            g,
            methods=[
                "collect_by_line(if_all_agree)",
                "collect_by_line(collect_when_not_matched)",
                "collect_by_line(if_all_agree,collect_when_not_matched)",
                "next_by_line(collect)",
            ],
            archive=(g == "effects"),
        )
    # 5. standalone CsvPath instances for comparison
    for g in ("counting", "effects", "scans", "quiet_errors"):
        standalone("blank", g)

    # 6. repeated runs on one CsvPaths instance: results must not accumulate
    with scenario("repeated runs on one instance, alternating schedules"):
        cp = make("blank", "effects")
        for label in ("collect_paths", "collect_by_line", "fast_forward_paths", "next_by_line(collect)", "next_paths(collect)", "fast_forward_by_line"):
            fn = dict(METHODS)[label]
            call(label, lambda: fn(cp, "blank", "effects"))
            show_results(cp, "effects")
        dump_archive()

    # 7. a caller that abandons the generators early
    with scenario("caller breaks out of next_by_line after two lines"):
        cp = make("basic", "counting")
        gen = cp.next_by_line(filename="basic", pathsname="counting", collect=True)
        got = []
        for line in gen:
            got.append(line)
            print(f"  mid-run current_matcher={cp.current_matcher.identity!r} valid={cp.results_manager.is_valid('counting')}")
            if len(got) == 2:
                break
        gen.close()
        print(f"  got: {got}")
        show_results(cp, "counting")
        dump_archive()
    with scenario("caller breaks out of next_paths after three lines"):
        cp = make("basic", "counting")
        gen = cp.next_paths(filename="basic", pathsname="counting", collect=True)
        got = []
        for line in gen:
            got.append(line)
            if len(got) == 3:
                break
        gen.close()
        print(f"  got: {got}")
        show_results(cp, "counting")
        dump_archive()

    # 8. input errors
    with scenario("unknown named-paths / named-file / empty group"):
        cp = make("basic", "single")
        for label, fn in METHODS[:8]:
            call(f"{label} unknown paths", lambda: fn(cp, "basic", "nope"))
            call(f"{label} unknown file", lambda: fn(cp, "nope", "single"))
        print(f"  csvpaths.errors: {len(cp.errors)}")
        try:
            cp.paths_manager.add_named_paths(name="empty", paths=[])
        except Exception as e:  # pylint: disable=W0718
            print(f"  add empty raised {type(e).__name__}: {e}")
        for label, fn in METHODS[:8]:
            call(f"{label} empty group", lambda: fn(cp, "basic", "empty"))
        dump_archive()

    # 10. the comment/metadata extraction used by _load_csvpath for every member
    with scenario("metadata parser battery"):
        from csvpath import CsvPath
        from csvpath.util.metadata_parser import MetadataParser

        for text in METADATA_BATTERY:
            holder = CsvPath()
            print(f"  input: {text!r}")
            print(f"    extract_csvpath_and_comment: {safe(lambda: MetadataParser(holder).extract_csvpath_and_comment(text))!r}")
            print(f"    extract_metadata: {safe(lambda: MetadataParser(holder).extract_metadata(instance=holder, csvpath=text))!r}")
            print(f"    metadata: {json.dumps(holder.metadata, sort_keys=True)} identity: {holder.identity!r}")

    # 9. non-default CsvPaths settings flow into every member in both schedules
    with scenario("delimiter / quotechar / skip_blank_lines=False / print_default=False"):
        from csvpath import CsvPaths

        with open("pipes.csv", "w", encoding="utf-8") as f:
            f.write("a|b|c\n1|'x|y'|3\n\n3|0|\n")
        for kwargs in (
            {"delimiter": "|", "quotechar": "'"},
            {"delimiter": "|", "quotechar": "'", "skip_blank_lines": False},
            {"delimiter": "|", "quotechar": "'", "print_default": False},
        ):
            for label in ("collect_paths", "collect_by_line"):
                cp = CsvPaths(**kwargs)
                capture_logs()
                cp.file_manager.add_named_file(name="pipes", path="pipes.csv")
                cp.paths_manager.add_named_paths(
                    name="g",
                    paths=[
                        '~id:p1~ $[*][print("b is $.headers.b") @n = count_lines()]',
                        '~id:p2~ $[*][#a == "3"]',
                    ],
                )
                fn = dict(METHODS)[label]
                call(f"{label} {sorted(kwargs.items())}", lambda: fn(cp, "pipes", "g"))
                show_results(cp, "g")


if __name__ == "__main__":
    main()
