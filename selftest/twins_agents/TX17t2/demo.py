#!/venv/bin/python
"""Differential demonstration for refactoring t2 (property C17).

t2 restructures LarkTransformer: the three places that hand-build an Equality
(when/do in expression(), assignment(), equality()) now share the private
helper _equality(left, op, right), and the HEADER / VARIABLE / REFERENCE token
callbacks share _named(production, token).

Run in an empty scratch directory:

    mkdir -p /tmp/demo_TXC17_2 && cd /tmp/demo_TXC17_2
    PYTHONPATH=<tree> /venv/bin/python demo.py > out.txt

The script is self-contained: it writes ./config/config.ini, its CSV files and
removes ./archive ./inputs ./cache ./logs before starting. Everything printed
is deterministic (timestamps, uuids, traces and timings are masked).
"""
import os
import sys

if os.environ.get("PYTHONHASHSEED") != "0":
    # lark's "Expected one of" lists are built from sets of strings. pin the
    # hash seed so that the transcript does not depend on the process.
    os.environ["PYTHONHASHSEED"] = "0"
    os.execv(sys.executable, [sys.executable] + sys.argv)

import contextlib
import io
import json
import random
import re
import shutil

CONFIG = """[csvpath_files]
extensions = txt, csvpath, csvpaths

[csv_files]
extensions = txt, csv, tsv, dat, tab, psv, ssv

[errors]
csvpath = collect, fail, print
csvpaths = collect

[logging]
csvpath = info
csvpaths = info
log_file = logs/csvpath.log
log_files_to_keep = 100
log_file_size = 52428800

[config]
path = config/config.ini

[cache]
path = cache

[listeners]
[marquez]
base_url = http://localhost:5000

[functions]
imports = config/functions.imports

[results]
archive = archive
transfers = transfers

[inputs]
files = inputs/named_files
csvpaths = inputs/named_paths
on_unmatched_file_fingerprints = halt
"""

FOOD = """firstname,lastname,say,Last Year Number,a.b
David,Kermit,ribbit,10,x

Fish,Bat,blurgh,0,
Frog,Bat,ribbit,-3.5
,,,,
Bug,Bat,"sniffle sniffle",007,y,extra
Ant,,,+4,z
"""

SMALL = """a,b,c
1,2,3

4,,6
7,8
0,x,"y z"

"""


def setup():
    for d in ("archive", "inputs", "cache", "logs", "config", "transfers"):
        shutil.rmtree(d, ignore_errors=True)
    os.makedirs("config")
    with open("config/config.ini", "w", encoding="utf-8") as f:
        f.write(CONFIG)
    with open("config/functions.imports", "w", encoding="utf-8") as f:
        f.write("")
    with open("food.csv", "w", encoding="utf-8") as f:
        f.write(FOOD)
    with open("small.csv", "w", encoding="utf-8") as f:
        f.write(SMALL)
    with open("empty.csv", "w", encoding="utf-8") as f:
        f.write("")
    with open("headers_only.csv", "w", encoding="utf-8") as f:
        f.write("a,b,c\n")


setup()

from csvpath import CsvPath, CsvPaths  # noqa: E402
from csvpath.matching.util.expression_utility import ExpressionUtility  # noqa: E402
from csvpath.matching.productions import (  # noqa: E402
    Equality,
    Expression,
    Header,
    Reference,
    Term,
    Variable,
)
from csvpath.matching.productions.qualified import Qualified  # noqa: E402
from csvpath.matching.functions.function import Function  # noqa: E402
from csvpath.matching.functions.function_factory import FunctionFactory  # noqa: E402

RUN_RE = re.compile(r"\d{4}-\d{2}-\d{2}_\d{2}-\d{2}-\d{2}(\.\d+)?")
RUN_NAMES = {}  # "<named-paths>/<run dir>" -> "<named-paths>/<RUNk>", k in run order
ADDR_RE = re.compile(r"0x[0-9a-f]{6,}")
HEX_RE = re.compile(r"[0-9a-f]{64}")
VOLATILE = {
    "time",
    "uuid",
    "run_time",
    "lines_time",
    "last_line_time",
    "run_started_at",
    "time_completed",
    "named_paths_uuid",
    "trace",
    "at",
    "named_file_last_change",
    "last_change",
    "from",
}


def say(*args):
    print(*args)


def norm_text(s):
    for k in sorted(RUN_NAMES, key=len, reverse=True):
        s = s.replace(k, RUN_NAMES[k])
    s = RUN_RE.sub("<RUN>", s)
    s = ADDR_RE.sub("0x<addr>", s)
    return s


def map_run_dirs(root="archive"):
    """run dirs are named for the second the run started in, with .N added
    when two runs of the same named-paths start within one second. number
    them in run order so the transcript does not depend on the clock."""
    RUN_NAMES.clear()
    if not os.path.isdir(root):
        return
    for np_ in sorted(os.listdir(root)):
        d = os.path.join(root, np_)
        if not os.path.isdir(d):
            continue
        runs = [r for r in os.listdir(d) if RUN_RE.fullmatch(r)]

        def order(r):
            base, _, n = r.partition(".")
            return (base, int(n) if n != "" else -1)

        for k, r in enumerate(sorted(runs, key=order)):
            RUN_NAMES[f"{np_}/{r}"] = f"{np_}/<RUN{k + 1}>"


def norm_json(o, parent=None):
    if isinstance(o, dict):
        out = {}
        for k, v in o.items():
            if k in VOLATILE and v is not None:
                out[k] = "<masked>"
            elif k == "file_fingerprints" and isinstance(v, dict):
                # these files embed times (and traces) so their digests vary
                out[k] = {
                    fk: (
                        "<masked>"
                        if fk in ("meta.json", "manifest.json", "errors.json")
                        else fv
                    )
                    for fk, fv in v.items()
                }
            else:
                out[k] = norm_json(v, k)
        return out
    if isinstance(o, list):
        return [norm_json(_) for _ in o]
    if isinstance(o, str):
        return norm_text(o)
    return o


def describe_exception(e):
    chain = []
    seen = 0
    while e is not None and seen < 6:
        chain.append(f"{type(e).__name__}: {norm_text(str(e))}")
        nxt = getattr(e, "orig_exc", None) or e.__cause__
        e = nxt
        seen += 1
    return " <- ".join(chain)


def dump(node, indent=0):
    """dumps a match component tree: kind, name, qualifiers, op, value, children"""
    pad = "  " * indent
    kind = type(node).__name__
    bits = [kind]
    if isinstance(node, Function):
        bits.append(f"fname={node.name!r}")
    elif isinstance(node, (Header, Variable, Reference)):
        bits.append(f"name={node.name!r}")
    if isinstance(node, Qualified) and not isinstance(node, (Expression, Equality)):
        bits.append(f"qname={node.qualified_name!r}")
        bits.append(f"quals={node.qualifiers!r}")
        if node.qualifier is not None:
            bits.append(f"qualifier={node.qualifier!r}")
    if isinstance(node, Equality):
        bits.append(f"op={str(node.op)!r}")
    if isinstance(node, Term):
        bits.append(f"value={node.value!r}:{type(node.value).__name__}")
    say(pad + " ".join(bits))
    for c in node.children:
        if c is None:
            say(pad + "  None")
            continue
        if c.parent is not node:
            say(pad + "  !! parent mismatch below")
        dump(c, indent + 1)


def tree_text(path):
    buf = io.StringIO()
    with contextlib.redirect_stdout(buf):
        p = CsvPath()
        p.parse(path)
        m = p.parse(path, disposably=True)
        for e in m.expressions:
            dump(e[0])
    return buf.getvalue()


def show_errors(errors):
    if errors is None:
        say("  errors: None")
        return
    say(f"  errors: {len(errors)}")
    for e in errors:
        say(
            "   - line=%s match=%s scan=%s class=%s error=%s source=%s message=%s datum=%s"
            % (
                e.line_count,
                e.match_count,
                e.scan_count,
                type(e.error).__name__,
                norm_text(str(e.error)),
                norm_text(str(e.source)),
                e.message,
                e.datum,
            )
        )


def show_metadata(md):
    say("  metadata:", json.dumps(norm_json(md), sort_keys=True, default=str))


def run(path, *, method="collect", show_tree=False):
    say("-" * 70)
    say(f"RUN[{method}] {path!r}")
    out = io.StringIO()
    p = None
    try:
        with contextlib.redirect_stdout(out):
            p = CsvPath()
            p.parse(path)
            lines = None
            if method == "collect":
                lines = p.collect()
            elif method == "fast_forward":
                p.fast_forward()
            elif method == "next":
                lines = []
                for line in p.next():
                    lines.append(list(line))
        if show_tree:
            say("  tree:")
            tt = io.StringIO()
            with contextlib.redirect_stdout(tt):
                for e in p.matcher.expressions:
                    dump(e[0], 2)
            sys.stdout.write(tt.getvalue())
        if lines is not None:
            say(f"  lines: {len(lines)}")
            for line in lines:
                say(f"   {line!r}")
        say("  scan:", p.scan, "| match:", p.match)
        say("  variables:", json.dumps(p.variables, sort_keys=True, default=str))
        say("  is_valid:", p.is_valid, "stopped:", p.stopped)
        say(
            "  counts: lines=%s scans=%s matches=%s"
            % (
                p.line_monitor.physical_line_count,
                p.scan_count,
                p.match_count,
            )
        )
        show_errors(p.errors)
        show_metadata(p.metadata)
    except Exception as e:  # pylint: disable=W0718
        say("  EXCEPTION:", describe_exception(e))
        if p is not None:
            try:
                show_errors(p.errors)
                say("  is_valid:", p.is_valid)
            except Exception as e2:  # pylint: disable=W0718
                say("  (no errors available: %s)" % type(e2).__name__)
    printed = out.getvalue()
    say("  printouts:")
    for ln in printed.split("\n"):
        say("   |" + norm_text(ln))


def layouts(tokens, n, seed):
    """tokens: the csvpath as a list of strings. items of the list that are
    None mark the places between match components where whitespace, newlines
    and ~comments~ may be inserted."""
    rnd = random.Random(seed)
    fillers = [
        "",
        " ",
        "  ",
        "\n",
        "\t",
        " \n  ",
        "\r\n",
        " ~a comment~ ",
        "~x~",
        "\n~ multi\n line: comment ~\n",
        " ~~ ",
        "~ #notaheader @notavar yes() ~",
    ]
    out = []
    for _ in range(n):
        s = ""
        for t in tokens:
            if t is None:
                f = rnd.choice(fillers)
                # a filler must at least separate the components
                s += f if f != "" else " "
            else:
                s += t
        out.append(s)
    return out


# =====================================================================
from csvpath.matching.lark_parser import LarkParser  # noqa: E402
from csvpath.matching.lark_transformer import LarkTransformer  # noqa: E402
from lark.lexer import Token  # noqa: E402

say("=" * 70)
say("PART A: LarkParser + LarkTransformer directly (no matcher, no file)")
MATCH_PARTS = [
    "[]",
    "[ ]",
    "[~only a comment~]",
    "[ ~one~ ~two~ ]",
    "[yes()]",
    "[#a]",
    '[#"a b"]',
    "[#0]",
    "[@v]",
    "[$f.variables.x]",
    "[$.headers.a]",
    # assignment: VARIABLE ASSIGN (left|REFERENCE|term)
    "[@v = #a]",
    "[@v = @w]",
    "[@v = count()]",
    "[@v = $f.variables.x]",
    '[@v = "s"]',
    "[@v = 0]",
    "[@v = -0]",
    "[@v = +1]",
    "[@v = -1.50]",
    "[@v = .5]",
    "[@v = 5.]",
    "[@v = 1e3]",
    "[@v = /a.b/]",
    '[@v = ""]',
    '[@v = " "]',
    # equality: left EQUALS (left|REFERENCE|term)
    "[#a == #b]",
    "[#a == @b]",
    "[#a == none()]",
    "[#a == $f.headers.b]",
    '[#a == "x"]',
    "[#a == 0]",
    "[@a == 0.0]",
    "[count() == 3]",
    "[count() == count_lines()]",
    "[#a == /^x$/]",
    # when/do: (left|REFERENCE|equality) WHEN (function|assignment)
    "[#a -> print(\"p\")]",
    "[@a -> @b = 1]",
    "[yes() -> @b = #c]",
    "[$f.variables.x -> skip()]",
    "[#a == 1 -> @b = 2]",
    "[#a == #b -> print(\"same\")]",
    "[count() == 2 -> @c.onmatch = add(@c, 1)]",
    # args
    "[add(1)]",
    "[add(1,2)]",
    "[add(1, 2, 3, 4, 5)]",
    "[add(#a, @b, $f.variables.c, count(), #d == 1, \"s\", /r/, -2)]",
    "[not(not(not(not(yes()))))]",
    "[or(#a == 1, and(#b == 2, #c == 3), in(#d, \"x|y\"))]",
    "[any(headers(), \"x\")]",
    "[print(\"a\", print(\"b\"))]",
    # several expressions
    "[#a #b #c]",
    "[#a ~c~ #b\n\n#c]",
    "[@a=1 @b=2 @c=@a]",
    "[@a=1@b=2]",
    "[#a==1#b==2]",
    "[yes()no()]",
    # qualifiers
    "[@a.onmatch.latch = count.x.onmatch() #h.asbool == yes.nocontrib()]",
    # errors
    "[",
    "]",
    "",
    "[@v = ]",
    "[= 1]",
    "[#a == ]",
    "[#a = 1]",
    "[1 == #a]",
    '["s"]',
    "[#a -> #b]",
    "[#a -> ]",
    "[-> print(\"x\")]",
    "[@a = 1 -> print(\"x\")]",
    "[#a -> #b == 1]",
    "[add(,)]",
    "[add(1,)]",
    "[add(1 2)]",
    "[add(1]",
    "[nosuchfunction()]",
    "[yes() ~unterminated]",
    "[@a == == 1]",
    "[@ = 1]",
    "[# == 1]",
]
for mp in MATCH_PARTS:
    say(f"MATCH {mp!r}")
    try:
        tree = LarkParser().parse(mp)
        es = LarkTransformer(None).transform(tree)
        say(f"  expressions: {len(es)} ({type(es).__name__})")
        for e in es:
            dump(e, 1)
            say("  str:", norm_text(str(e)))
    except Exception as e:  # pylint: disable=W0718
        say("  EXCEPTION:", describe_exception(e).replace("\n", "\\n"))

say("=" * 70)
say("PART B: transformer callbacks called one by one")
t = LarkTransformer(None)


def tok(kind, text):
    return Token(kind, text)


def show(label, fn):
    try:
        r = fn()
        if r is None:
            say(f"  {label}: None")
        elif isinstance(r, list):
            say(f"  {label}: list of {len(r)}")
        else:
            say(f"  {label}: {norm_text(str(r))}")
            dump(r, 2)
    except Exception as e:  # pylint: disable=W0718
        say(f"  {label}: EXC {type(e).__name__}: {e}")


for kind, cb in (("HEADER", t.HEADER), ("VARIABLE", t.VARIABLE), ("REFERENCE", t.REFERENCE)):
    for text in ["#a", "@a", "$a", "#a.b.c", '#"a b"', '#"a.b"', "#", "##", "# ", "#.", "#0", "a", ""]:
        show(f"{kind}({text!r})", lambda cb=cb, kind=kind, text=text: cb(tok(kind, text)))
    show(f"{kind}(None)", lambda cb=cb: cb(None))
    show(f"{kind}('#plainstr')", lambda cb=cb: cb("#plainstr"))

h = t.HEADER(tok("HEADER", "#h"))
v = t.VARIABLE(tok("VARIABLE", "@v"))
r_ = t.REFERENCE(tok("REFERENCE", "$f.variables.x"))
one = t.SIGNED_NUMBER(tok("SIGNED_NUMBER", "1"))
f = t.function("count", None)
show("equality(h, '==', v)", lambda: t.equality(h, tok("EQUALS", "=="), v))
h = t.HEADER(tok("HEADER", "#h"))
show("equality(h, 'anything', one)", lambda: t.equality(h, "anything", one))
h = t.HEADER(tok("HEADER", "#h"))
show("equality(h, None, h) same object twice", lambda: t.equality(h, None, h))
show("equality(None, '==', one)", lambda: t.equality(None, "==", one))
show("equality(v, '==', None)", lambda: t.equality(v, "==", None))
show("equality('str', '==', one)", lambda: t.equality("str", "==", one))
v = t.VARIABLE(tok("VARIABLE", "@v"))
show("assignment(v, '=', one)", lambda: t.assignment(v, tok("ASSIGN", "="), one))
a_ = t.assignment(t.VARIABLE(tok("VARIABLE", "@w")), tok("ASSIGN", "="), t.STRING(tok("STRING", '"s"')))
say("  assignment op type:", type(a_.op).__name__, repr(str(a_.op)), "left/right parents ok:", a_.left.parent is a_, a_.right.parent is a_, "children:", len(a_.children))
show("assignment(v, 'weird-op', f)", lambda: t.assignment(t.VARIABLE(tok("VARIABLE", "@v")), "weird-op", f))
show("assignment(None, '=', one)", lambda: t.assignment(None, "=", one))
show("assignment(v, '=', None)", lambda: t.assignment(t.VARIABLE(tok("VARIABLE", "@v")), "=", None))
show("expression(None)", lambda: t.expression(None))
show("expression(None, None, None)", lambda: t.expression(None, None, None))
show("expression(h)", lambda: t.expression(t.HEADER(tok("HEADER", "#h"))))
show("expression(h, '->', f)", lambda: t.expression(t.HEADER(tok("HEADER", "#h")), tok("WHEN", "->"), t.function("yes", None)))
show("expression(h, 'x', None)", lambda: t.expression(t.HEADER(tok("HEADER", "#h")), "x", None))
show("expression(None, '->', f)", lambda: t.expression(None, "->", t.function("yes", None)))
show("expression(None, None, f)", lambda: t.expression(None, None, t.function("yes", None)))
e_ = t.expression(t.equality(t.HEADER(tok("HEADER", "#a")), "==", t.SIGNED_NUMBER(tok("SIGNED_NUMBER", "1"))), "->", t.assignment(t.VARIABLE(tok("VARIABLE", "@b")), tok("ASSIGN", "="), t.SIGNED_NUMBER(tok("SIGNED_NUMBER", "2.0"))))
show("nested when/do", lambda: e_)
wd = e_.children[0]
say("  when/do op:", repr(wd.op), type(wd.op).__name__, "left op:", repr(wd.left.op), "right op:", repr(str(wd.right.op)), "parents:", wd.parent is e_, wd.left.parent is wd, wd.right.parent is wd)
show("match(e, None, e)", lambda: t.match(e_, None, e_))
show("match()", lambda: t.match())
for num in ["0", "-0", "+0", "1", "-1", "+1", "1.0", "-1.50", ".5", "-.5", "5.", "1e3", "1E-2", "007", "1.5e3"]:
    show(f"SIGNED_NUMBER({num!r})", lambda num=num: t.SIGNED_NUMBER(tok("SIGNED_NUMBER", num)))
show("SIGNED_NUMBER(x)", lambda: t.SIGNED_NUMBER(tok("SIGNED_NUMBER", "x")))
show("STRING", lambda: t.STRING(tok("STRING", '"a ""b"')))
show("REGEX", lambda: t.REGEX(tok("REGEX", "/a\\/b/")))
show("COMMENT", lambda: t.COMMENT(tok("COMMENT", "~x~")))
show("args('(', ')')", lambda: t.args("(", ")"))
show("args('(', one, ')')", lambda: t.args("(", one, ")"))
show("args 2", lambda: t.args("(", t.SIGNED_NUMBER(tok("SIGNED_NUMBER", "1")), ",", t.SIGNED_NUMBER(tok("SIGNED_NUMBER", "2")), ")"))

# =====================================================================
say("=" * 70)
say("PART C: one AST, many layouts -> one tree")
ASTS = [
    [
        "$food.csv[*][",
        None,
        '#"Last Year Number"',
        None,
        "@n.onmatch.increase = count.mine.onmatch()",
        None,
        '#firstname.nocontrib == "Frog" -> @frog.latch.notnone = #0',
        None,
        "$food.csv.variables.n",
        None,
        "@r = $food.csv.headers.say",
        None,
        "#say == $food.csv.variables.frog -> print(\"x\")",
        None,
        "]",
    ],
    [
        "$food.csv[1-3+5][",
        None,
        "tally.names.onmatch(#firstname, #lastname)",
        None,
        'or.x(#say=="ribbit", in.y(#2, "a|b|c"), not.z(empty.w(#1)))',
        None,
        "@a.b.c.d = add(-1, +2.50, 0, .5)",
        None,
        "regex.r(/s[a-z]+\\.?le/, #say)",
        None,
        "@x == @y",
        None,
        "@z = @x",
        None,
        "last() -> @l = count_lines()",
        None,
        "]",
    ],
]
for i, toks in enumerate(ASTS):
    canonical = "".join(" " if t_ is None else t_ for t_ in toks)
    say(f"AST {i}: {canonical!r}")
    try:
        base = tree_text(canonical)
        sys.stdout.write(base)
        same = 0
        for lay in layouts(toks, 25, 2000 + i):
            tt_ = tree_text(lay)
            if tt_ == base:
                same += 1
            else:
                say("  DIFFERENT TREE for layout", repr(lay))
                sys.stdout.write(tt_)
        say(f"  layouts identical to canonical: {same}/25")
    except Exception as e:  # pylint: disable=W0718
        say("  EXCEPTION:", describe_exception(e))

# =====================================================================
say("=" * 70)
say("PART D: runs")
RUNS = [
    "$food.csv[*][yes()]",
    "$food.csv[*][]",
    "$food.csv[*][~nothing~]",
    '$food.csv[*][ #"Last Year Number" == 0 ]',
    '$food.csv[*][ #"Last Year Number" == "0" ]',
    "$food.csv[*][ #3 == -3.5 ]",
    "$food.csv[*][ #3 == +4 ]",
    "$food.csv[*][ #3 == 7 ]",
    "$food.csv[*][ #3 == 007 ]",
    '$food.csv[*][ #say == "" ]',
    "$food.csv[*][ #say == none() ]",
    "$food.csv[*][ #firstname == #lastname ]",
    "$food.csv[*][ @x = #say  @x == \"ribbit\" ]",
    "$food.csv[*][ @x = #say  @y = @x  @z = \"lit\"  @n = 0 @f = 0.0 @r = /rib+it/ ]",
    "$food.csv[*][ #lastname == \"Bat\" -> @bats = count() ]",
    "$food.csv[*][ #lastname == \"Bat\" -> @bats.onmatch = count() ]",
    "$food.csv[*][ #lastname == \"Bat\" -> print(\"bat: $.headers.firstname\") ]",
    "$food.csv[*][ @was = #say  #say -> @had = #say  not(#say) -> @no = count_lines() ]",
    "$food.csv[*][ count() == 2 -> stop() ]",
    "$food.csv[*][ count_lines() == 3 -> skip() @seen = count_lines() ]",
    "$food.csv[*][ #firstname == \"Frog\" -> fail() ]",
    "$food.csv[*][ yes() -> @a = 1  no() -> @b = 2 ]",
    "$food.csv[*][ @c = add(#3, 1) ]",
    "$food.csv[*][ @c = subtract(10, 3, 2) @d = divide(1, 0) ]",
    "$food.csv[*][ regex(/^s.*e$/, #say) ]",
    "$food.csv[*][ @m = regex(#say, /(rib)(bit)/, 2) ]",
    "$food.csv[*][ in(#firstname, \"Fish|Frog\", \"Ant\") ]",
    "$food.csv[*][ or(#firstname == \"Ant\", #say == \"ribbit\") ]",
    "$food.csv[*][ and(#lastname == \"Bat\", not(#say == \"ribbit\")) -> @hit.onmatch = line_number() ]",
    "$food.csv[*][ last.nocontrib() -> @total = count_lines() ]",
    "$food.csv[*][ @r = $food.csv.headers.say ]",
    "$food.csv[*][ #a -> #b ]",
    "$food.csv[*][ @a = 1 -> print(\"x\") ]",
    "$food.csv[*][ 1 == #a ]",
    "$food.csv[*][ @v = ]",
    "$food.csv[*][ add(1,) ]",
    "$small.csv[*][ #a == 0 ]",
    "$small.csv[*][ #b == \"\" ]",
    "$small.csv[*][ @b = #b  @c = #c ]",
    "$small.csv[*][ #c -> @c.latch = #c ]",
    "$small.csv[*][ #a == 4 -> @four = #c  #a == 7 -> @seven = #c ]",
    "$empty.csv[*][ @x = count() ]",
    "$headers_only.csv[*][ #a == \"a\" -> @x = count() ]",
    '~ name: outer  description: an outer comment ~ $small.csv[*][ #a == 1 -> @one = #b ]',
]
for r__ in RUNS:
    run(r__, show_tree=True)
say("=" * 70)
say("PART D2: repeated and alternative run methods")
for meth in ("collect", "next", "fast_forward", "collect"):
    run(
        '$food.csv[*][ #lastname == "Bat" -> @bats.onmatch = count() ~c~ @s = #say  @s == "ribbit" -> print("$.variables.bats") ]',
        method=meth,
    )

# =====================================================================
say("=" * 70)
say("PART E: CsvPaths group run and archive")


def show_archive(root="archive"):
    map_run_dirs(root)
    listing = []
    for dirpath, dirnames, filenames in os.walk(root):
        dirnames.sort()
        for fn in sorted(filenames):
            listing.append(os.path.join(dirpath, fn))
    # two runs in the same second get a .N suffix; normalise then sort
    shown = sorted((norm_text(p_), p_) for p_ in listing)
    for np_, p_ in shown:
        say("FILE", np_)
        with open(p_, "r", encoding="utf-8") as f:
            content = f.read()
        if p_.endswith(".json"):
            try:
                j = norm_json(json.loads(content))
                content = json.dumps(j, indent=1, sort_keys=True)
            except Exception as e:  # pylint: disable=W0718
                content = f"<unparsable json {type(e).__name__}> " + content
        for ln in norm_text(content).split("\n"):
            say("   |" + HEX_RE.sub("<sha>", ln) if "fingerprint" in ln or "inputs/named_files" in ln else "   |" + ln)


out = io.StringIO()
try:
    with contextlib.redirect_stdout(out):
        cp = CsvPaths()
        cp.file_manager.add_named_file(name="food", path="food.csv")
        cp.file_manager.add_named_file(name="small", path="small.csv")
        cp.paths_manager.add_named_paths(
            name="whendo",
            paths=[
                '~ id: first ~ $[*][ #lastname == "Bat" -> @bats.onmatch = count() print("bats=$.variables.bats")]',
                '~ id: second\n validation-mode: no-raise, print ~\n$[*][\n  @s = #say\n ~ inner ~ @s == "ribbit" -> @ribbits = add(@ribbits, 1)\n #"Last Year Number" == 0 -> @zero = line_number() ]',
                '~ id: third ~ $[*][ @r = $whendo.variables.bats  #firstname == #lastname ]',
                '~ id: fourth ~ $[*][ #a -> #b ]',
                '~ id: fifth ~ $[*][ @d = divide(#3, 0) ]',
            ],
        )
        cp.collect_paths(filename="food", pathsname="whendo")
        results = cp.results_manager.get_named_results("whendo")
        cp.fast_forward_paths(filename="small", pathsname="whendo")
        results2 = cp.results_manager.get_named_results("whendo")
    for tag, rs in (("collect food", results), ("fast_forward small", results2)):
        say(f"results after {tag}: {len(rs)}")
        for r in rs:
            say(
                "  result identity=%s valid=%s lines=%s vars=%s errors=%s printouts=%s"
                % (
                    r.csvpath.identity,
                    r.is_valid,
                    len(r.lines) if r.lines is not None else None,
                    json.dumps(r.variables, sort_keys=True, default=str),
                    [norm_text(str(e.error)) for e in r.errors] if r.errors else r.errors,
                    r.get_printouts() if hasattr(r, "get_printouts") else None,
                )
            )
except Exception as e:  # pylint: disable=W0718
    say("  EXCEPTION:", describe_exception(e))
say("  printouts:")
for ln in out.getvalue().split("\n"):
    say("   |" + norm_text(ln))
show_archive("archive")
say("DONE")
