#!/usr/bin/env python
"""Differential demonstration for property C10 (run directories).

Prints a deterministic transcript of everything observable around the code
that allocates run directories (ResultSerializer.get_run_dir and helpers),
resets per-run state (CsvPaths.clear_run_coordination / run_time_str /
current_run_time) and resolves ':last' / ':first' results references
(ResultsManager.data_file_for_reference / _find_instance / _find_in_dir_names).

Usage:  PYTHONPATH=<csvpath checkout> python demo.py > transcript.txt

The script is self-contained: it builds its own temp working directory with an
offline config/config.ini, chdirs into it and removes it at the end. The clock
used by CsvPaths for naming run directories is replaced by a fake one (year
2031) so run-directory names are deterministic; every other (real-clock)
timestamp, uuid, duration, memory address and traceback text is normalised.
"""
import contextlib
import hashlib
import io
import json
import os
import random
import re
import shutil
import sys
import tempfile
from datetime import date, datetime, timedelta, timezone

ORIG_CWD = os.getcwd()
TMP = tempfile.mkdtemp(prefix="demo_TWC10_")
os.chdir(TMP)

CONFIG = """[csvpath_files]
extensions = txt, csvpath, csvpaths

[csv_files]
extensions = txt, csv, tsv, dat, tab, psv, ssv

[errors]
csvpath = raise, collect, stop, fail, print
csvpaths = raise, collect

[logging]
csvpath = info
csvpaths = info
log_file = logs/csvpath.log
log_files_to_keep = 100
log_file_size = 52428800

[config]
path = config/config.ini

[cache]
path = cache

[listeners]
[marquez]
base_url = http://localhost:5000

[functions]
imports = config/functions.imports

[results]
archive = archive
transfers = transfers

[inputs]
files = inputs/named_files
csvpaths = inputs/named_paths
on_unmatched_file_fingerprints = halt
"""
os.makedirs("config")
with open("config/config.ini", "w") as fh:
    fh.write(CONFIG)
with open("config/functions.imports", "w") as fh:
    fh.write("")

# data: header, ordinary row, blank line, ragged row, empty value, zeros, quoted comma
with open("f.csv", "w") as fh:
    fh.write('a,b,c\n1,2,3\n\n4,5\n7,,9\n0,0,0\n"x,y",8,3\n')
with open("g.csv", "w") as fh:  # header only
    fh.write("a,b,c\n")
with open("e.csv", "w") as fh:  # zero bytes
    fh.write("")

from csvpath import CsvPaths  # noqa: E402
import csvpath.csvpaths as csvpaths_module  # noqa: E402
from csvpath.managers.results.result_serializer import ResultSerializer  # noqa: E402

OUT = sys.stdout


def say(*a):
    print(*a, file=OUT)


# --------------------------------------------------------------------------
# normalisation of volatile text
# --------------------------------------------------------------------------
FAKE_YEAR = "2031"
_TS = re.compile(r"\b(\d{4})-\d\d-\d\d[T ]\d\d:\d\d:\d\d(?:\.\d+)?(?:\+00:00)?")
_RUN = re.compile(r"\b(\d{4})-\d\d-\d\d_\d\d-\d\d-\d\d(?:\.\d+)?")
_UUID = re.compile(
    r"\b[0-9a-f]{8}-[0-9a-f]{4}-[0-9a-f]{4}-[0-9a-f]{4}-[0-9a-f]{12}\b"
)


def norm(text) -> str:
    text = f"{text}"
    text = text.replace(TMP, "<TMP>")
    text = _UUID.sub("<UUID>", text)
    text = _TS.sub(lambda m: m.group(0) if m.group(1) == FAKE_YEAR else "<TS>", text)
    text = _RUN.sub(lambda m: m.group(0) if m.group(1) == FAKE_YEAR else "<RUN>", text)
    text = re.sub(r'"(lines_time|last_line_time)": -?[0-9.e+-]+', r'"\1": <DUR>', text)
    text = re.sub(r'"named_file_last_change": "[^"]*"', '"named_file_last_change": <CTIME>', text)
    # tracebacks embed source line numbers of the package: debugging text only
    text = re.sub(r'"trace": "(?:\\.|[^"\\])*"', '"trace": "<TRACE>"', text)
    text = re.sub(r"object at 0x[0-9a-f]+", "object at <ADDR>", text)
    # fingerprints of files whose content holds volatile values
    text = re.sub(r'"(meta|errors)\.json": "[0-9a-f]{64}"', r'"\1.json": "<HASH>"', text)
    return text


def err(e) -> str:
    return norm(f"{type(e).__name__}: {e}")


def attempt(label, fn, *args, **kwargs):
    try:
        r = fn(*args, **kwargs)
        say(f"{label} -> {norm(repr(r))}")
        return r
    except Exception as e:  # noqa
        say(f"{label} !! {err(e)}")
        return None


def tree(root):
    out = []
    for d, dirs, files in os.walk(root):
        dirs.sort()
        for n in sorted(dirs):
            p = os.path.join(d, n)
            if not os.listdir(p):
                out.append(p + "/")
        for n in sorted(files):
            out.append(os.path.join(d, n))
    return sorted(out)


def raw_snapshot(root):
    snap = {}
    for p in tree(root):
        if p.endswith("/"):
            snap[p] = "<emptydir>"
        else:
            with open(p, "rb") as fh:
                snap[p] = hashlib.sha256(fh.read()).hexdigest()
    return snap


def norm_digest(path):
    with open(path, "r", encoding="utf-8", errors="replace") as fh:
        t = norm(fh.read())
    return hashlib.sha256(t.encode()).hexdigest()[:16], t.count("\n")


# --------------------------------------------------------------------------
# fake clock for CsvPaths.current_run_time
# --------------------------------------------------------------------------
class Clock:
    now = datetime(2031, 3, 1, 12, 59, 59, tzinfo=timezone.utc)
    calls = 0


class FakeDatetime(datetime):
    @classmethod
    def now(cls, tz=None):
        Clock.calls += 1
        return Clock.now


REAL_DATETIME = csvpaths_module.datetime


def fake_clock(on=True):
    csvpaths_module.datetime = FakeDatetime if on else REAL_DATETIME


def advance(action):
    t = Clock.now
    if action == "same":
        return
    if action == "+1s":
        Clock.now = t + timedelta(seconds=1)
    elif action == "+61s":
        Clock.now = t + timedelta(seconds=61)
    elif action == "hour":  # next HH:00:00 strictly after now
        Clock.now = t.replace(minute=0, second=0) + timedelta(hours=1)
    elif action == "midnight":  # next 00:00:00 strictly after now
        Clock.now = t.replace(hour=0, minute=0, second=0) + timedelta(days=1)
    else:
        raise ValueError(action)


# ==========================================================================
say("=" * 20, "A. ResultSerializer unit calls")
# ==========================================================================
rs = ResultSerializer("unit_archive")
say("-- _deref_paths_name")
for v in [
    "p", "$p", "$$p", "$p.results.x.y", "p#one", "$p#one.results.x", "p.q#r",
    "p#r.q", "", "$", ".", "#", ".p", "#p", "a$b", "p$", "$p.csvpaths.two:from",
    " p ", "p..q", "p##q", None, 5, b"$p",
]:
    attempt(f"deref({v!r})", rs._deref_paths_name, v)

say("-- get_run_dir_name_from_datetime")
for v in [
    None,
    datetime(2031, 3, 1, 12, 59, 59),
    datetime(2031, 3, 1, 13, 0, 0, tzinfo=timezone.utc),
    datetime(2031, 3, 1, 0, 0, 0),
    datetime(2031, 3, 1, 23, 59, 59, 999999),
    datetime(2031, 12, 31, 23, 59, 59, tzinfo=timezone(timedelta(hours=-5))),
    datetime(1, 1, 1, 1, 1, 1),
    date(2031, 3, 1),
    "2031-03-01_00-00-00",
    0,
    "",
]:
    attempt(f"dirname({v!r})", rs.get_run_dir_name_from_datetime, v)

say("-- get_run_dir")
T = datetime(2031, 3, 1, 12, 59, 59, tzinfo=timezone.utc)
TN = "2031-03-01_12-59-59"


def prep(*names, files=()):
    shutil.rmtree("unit_archive", ignore_errors=True)
    for n in names:
        os.makedirs(os.path.join("unit_archive", n))
    for n in files:
        os.makedirs(os.path.dirname(os.path.join("unit_archive", n)), exist_ok=True)
        with open(os.path.join("unit_archive", n), "w") as fh:
            fh.write("x")


def grd(label, **kw):
    attempt(f"get_run_dir[{label}]", rs.get_run_dir, **kw)
    say("     tree:", tree("unit_archive") if os.path.exists("unit_archive") else None)


prep()
grd("no archive yet", paths_name="p", run_time=T)
grd("paths home now exists", paths_name="p", run_time=T)
prep(f"p/{TN}")
grd("base taken", paths_name="p", run_time=T)
prep(f"p/{TN}", f"p/{TN}.0")
grd("base+.0 taken", paths_name="p", run_time=T)
prep(f"p/{TN}", f"p/{TN}.0", f"p/{TN}.1", f"p/{TN}.2")
grd("base+.0..2 taken", paths_name="p", run_time=T)
prep(f"p/{TN}", f"p/{TN}.1", f"p/{TN}.2")
grd("gap at .0", paths_name="p", run_time=T)
prep(f"p/{TN}", f"p/{TN}.0", f"p/{TN}.2")
grd("gap at .1", paths_name="p", run_time=T)
prep(f"p/{TN}.0")
grd("only .0 taken, base free", paths_name="p", run_time=T)
prep(*[f"p/{TN}.{i}" for i in range(12)], f"p/{TN}")
grd("base+.0..11 taken", paths_name="p", run_time=T)
prep(files=[f"p/{TN}"])
grd("base is a file", paths_name="p", run_time=T)
prep(f"p/{TN}", files=[f"p/{TN}.0"])
grd(".0 is a file", paths_name="p", run_time=T)
prep(files=["p"])
grd("paths home is a file", paths_name="p", run_time=T)
prep(f"q/{TN}")
grd("other group has same time", paths_name="p", run_time=T)
prep(f"p/{TN}")
grd("reference name", paths_name="$p.csvpaths.two:from", run_time=T)
grd("name with identity", paths_name="p#two", run_time=T)
grd("str run_time", paths_name="p", run_time=TN)
grd("str run_time custom", paths_name="p", run_time="custom")
prep("p/custom", "p/custom.0")
grd("str run_time custom taken", paths_name="p", run_time="custom")
prep("p")
grd("empty str run_time", paths_name="p", run_time="")
grd("None run_time", paths_name="p", run_time=None)
prep("p/None")
grd("None run_time taken", paths_name="p", run_time=None)
grd("int run_time", paths_name="p", run_time=5)
grd("date run_time", paths_name="p", run_time=date(2031, 3, 1))
grd("naive datetime", paths_name="p", run_time=datetime(2031, 3, 1, 1, 0, 0))
grd("13:00", paths_name="p", run_time=datetime(2031, 3, 1, 13, 0, 0))
grd("midnight", paths_name="p", run_time=datetime(2031, 3, 2, 0, 0, 0))
grd("empty paths name", paths_name="", run_time=T)
grd("dollar only", paths_name="$", run_time=T)
grd("None paths name", paths_name=None, run_time=T)
grd("nested name", paths_name="a/b", run_time=T)
attempt("get_run_dir positional", lambda: rs.get_run_dir("p", T))
attempt("get_run_dir base None", ResultSerializer(None).get_run_dir, paths_name="p", run_time=T)
prep()
attempt("get_instance_dir", rs.get_instance_dir, run_dir=f"unit_archive/p/{TN}", identity="one")
attempt("get_instance_dir again", rs.get_instance_dir, f"unit_archive/p/{TN}", "one")
say("     tree:", tree("unit_archive"))
shutil.rmtree("unit_archive", ignore_errors=True)

# ==========================================================================
say("=" * 20, "B. results reference resolution unit calls")
# ==========================================================================
fake_clock(True)
cp0 = CsvPaths()
rm = cp0.results_manager
say("-- _find_in_dir_names")
NAMES = [
    "2031-03-03_01-01-03",
    "2031-03-04_01-05-01",
    "2031-03-04_12-59-59",
    "2031-03-04_13-00-00",
    "2031-03-04_03-40-16",
    "2031-03-04_23-59-59",
    "2031-03-05_00-00-00",
    "2031-03-04_12-59-59.0",
    "2031-03-04_12-59-59.10",
    "2031-03-04_12-59-59.2",
    "2031-03-04_12-59-59.1",
    "2031-03-04_00-11-24",
    "2031-03-04_01-00-00",
    "2031-03-04_11-59-59",
]
for inst in [
    "2031-", "2031-03-04", "2031-03-04_", "2031-03-04_12-", "2031-03-04_12-59-59",
    "2031-03-04_12-59-59.", "2031-03-04_12-59-59.1", "2031-03-04_1", "2031-03-04_0",
    "2031-03-05", "2031-03-03_01-", "2031-04", "", "x",
]:
    for last in [True, False]:
        attempt(f"find_in({inst!r}, last={last})", rm._find_in_dir_names, inst, list(NAMES), last)
attempt("find_in default last", rm._find_in_dir_names, "2031-", list(NAMES))
for last in [None, 1, 0, "yes", "", []]:
    attempt(f"find_in(last={last!r})", rm._find_in_dir_names, "2031-", list(NAMES), last)
attempt("find_in empty list", rm._find_in_dir_names, "2031-", [], True)
attempt("find_in empty list first", rm._find_in_dir_names, "", [], False)
attempt("find_in tuple", rm._find_in_dir_names, "2031-03-04_", tuple(NAMES), True)
attempt("find_in generator", rm._find_in_dir_names, "2031-03-04_", (n for n in NAMES), False)
attempt("find_in single", rm._find_in_dir_names, "2031", ["2031-03-03_01-01-03"], True)
attempt("find_in single first", rm._find_in_dir_names, "2031", ["2031-03-03_01-01-03"], False)
attempt("find_in non-date name last", rm._find_in_dir_names, "", NAMES + ["manifest.json"], True)
attempt("find_in non-date name first", rm._find_in_dir_names, "", ["notes"] + NAMES, False)
attempt("find_in non-date filtered out", rm._find_in_dir_names, "2031", NAMES + ["manifest.json"], True)
attempt("find_in bad counter", rm._find_in_dir_names, "2031", NAMES + ["2031-03-09_01-01-01.x"], True)
attempt("find_in double dot", rm._find_in_dir_names, "2031", NAMES + ["2031-03-09_01-01-01.1.2"], True)
TIES = ["2031-03-04_01-01-01", "2031-3-4_1-1-1", "2031-03-04_01-01-01.1", "2031-03-04_01-01-01.01"]
attempt("find_in ties last", rm._find_in_dir_names, "2031", list(TIES), True)
attempt("find_in ties first", rm._find_in_dir_names, "2031", list(TIES), False)
attempt("find_in ties reversed last", rm._find_in_dir_names, "2031", list(reversed(TIES)), True)
attempt("find_in ties reversed first", rm._find_in_dir_names, "2031", list(reversed(TIES)), False)
given = list(NAMES)
rm._find_in_dir_names("2031-", given, True)
say("caller's list left untouched:", given == NAMES)
attempt("find_in None instance", rm._find_in_dir_names, None, list(NAMES), True)
attempt("find_in None names", rm._find_in_dir_names, "2031", None, True)

say("-- _find_instance / _find / _find_last / _find_first on a directory")
shutil.rmtree("unit_runs", ignore_errors=True)
for n in NAMES:
    os.makedirs(os.path.join("unit_runs", "p", n))
os.makedirs(os.path.join("unit_runs", "empty"))
for inst in [
    "2031-03-04_12-59-59", "nonesuch", "", "2031-:last", "2031-:first", ":last", ":first",
    "2031-03-04_:last", "2031-03-04_:first", "2031-03-04_12-:last", "2031-03-04_12-:first",
    "2031-03-04_13:last", "2031-03-05:first", "2031-04:last", "2031-04:first",
    "2031-:0", "2031-:", "2031-:Last", "2031-:last ", "2031-:last:first", ":last:", "2031-: last",
]:
    attempt(f"find_instance(p, {inst!r})", rm._find_instance, os.path.join("unit_runs", "p"), inst)
attempt("find_instance(missing dir, no token)", rm._find_instance, "unit_runs/zzz", "2031-03-04_12-59-59")
attempt("find_instance(missing dir, :last)", rm._find_instance, "unit_runs/zzz", "2031-:last")
attempt("find_instance(missing dir, :bogus)", rm._find_instance, "unit_runs/zzz", "2031-:bogus")
attempt("find_instance(empty dir, :last)", rm._find_instance, "unit_runs/empty", ":last")
attempt("find_instance(empty dir, :first)", rm._find_instance, "unit_runs/empty", "2031:first")
attempt("find_instance(None instance)", rm._find_instance, "unit_runs/p", None)
attempt("_find default", rm._find, "unit_runs/p", "2031-03-04_")
attempt("_find last=False", rm._find, "unit_runs/p", "2031-03-04_", False)
attempt("_find_last", rm._find_last, "unit_runs/p", "2031-03-0")
attempt("_find_first", rm._find_first, "unit_runs/p", "2031-03-0")
attempt("_find missing dir", rm._find, "unit_runs/zzz", "2031")
with open("unit_runs/p/notes.txt", "w") as fh:
    fh.write("stray")
attempt("find_instance with stray file, prefixed", rm._find_instance, "unit_runs/p", "2031-:last")
attempt("find_instance with stray file, unprefixed", rm._find_instance, "unit_runs/p", ":last")
shutil.rmtree("unit_runs", ignore_errors=True)

say("-- data_file_for_reference against a hand-made archive")
shutil.rmtree("archive", ignore_errors=True)
for n, ids in [
    ("2031-03-04_12-59-59", ["one", "two"]),
    ("2031-03-04_12-59-59.0", ["one"]),
    ("2031-03-04_13-00-00", ["one", "two"]),
    ("2031-03-05_00-00-00", ["two"]),
]:
    for i in ids:
        os.makedirs(os.path.join("archive", "hand", n, i))
        if not (n.startswith("2031-03-05") or (n.endswith(".0"))):
            with open(os.path.join("archive", "hand", n, i, "data.csv"), "w") as fh:
                fh.write("a\n1\n")
for ref in [
    "$hand.results.2031-03-04_12-59-59.one",
    "$hand.results.2031-03-04_12-59-59.three",
    "$hand.results.2031-03-04_12-59-58.one",
    "$hand.results.2031-03-04_12-:last.one",
    "$hand.results.2031-03-04_12-:first.one",
    "$hand.results.2031-03-04_:last.two",
    "$hand.results.2031-03-04_:first.two",
    "$hand.results.2031-:last.two",
    "$hand.results.2031-:last.one",
    "$hand.results.2031-:first.one",
    "$hand.results.:last.two",
    "$hand.results.2032-:last.one",
    "$hand.results.2031-:middle.one",
    "$hand.variables.2031-:last.one",
    "$hand.bogus.2031-:last.one",
    "$nohand.results.2031-:last.one",
    "$hand.results.2031-03-04_13-00-00",
    "$hand#x.results.2031-03-04_13-00-00.one",
    "$hand.results.2031-03-04_13-00-00#q.one#z",
    "hand.results.2031-:last.one",
    "",
    None,
]:
    attempt(f"data_file_for_reference({ref!r})", rm.data_file_for_reference, ref)
shutil.rmtree("archive", ignore_errors=True)

# ==========================================================================
say("=" * 20, "C. CsvPaths per-run state unit calls")
# ==========================================================================
COORD = ["_stop_all", "_fail_all", "_skip_all", "_advance_all", "_current_run_time", "_run_time_str"]


def coord(c):
    return {k: norm(repr(getattr(c, k))) for k in COORD}


Clock.now = datetime(2031, 3, 1, 12, 59, 59, tzinfo=timezone.utc)
c = CsvPaths()
say("fresh:", coord(c))
attempt("run_time_str() on fresh", c.run_time_str)
attempt("run_time_str(None) on fresh", c.run_time_str, None)
say("after failed run_time_str:", coord(c))
Clock.calls = 0
attempt("current_run_time", lambda: c.current_run_time)
advance("+1s")
attempt("current_run_time cached", lambda: c.current_run_time)
say("clock calls:", Clock.calls)
attempt("run_time_str('p')", c.run_time_str, "p")
attempt("run_time_str('p') again", c.run_time_str, "p")
attempt("run_time_str()", c.run_time_str)
attempt("run_time_str('q') while cached", c.run_time_str, "q")
say("state:", coord(c), "tree:", tree("archive"))
c.stop_all()
c.fail_all()
c.skip_all()
c.advance_all(3)
say("signals set:", coord(c))
attempt("clear_run_coordination", c.clear_run_coordination)
say("cleared:", coord(c))
attempt("clear_run_coordination twice", c.clear_run_coordination)
say("cleared twice:", coord(c))
attempt("run_time_str() after clear", c.run_time_str)
attempt("run_time_str('q') after clear", c.run_time_str, "q")
say("state:", coord(c), "clock calls:", Clock.calls, "tree:", tree("archive"))
os.makedirs(c.run_time_str())
c.clear_run_coordination()
attempt("run_time_str('q') same second, dir taken", c.run_time_str, "q")
os.makedirs(c.run_time_str())
c.clear_run_coordination()
attempt("run_time_str('$q.csvpaths.x:from') same second", c.run_time_str, "$q.csvpaths.x:from")
c.clear_run_coordination()
c2 = CsvPaths()
attempt("other instance run_time_str('q') same second", c2.run_time_str, "q")
attempt("get_run_time_str(q, str)", c2.results_manager.get_run_time_str, "q", "custom")
attempt("get_run_time_str(q, None)", c2.results_manager.get_run_time_str, "q", None)
attempt("get_run_time_str(None, dt)", c2.results_manager.get_run_time_str, None, Clock.now)
attempt("get_run_time_str(q, dt)", c2.results_manager.get_run_time_str, "q", Clock.now)
c2._run_time_str = ""
attempt("run_time_str() with '' cached", c2.run_time_str)
attempt("run_time_str('q') with '' cached", c2.run_time_str, "q")
c2._advance_all = 0
c2._run_time_str = None
c2._current_run_time = None
say("tree:", tree("archive"))
shutil.rmtree("archive", ignore_errors=True)

# ==========================================================================
say("=" * 20, "D. sequences of runs")
# ==========================================================================
setup = CsvPaths()
setup.file_manager.add_named_file(name="f", path="f.csv")
setup.file_manager.add_named_file(name="g", path="g.csv")
setup.file_manager.add_named_file(name="e", path="e.csv")
setup.paths_manager.add_named_paths(
    name="p",
    paths=[
        '~id:one~ $[*][yes() print("one sees line $.csvpath.line_number")]',
        '~id:two~ $[*][#c=="3" @threes = count()]',
    ],
)
setup.paths_manager.add_named_paths(
    name="q",
    paths=[
        '~id:uno unmatched-mode:keep~ $[1*][#b print("b=$.headers.b")]',
        '~ no identity here ~ $[*][ @n = count_lines() ]',
    ],
)
setup.paths_manager.add_named_paths(
    name="syn",
    paths=["~id:ok~ $[*][yes()]", "~id:boom~ $[*][ nosuchfn(1) ]", "~id:never~ $[*][yes()]"],
)
setup.paths_manager.add_named_paths(name="r", paths=["~id:rr~ $[*][ #0 ]"])
shutil.rmtree("archive", ignore_errors=True)

METHODS = [
    "collect_paths",
    "fast_forward_paths",
    "next_paths",
    "collect_by_line",
    "fast_forward_by_line",
    "next_by_line",
]


def archive_group_of(pathsname):
    n = pathsname.lstrip("$")
    for ch in ".#":
        if ch in n:
            n = n[: n.index(ch)]
    return n


def run_dirs():
    out = {}
    if os.path.isdir("archive"):
        for g in sorted(os.listdir("archive")):
            gp = os.path.join("archive", g)
            if os.path.isdir(gp):
                out[g] = sorted(os.listdir(gp))
    return out


def flat_run_dirs():
    return {os.path.join("archive", g, d) for g, ds in run_dirs().items() for d in ds}


def run_files_snapshot():
    snap = {}
    for rd in sorted(flat_run_dirs()):
        for p, h in raw_snapshot(rd).items():
            snap[p] = h
        snap[rd + "/"] = "<dir>"
    return snap


def do_run(cp, method, pathsname, filename, partial=False):
    """returns (returned value / yielded lines, captured stdout, captured stderr, error)"""
    so, se = io.StringIO(), io.StringIO()
    ret, error = None, None
    try:
        with contextlib.redirect_stdout(so), contextlib.redirect_stderr(se):
            m = getattr(cp, method)
            if method in ("next_paths", "next_by_line"):
                gen = m(pathsname=pathsname, filename=filename)
                ret = []
                for line in gen:
                    ret.append(list(line))
                    if partial:
                        gen.close()
                        break
            else:
                ret = m(pathsname=pathsname, filename=filename)
    except Exception as e:  # noqa
        error = err(e)
    return ret, so.getvalue(), se.getvalue(), error


def summarise_results(cp, pathsname):
    try:
        results = cp.results_manager.get_named_results(pathsname)
    except Exception as e:  # noqa
        say("    results:", err(e).split("\n")[0])
        return
    for r in results:
        try:
            n = len(r)
        except Exception as e:  # noqa
            n = err(e)
        say(
            "    result",
            r.identity_or_index,
            "| run_dir", norm(r.run_dir),
            "| instance_dir", norm(r.instance_dir),
            "| run_time", norm(r.run_time),
            "| valid", r.is_valid,
            "| lines", n,
            "| unmatched", None if r.unmatched is None else len(r.unmatched),
            "| errors", r.errors_count,
            "| vars", json.dumps(r.variables, sort_keys=True, default=str),
            "| printouts", json.dumps(r.get_printouts(), sort_keys=True),
        )
    try:
        say("    valid:", cp.results_manager.is_valid(pathsname),
            "number_of_results:", cp.results_manager.get_number_of_results(pathsname))
    except Exception as e:  # noqa
        say("    validity:", err(e))


IDENTS = {"p": ("one", "two"), "q": ("uno", "1"), "r": ("rr",), "syn": ("ok", "boom")}


def check_references(cp, created):
    """ask the results manager for :last / :first and compare with creation order"""
    t = Clock.now
    prefixes = ["", FAKE_YEAR + "-", t.strftime("%Y-%m-%d_"), t.strftime("%Y-%m-%d_%H-")]
    for g in sorted(created):
        base = os.path.join("archive", g)
        for pre in prefixes:
            mine = [d for d in created[g] if d.startswith(pre)]
            for token, want in ((":last", mine[-1] if mine else None), (":first", mine[0] if mine else None)):
                try:
                    got = cp.results_manager._find_instance(base, pre + token)
                except Exception as e:  # noqa
                    got = err(e)
                say(f"    ref {g} {pre + token!r}: {got} | creation-order says {want} | agree {got == want}")
        for ident in IDENTS.get(g, ("one",)):
            ref = f"${g}.results.{FAKE_YEAR}-:last.{ident}"
            try:
                got = cp.results_manager.data_file_for_reference(ref)
                with open(got) as fh:
                    got = f"{got} sha {hashlib.sha256(fh.read().encode()).hexdigest()[:12]}"
            except Exception as e:  # noqa
                got = err(e)
            say(f"    data {ref}: {got}")


def listing():
    for p in tree("archive"):
        if p.endswith("/"):
            say("    ", p, "(empty dir)")
        else:
            h, n = norm_digest(p)
            say("    ", p, h, n)


def dump(path):
    say(f"    ---- {path}")
    with open(path) as fh:
        for line in norm(fh.read()).split("\n"):
            say("    |", line)


def play(title, start, steps, real_clock=False):
    say()
    say("#" * 10, title)
    shutil.rmtree("archive", ignore_errors=True)
    fake_clock(not real_clock)
    Clock.now = start
    shared = None
    created = {}
    ordinal = {}
    for k, step in enumerate(steps):
        pathsname, inst, method, clock = step[:4]
        opts = step[4] if len(step) > 4 else {}
        filename = opts.get("file", "f")
        advance(clock)
        if inst == "new":
            cp = CsvPaths()
        else:
            if shared is None:
                shared = CsvPaths()
            cp = shared
        before_dirs = flat_run_dirs()
        before = run_files_snapshot()
        say(f"  step {k}: paths={pathsname} instance={inst} method={method} clock={clock}"
            f" now={'real' if real_clock else Clock.now} opts={opts}")
        ret, so, se, error = do_run(cp, method, pathsname, filename, partial=opts.get("partial", False))
        if error:
            say("    raised:", error)
        say("    returned:", norm(json.dumps(ret)))
        say("    stdout:", norm(json.dumps(so)))
        say("    stderr:", norm(json.dumps(se)))
        after_dirs = flat_run_dirs()
        new_dirs = sorted(after_dirs - before_dirs)
        if real_clock:
            for d in new_dirs:
                ordinal[d] = f"RUN#{len(ordinal)}"
            say("    new run dirs:", [norm(os.path.dirname(d)) + "/" + ordinal[d] for d in new_dirs])
        else:
            say("    new run dirs:", new_dirs)
        after = run_files_snapshot()
        changed = sorted(p for p in before if after.get(p) != before[p])
        elsewhere = sorted(
            p for p in after if p not in before and not any(p.startswith(d + "/") for d in new_dirs)
        )
        say("    earlier run files changed or removed:", [norm(x) for x in changed])
        say("    files added outside the new run dir:", [norm(x) for x in elsewhere])
        g = archive_group_of(pathsname)
        say("    new dir under own group:", all(d.startswith(os.path.join("archive", g) + os.sep) for d in new_dirs))
        for d in new_dirs:
            created.setdefault(d.split(os.sep)[1], []).append(d.split(os.sep)[2])
        say("    per-run state after:", coord(cp) if not real_clock else "(real clock)")
        summarise_results(cp, pathsname)
        if not real_clock:
            check_references(cp, created)
    say("  final run dirs:", {g: [norm(d) for d in ds] for g, ds in run_dirs().items()} if not real_clock
        else {g: len(ds) for g, ds in run_dirs().items()})
    if not real_clock:
        say("  final listing (normalised digest, line count):")
        listing()
        for g, ds in sorted(created.items()):
            last_dir = os.path.join("archive", g, ds[-1])
            for p in tree(last_dir):
                if not p.endswith("/"):
                    dump(p)
        if os.path.exists("archive/manifest.json"):
            dump("archive/manifest.json")


NOON = datetime(2031, 3, 1, 12, 59, 59, tzinfo=timezone.utc)
NIGHT = datetime(2031, 3, 1, 23, 59, 59, tzinfo=timezone.utc)
ONE_AM = datetime(2031, 3, 1, 0, 59, 59, tzinfo=timezone.utc)
MORNING = datetime(2031, 3, 1, 11, 59, 58, tzinfo=timezone.utc)
NYE = datetime(2031, 12, 31, 23, 59, 59, tzinfo=timezone.utc)

play(
    "same second, reused instance, every method",
    NOON,
    [("p", "reused", m, "same") for m in METHODS] + [("q", "reused", "collect_paths", "same")],
)
play(
    "same second, new instance each time, every method",
    NOON,
    [("p", "new", m, "same") for m in METHODS] + [("q", "new", "collect_paths", "same")],
)
play(
    "across 12:59 -> 13:00",
    NOON,
    [
        ("p", "reused", "collect_paths", "same"),
        ("p", "new", "collect_paths", "same"),
        ("p", "reused", "collect_paths", "hour"),
        ("q", "reused", "collect_by_line", "same"),
        ("p", "new", "fast_forward_paths", "same"),
        ("p", "new", "collect_paths", "+1s"),
        ("r", "new", "collect_paths", "+1s", {"file": "$p.results.2031-03-01_12-:last.one"}),
        ("r", "new", "collect_paths", "same", {"file": "$p.results.2031-03-01_:last.one"}),
        ("r", "reused", "collect_by_line", "same", {"file": "$p.results.2031-:first.two"}),
    ],
)
play(
    "across midnight",
    NIGHT,
    [
        ("q", "new", "collect_paths", "same"),
        ("q", "reused", "next_paths", "same"),
        ("q", "reused", "collect_paths", "midnight"),
        ("p", "reused", "collect_paths", "same"),
        ("q", "new", "collect_by_line", "same"),
        ("q", "reused", "collect_paths", "+1s"),
        ("r", "reused", "collect_paths", "same", {"file": "$q.results.2031-03-0:last.uno"}),
        ("r", "reused", "collect_paths", "same", {"file": "$q.results.2031-03-01:last.uno"}),
        ("r", "new", "collect_paths", "+61s", {"file": "$q.results.:first.uno"}),
    ],
)
play(
    "00:59 -> 01:00 and 11:59 -> 12:00 (12-hour clock look-alikes)",
    ONE_AM,
    [
        ("p", "reused", "collect_paths", "same"),
        ("p", "reused", "collect_paths", "hour"),
        ("p", "new", "collect_paths", "hour"),
        ("p", "new", "collect_paths", "hour"),
    ]
    + [("p", "reused", "collect_paths", "hour")] * 9
    + [("p", "new", "collect_paths", "+1s"), ("p", "new", "collect_paths", "hour")],
)
play(
    "new year's eve",
    NYE,
    [
        ("p", "reused", "collect_paths", "same"),
        ("p", "reused", "collect_paths", "same"),
        ("p", "reused", "collect_paths", "midnight"),
    ],
)
play(
    "errors: raising group, unknown names, partial generators, empty files",
    MORNING,
    [
        ("syn", "reused", "collect_paths", "same"),
        ("syn", "reused", "collect_paths", "same"),
        ("p", "reused", "collect_paths", "same"),
        ("syn", "reused", "fast_forward_paths", "+1s"),
        ("syn", "reused", "next_paths", "same"),
        ("syn", "new", "collect_by_line", "same"),
        ("nopaths", "reused", "collect_paths", "same"),
        ("p", "reused", "collect_paths", "same", {"file": "nofile"}),
        ("p", "reused", "collect_paths", "same"),
        ("p", "reused", "next_paths", "same", {"partial": True}),
        ("p", "reused", "collect_paths", "same"),
        ("p", "reused", "next_by_line", "same", {"partial": True}),
        ("p", "reused", "next_by_line", "+1s"),
        ("q", "reused", "collect_paths", "same", {"file": "g"}),
        ("q", "reused", "collect_paths", "same", {"file": "e"}),
        ("q", "new", "collect_by_line", "same", {"file": "e"}),
        ("r", "reused", "collect_paths", "same", {"file": "$q.results.2031-:last.uno"}),
        ("r", "reused", "collect_paths", "same", {"file": "$p.results.2031-:nth.one"}),
        ("r", "reused", "collect_paths", "same", {"file": "$zzz.results.2031-:last.one"}),
        ("r", "reused", "collect_paths", "+1s", {"file": "$p.results.2031-:last.one"}),
        ("$p.csvpaths.two:from", "reused", "collect_paths", "same"),
        ("p#one", "reused", "collect_paths", "same"),
    ],
)

rnd = random.Random(20310301)
STARTS = [NOON, NIGHT, ONE_AM, MORNING, datetime(2031, 6, 15, 9, 10, 11, tzinfo=timezone.utc)]
CLOCKS = ["same", "same", "+1s", "+61s", "hour", "midnight"]
for i in range(14):
    n = rnd.randint(2, 7)
    steps = [
        (rnd.choice(["p", "q"]), rnd.choice(["new", "reused"]), rnd.choice(METHODS), rnd.choice(CLOCKS))
        for _ in range(n)
    ]
    if rnd.random() < 0.5:
        g = rnd.choice(["p", "q"])
        ident = "one" if g == "p" else "uno"
        steps.append(
            ("r", rnd.choice(["new", "reused"]), "collect_paths", rnd.choice(["same", "+1s"]),
             {"file": f"${g}.results.2031-:{rnd.choice(['last', 'first'])}.{ident}"})
        )
    play(f"random sequence {i}", rnd.choice(STARTS), steps)

play(
    "real clock, quick succession",
    NOON,
    [
        ("p", "reused", "collect_paths", "same"),
        ("p", "reused", "collect_paths", "same"),
        ("p", "new", "fast_forward_paths", "same"),
        ("q", "new", "collect_by_line", "same"),
        ("p", "reused", "next_paths", "same"),
        ("q", "reused", "collect_paths", "same"),
    ],
    real_clock=True,
)

fake_clock(False)
os.chdir(ORIG_CWD)
shutil.rmtree(TMP, ignore_errors=True)
say()
say("done")
