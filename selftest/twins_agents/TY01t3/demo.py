#
# shared differential-demo harness. demo.py in each of t1/t2/t3 embeds a copy of this
# file (so that each demo.py stays standalone) followed by a change-specific section.
#
# usage: cd <empty temp dir>; PYTHONPATH=<tree> /venv/bin/python demo.py > transcript.txt
#
# everything that is printed is deterministic: no timings, no timestamps, no tracebacks
# (tracebacks carry source line numbers, which any patch shifts), no absolute paths
# other than the fixed relative names created below.
#
import json
import os
import random
import re
import shutil
import sys

CONFIG_INI = """[csvpath_files]
extensions = txt, csvpath, csvpaths

[csv_files]
extensions = txt, csv, tsv, dat, tab, psv, ssv

[errors]
csvpath = collect, fail, print
csvpaths = collect

[logging]
csvpath = info
csvpaths = info
log_file = logs/csvpath.log
log_files_to_keep = 100
log_file_size = 52428800

[config]
path = config/config.ini

[cache]
path = cache

[listeners]

[marquez]
base_url = http://localhost:5000

[functions]
imports = config/functions.imports

[results]
archive = archive
transfers = transfers

[inputs]
files = inputs/named_files
csvpaths = inputs/named_paths
on_unmatched_file_fingerprints = halt
"""

FILES = {
    # ragged rows, blank lines, empty cells, zero, multi-digit, negative, decimals,
    # padded cells, a quoted comma
    "main.csv": (
        "id,name,n,m,flag\n"
        "1,alpha,10,3,true\n"
        "2,beta,0,7,false\n"
        "\n"
        "3,,250,,true\n"
        "4,delta\n"
        "5, echo ,-4,12,false,extra,more\n"
        ",,,,\n"
        "7,alpha,10,3,\n"
        "\n"
        "\n"
        '8,"go,lf",1000,1000,true\n'
        "9,hotel,3.5,2,x\n"
        "10,alpha,007,0,false\n"
    ),
    # the last line is blank (two trailing blank lines): the last()-on-blank path
    "blank_end.csv": "id,name,n\n1,a,5\n2,b,15\n\n3,c,25\n\n\n",
    "empty.csv": "",
    "header_only.csv": "id,name,n\n",
    "one_col.csv": "v\n1\n\n22\n\n333\n0\n",
    "no_newline_end.csv": "id,name,n\n1,a,5\n2,,0\n3,c,100",
}

SCANS = ["*", "1*", "0", "2-5", "1+4+6", "3*", "40*", "0-2", "5"]


def setup_env() -> None:
    """creates config, inputs and data files in the cwd. refuses to run in a dirty dir"""
    for d in ["archive", "cache", "logs", "inputs", "transfers", "config"]:
        if os.path.exists(d):
            shutil.rmtree(d)
    os.makedirs("config")
    with open(os.path.join("config", "config.ini"), "w", encoding="utf-8") as f:
        f.write(CONFIG_INI)
    with open(os.path.join("config", "functions.imports"), "w", encoding="utf-8") as f:
        f.write("")
    for name, content in FILES.items():
        with open(name, "w", encoding="utf-8") as f:
            f.write(content)


def j(o) -> str:
    return json.dumps(o, sort_keys=True, default=str)


def show_errors(path) -> None:
    errs = path.errors or []
    print(f"  errors: {len(errs)}")
    for e in errs:
        print(
            "    - "
            + j(
                [
                    getattr(e, "exception_class", None),
                    str(e.error),
                    e.line_count,
                    e.scan_count,
                    e.match_count,
                ]
            )
        )


def show_state(path) -> None:
    print(f"  variables: {j(path.variables)}")
    print(
        f"  valid: {path.is_valid} stopped: {path.stopped} "
        f"scans: {path.scan_count} matches: {path.match_count} "
        f"frozen: {path.is_frozen} advance: {path.advance_count}"
    )
    lm = path._line_monitor  # avoid the lazy load of the property
    if lm is not None:
        print(
            "  lines: "
            + j(
                [
                    lm.physical_line_number,
                    lm.physical_line_count,
                    lm.data_line_number,
                    lm.data_line_count,
                    lm.physical_end_line_number,
                    lm.data_end_line_count,
                ]
            )
        )
    if path.unmatched is not None:
        print(f"  unmatched: {j(path.unmatched)}")
    show_errors(path)


def run_case(label: str, csvpath: str, how: str = "collect", **kw) -> None:
    """runs one csvpath standalone and prints everything observable.
    how: collect | next | ff | collect2 (collect(2) and then collect the rest) |
         nextbreak (abandon the iterator after the first line)"""
    from csvpath import CsvPath

    print(f"CASE {label} [{how}] {csvpath}")
    path = None
    try:
        path = CsvPath(**kw)
        path.parse(csvpath)
        if how == "collect":
            lines = path.collect()
            print(f"  returned: {j(lines)}")
        elif how == "next":
            k = 0
            for line in path.next():
                k += 1
                print(
                    f"  yield {k}: {j(line)} at {path.line_monitor.physical_line_number}"
                    f" scans={path.scan_count} matches={path.match_count}"
                )
        elif how == "ff":
            path.fast_forward()
            print("  fast_forward done")
        elif how == "collect2":
            lines = path.collect(2)
            print(f"  first two: {j(lines)}")
            lines = path.collect()
            print(f"  rest: {j(lines)}")
        elif how == "nextbreak":
            for line in path.next():
                print(f"  first yield: {j(line)}")
                break
        else:
            raise ValueError(how)
    except Exception as e:  # pylint: disable=W0718
        msg = " | ".join(m.strip() for m in str(e).strip().split("\n") if m.strip())
        marker = " | Expected one of: | "
        if marker in msg:
            # lark lists the expected terminals in set order, which follows the hash seed
            head, tail = msg.split(marker, 1)
            msg = head + marker + " | ".join(sorted(tail.split(" | ")))
        print(f"  EXCEPTION {type(e).__name__}: {msg[:300]}")
        if hasattr(e, "orig_exc"):
            print(f"    original {type(e.orig_exc).__name__}: {str(e.orig_exc).strip()[:300]}")
        c = e.__cause__
        while c is not None:
            print(f"    caused by {type(c).__name__}: {str(c).strip()[:300]}")
            c = c.__cause__
    if path is not None:
        try:
            show_state(path)
        except Exception as e:  # pylint: disable=W0718
            print(f"  STATE EXCEPTION {type(e).__name__}: {e}")


# ---------------------------------------------------------------------------
# a small deterministic generator of well-typed csvpaths over the documented
# core constructs. depth <= 4, 1-6 components, a last() -> component, if any,
# comes last, onmatch only in AND mode.
# ---------------------------------------------------------------------------


class Gen:
    NUM_HEADERS = ["#n", "#m", "#id", "#2", "#3"]
    STR_HEADERS = ["#name", "#flag", "#1", "#nosuch"]
    ANY_HEADERS = ["#id", "#name", "#n", "#m", "#flag", "#0", "#5", "#6"]

    def __init__(self, seed: int, logic_and: bool) -> None:
        self.r = random.Random(seed)
        self.logic_and = logic_and
        self.vars = ["a", "b", "c"]

    def num(self, d: int) -> str:
        r = self.r
        if d <= 0 or r.random() < 0.3:
            return r.choice(
                [str(r.choice([0, 1, 2, 3, 7, 10, 12, 250, 1000])), r.choice(self.NUM_HEADERS)]
                + ["count_lines()", "line_number()", "count_scans()", f"@{r.choice(self.vars)}"]
            )
        k = r.randrange(9)
        if k == 0:
            return f"add({self.num(d-1)}, {self.num(d-1)})"
        if k == 1:
            return f"subtract({self.num(d-1)}, {self.num(d-1)})"
        if k == 2:
            return f"multiply({self.num(d-1)}, {self.num(d-1)})"
        if k == 3:
            return f"mod({self.num(d-1)}, {r.choice([2, 3, 5])})"
        if k == 4:
            return f"length({self.str(d-1)})"
        if k == 5:
            return f"int({r.choice(self.NUM_HEADERS)})"
        if k == 6:
            return f"divide({self.num(d-1)}, {r.choice(['2', '4', '#m', '0'])})"
        if k == 7:
            return f"round({self.num(d-1)})"
        return f"sum({r.choice(self.NUM_HEADERS)})"

    def str(self, d: int) -> str:
        r = self.r
        if d <= 0 or r.random() < 0.35:
            return r.choice(
                ['"alpha"', '"a"', '""', '"true"', '"10"', '" echo "'] + self.STR_HEADERS
            )
        k = r.randrange(6)
        if k == 0:
            return f"concat({self.str(d-1)}, {self.str(d-1)})"
        if k == 1:
            return f"lower({self.str(d-1)})"
        if k == 2:
            return f"upper({self.str(d-1)})"
        if k == 3:
            return f"strip({self.str(d-1)})"
        if k == 4:
            return f"substring({self.str(d-1)}, {r.choice([0, 1, 3])})"
        return f"concat({self.str(d-1)}, {self.num(d-1)})"

    def bool(self, d: int) -> str:
        r = self.r
        if d <= 0 or r.random() < 0.25:
            return r.choice(
                ["yes()", "no()", r.choice(self.ANY_HEADERS), f"@{r.choice(self.vars)}"]
                + [f"exists({r.choice(self.ANY_HEADERS)})", f"empty({r.choice(self.ANY_HEADERS)})"]
            )
        k = r.randrange(12)
        if k == 0:
            return f"{self.lhs(self.num(d-1), self.NUM_HEADERS)} == {self.num(d-1)}"
        if k == 1:
            return f"{self.lhs(self.str(d-1), self.STR_HEADERS)} == {self.str(d-1)}"
        if k == 2:
            f = r.choice(["gt", "lt", "gte", "lte", "above", "below"])
            return f"{f}({self.num(d-1)}, {self.num(d-1)})"
        if k == 3:
            return f"not({self.bool(d-1)})"
        if k == 4:
            return f"and({self.bool(d-1)}, {self.bool(d-1)})"
        if k == 5:
            return f"or({self.bool(d-1)}, {self.bool(d-1)})"
        if k == 6:
            return f'in({self.str(d-1)}, "alpha|beta|true|10")'
        if k == 7:
            return f"starts_with({self.str(d-1)}, {self.str(0)})"
        if k == 8:
            return f"between({self.num(d-1)}, {self.num(0)}, {self.num(0)})"
        if k == 9:
            return f"equals({self.num(d-1)}, {self.num(d-1)})"
        if k == 10:
            return r.choice(
                ["first(#name)", "every(#name, 2)", "has_matches()", "count() == 2", "firstline()"]
            )
        return f"or({self.bool(d-1)}, {self.bool(d-1)}, {self.bool(d-1)})"

    @staticmethod
    def top_level_eq(s: str) -> bool:
        depth = 0
        quoted = False
        for i, c in enumerate(s):
            if c == '"':
                quoted = not quoted
            elif quoted:
                continue
            elif c == "(":
                depth += 1
            elif c == ")":
                depth -= 1
            elif depth == 0 and s[i : i + 4] == " == ":
                return True
        return False

    def lhs(self, s: str, headers: list) -> str:
        """the grammar does not allow a bare term to start an equality"""
        if s[0] in '"-0123456789':
            return self.r.choice(headers)
        return s

    def value(self, d: int) -> str:
        k = self.r.randrange(3)
        if k == 0:
            return self.num(d)
        if k == 1:
            return self.str(d)
        b = self.bool(d)
        if self.top_level_eq(b):
            # the grammar does not allow a bare equality as an assignment's value
            b = f"not({b})"
        return b

    def qualifier(self) -> str:
        qs = ["", "", "", ".latch", ".onchange", ".asbool", ".nocontrib", ".notnone"]
        qs += [".increase", ".decrease", ".tracker"]
        if self.logic_and:
            qs += [".onmatch", ".onmatch"]
        return self.r.choice(qs)

    def action(self, d: int) -> str:
        r = self.r
        k = r.randrange(5)
        if k == 0:
            return f"@{r.choice(self.vars)} = {self.value(d)}"
        if k == 1:
            return f'print("L$.csvpath.line_number: {r.choice(self.vars)}=$.variables.{r.choice(self.vars)}")'
        if k == 2:
            return f"@{r.choice(self.vars)} = count()"
        if k == 3:
            return f"push(\"stack\", {self.value(d-1)})"
        return r.choice(["counter.hits(1)", "increment.inc(yes(), 2)", "tally(#name)", "fail()"])

    def component(self, d: int) -> str:
        r = self.r
        k = r.randrange(10)
        if k <= 3:
            return self.bool(d)
        if k <= 5:
            return f"@{r.choice(self.vars)}{self.qualifier()} = {self.value(d-1)}"
        if k <= 7:
            return f"{self.bool(d-1)} -> {self.action(d-1)}"
        if k == 8:
            q = ".onmatch" if self.logic_and and r.random() < 0.5 else ""
            return r.choice(
                [f"count{q}()", f"counter{q}.k(2)", f"tally{q}(#flag)", f"print{q}(\"p:$.csvpath.count_matches\")"]
            )
        return f"@{r.choice(self.vars)} = {self.num(d-1)}"

    def csvpath(self, filename: str, scan: str) -> str:
        r = self.r
        ncomp = r.randrange(1, 7)
        depth = r.randrange(1, 4)
        comps = [self.component(depth) for _ in range(ncomp)]
        if r.random() < 0.3:
            comps.append(f"last() -> {self.action(1)}")
        mode = "AND" if self.logic_and else "OR"
        match = "\n    ".join(comps)
        return f"~ logic-mode:{mode} ~ ${filename}[{scan}][\n    {match}\n]"


def generated_cases(count: int, seed: int) -> None:
    files = ["main.csv", "main.csv", "main.csv", "blank_end.csv", "no_newline_end.csv", "one_col.csv"]
    hows = ["collect", "next", "collect", "ff", "collect2", "collect"]
    r = random.Random(seed)
    for i in range(count):
        logic_and = i % 2 == 0
        g = Gen(seed * 100000 + i, logic_and)
        f = r.choice(files)
        scan = r.choice(SCANS[:6]) if r.random() < 0.8 else r.choice(SCANS)
        run_case(f"G{seed}.{i}", g.csvpath(f, scan), hows[i % len(hows)])


# ---------------------------------------------------------------------------
# CsvPaths (named group) runs with the archive dumped
# ---------------------------------------------------------------------------

_STAMP = re.compile(r"\d{4}-\d{2}-\d{2}_\d{2}-\d{2}-\d{2}(\.\d+)?(_\d+)?")


def dump_archive(root: str = "archive") -> None:
    """lists the archive with run directories normalised to <run1>, <run2>, ... in
    chronological order (a second run within the same second gets a .N suffix, which
    sorts after the bare stamp) and prints the content of the data-bearing files.
    files carrying times, uuids and hashes are listed only."""
    listing = []
    for dirpath, dirnames, filenames in os.walk(root):
        dirnames.sort()
        for fn in sorted(filenames):
            listing.append(os.path.join(dirpath, fn))
    stamps = sorted({m.group(0) for p in listing for m in [_STAMP.search(p)] if m})
    names = {s: f"<run{i + 1}>" for i, s in enumerate(stamps)}

    def normalise(p: str) -> str:
        return _STAMP.sub(lambda m: names[m.group(0)], p)

    for p in sorted(listing, key=normalise):
        norm = normalise(p)
        base = os.path.basename(p)
        if base in ("data.csv", "unmatched.csv", "vars.json", "printouts.txt"):
            with open(p, "r", encoding="utf-8") as f:
                content = f.read()
            print(f"  FILE {norm} ({len(content)} chars)")
            for line in content.split("\n"):
                print(f"    | {line}")
        elif base == "errors.json":
            with open(p, "r", encoding="utf-8") as f:
                errs = json.load(f)
            print(f"  FILE {norm}: {len(errs)} errors")
            for e in errs:
                print("    | " + j([e.get("error"), e.get("line_count"), e.get("match_count")]))
        else:
            print(f"  FILE {norm}")


def run_group(label: str, filename: str, paths: list, method: str = "collect_paths") -> None:
    from csvpath import CsvPaths

    print(f"GROUP {label} [{method}] file={filename}")
    for p in paths:
        print(f"  path: {p}")
    try:
        cp = CsvPaths()
        cp.file_manager.add_named_file(name=f"file_{label}", path=filename)
        cp.paths_manager.add_named_paths(name=f"paths_{label}", paths=paths)
        getattr(cp, method)(filename=f"file_{label}", pathsname=f"paths_{label}")
        results = cp.results_manager.get_named_results(f"paths_{label}")
        for i, r in enumerate(results):
            lines = r.lines
            if lines is not None and hasattr(lines, "next"):
                lines = list(lines.next())
            print(f"  result {i}: id={r.csvpath.identity!r} valid={r.is_valid} len={len(r)}")
            print(f"    lines={j(lines)}")
            print(f"    variables={j(r.variables)}")
            print(f"    errors={len(r.errors or [])} printouts={j(r.get_printouts())}")
            print(
                f"    unmatched={j(r.unmatched)} stopped={r.csvpath.stopped} "
                f"matches={r.csvpath.match_count} scans={r.csvpath.scan_count}"
            )
    except Exception as e:  # pylint: disable=W0718
        print(f"  EXCEPTION {type(e).__name__}: {str(e).strip()[:300]}")
    dump_archive(os.path.join("archive", f"paths_{label}"))


# ---------------------------------------------------------------------------
# t3-specific section: the change touches CsvPath.next/_next_line/_consider_line,
# Matcher.matches/_do_lasts, Expression.matches and Function.to_value/matches
# (annotations, docstrings, a named constant, `+=`, `not x`, `elif`, a dead string
# literal removed). so we drive the line loop (scans, blanks, advance, stop, skip,
# return-mode, unmatched-mode, run-mode, limit collection, partial collects) and the
# AND/OR vote counting with 1-6 components, with and without errors.
# ---------------------------------------------------------------------------

MATCH_PARTS = [
    "yes()",
    "no()",
    "#name",
    "#name #m",
    "#name #m #flag == \"true\"",
    "#name no() #m",
    "no() no() #m",
    "no() no() no()",
    "#id #name #n #m #flag #5",
    "gt(#n, 5) lt(#m, 10) #flag == \"true\" not(#name == \"beta\") exists(#id) yes()",
    "@c = count_lines() gt(@c, 3) lt(@c, 12)",
    "#m -> @x = #id  #flag == \"true\"",
    "skip(#name == \"alpha\") @seen = count_lines() #m",
    "#m skip(#name == \"alpha\") @seen = count_lines()",
    "stop(#id == \"5\") #name",
    "#name stop(#id == \"5\")",
    "#id == \"3\" -> stop() yes()",
    "#id == \"3\" -> skip() yes()",
    "advance(1) #name",
    "#id == \"2\" -> advance(3)  @seen = count_lines()",
    "fail() #m",
    "#n -> fail()",
    "collect(#id, #name) #m",
    "collect(\"name\", \"flag\") yes()",
    "collect(#id, #5) yes()",
    "last() -> @total = count_lines()  #m",
    "#m last() -> print(\"done at $.csvpath.line_number\")",
    "print(\"line $.csvpath.line_number scan $.csvpath.count_scans match $.csvpath.count_matches\") #m",
    "add(#name, 1) == 2",
    "add(#name, 1) == 2 #m",
    "#m add(#name, 1) == 2",
    "gt(#n, #name) yes()",
    "@x = divide(#n, #m) #m",
    "in(#flag, \"true|x\") or(#m, #n) and(#id, #name)",
    "after_blank() #id",
    "firstline() firstscan() firstmatch()",
    "count() == 2",
    "count_scans() == 3",
    "line_number() == 8",
    "has_matches() #m",
]

COMMENTS = [
    "",
    "logic-mode: OR",
    "return-mode: no-matches",
    "logic-mode: OR return-mode: no-matches",
    "unmatched-mode: keep",
    "validation-mode: no-raise, no-print, match",
    "validation-mode: no-raise, no-print, no-match logic-mode: OR",
    "validation-mode: raise, print",
    "validation-mode: no-raise, print, stop",
    "explain-mode: explain",
    "run-mode: no-run",
    "id: named description: a described path",
]


def t3_cases() -> None:
    hows = ["collect", "next", "ff", "collect", "collect2", "next", "nextbreak"]
    n = 0
    for i, m in enumerate(MATCH_PARTS):
        for k in range(4):
            n += 1
            c = COMMENTS[(i + 3 * k) % len(COMMENTS)] if k else ""
            scan = SCANS[n % len(SCANS)] if k else "*"
            how = hows[n % len(hows)] if k else "collect"
            run_case(f"M{i}.{k}", f"~ {c} ~ $main.csv[{scan}][{m}]", how)
    for i, m in enumerate(MATCH_PARTS):
        c = COMMENTS[i % 5]
        run_case(f"MB{i}", f"~ {c} ~ $blank_end.csv[{'*' if i % 3 else '1*'}][{m}]", hows[i % 4])
    for f in ["empty.csv", "header_only.csv", "one_col.csv", "no_newline_end.csv"]:
        for i, m in enumerate(["yes()", "#0 no()", "no() last() -> @n = count_lines()", "gt(#0, 1)"]):
            run_case(f"MF.{f}.{i}", f"~ {COMMENTS[i]} ~ ${f}[*][{m}]", hows[i])
    # blank lines kept: they are considered like any other line
    for i, m in enumerate(MATCH_PARTS[:12] + MATCH_PARTS[25:28]):
        run_case(f"MN{i}", f"~ {COMMENTS[i % 4]} ~ $main.csv[*][{m}]", hows[i % 3], skip_blank_lines=False)
    run_case("MN.blank_end", "$blank_end.csv[*][yes() last() -> @n = count_lines()]", "collect", skip_blank_lines=False)
    # delimiters and quotes
    run_case("MD.pipe", "$main.csv[*][#0]", "collect", delimiter="|")
    run_case("MD.quote", "$main.csv[10*][#1]", "collect", quotechar="'")
    # no match part, no file, unknown file, bad scan
    run_case("MX.nomatch", "$main.csv[1-3]")
    run_case("MX.emptymatch", "$main.csv[1-3][]")
    run_case("MX.nofile", "$[*][yes()]")
    run_case("MX.missing", "$nosuchfile.csv[*][yes()]")
    run_case("MX.badscan", "$main.csv[x][yes()]")
    # driving the public API a little differently
    from csvpath import CsvPath

    print("API variations")
    p = CsvPath()
    print(f"  next with csvpath arg: {j(list(p.next('$main.csv[1-2][#name]')))}")
    p = CsvPath()
    p.fast_forward("$main.csv[*][@n = count_lines()]")
    print(f"  fast_forward with csvpath arg: {j(p.variables)}")
    p = CsvPath()
    p.parse("$main.csv[*][#m]")
    p.OR = True
    print(f"  OR set through the property: {j(p.collect())} AND={p.AND}")
    p = CsvPath()
    p.parse("$main.csv[*][#m no()]")
    p.collect_when_not_matched = True
    print(f"  collect_when_not_matched through the property: {len(p.collect())} lines, matches={p.match_count}")
    p = CsvPath()
    p.parse("$main.csv[*][#m]")
    p.advance(3)
    print(f"  advance before the run: {j(p.collect())}")
    p = CsvPath()
    p.parse("$main.csv[*][#m]")
    lines = []
    print(f"  collect into a given list: {len(p.collect(lines=lines))} {len(lines)}")
    show_state(p)


if __name__ == "__main__":
    setup_env()
    t3_cases()
    generated_cases(150, 33)
    generated_cases(60, 34)
    run_group(
        "t3a",
        "main.csv",
        [
            "~id:all~ $[*][yes()]",
            "~id:some unmatched-mode:keep~ $[1*][#m #flag == \"true\"]",
            "~id:inverse return-mode: no-matches unmatched-mode:keep~ $[1*][#m]",
            "~id:ormode logic-mode: OR~ $[*][#flag == \"x\" gt(#n, 100) no()]",
            "~id:stopper~ $[*][#id == \"5\" -> stop() yes()]",
            "~id:errs validation-mode: no-raise, print~ $[2-6][add(#name, 1) == 2]",
            "~id:norun run-mode: no-run~ $[*][yes()]",
        ],
    )
    run_group(
        "t3b",
        "blank_end.csv",
        ["~id:first~ $[*][#n last() -> print(\"end $.csvpath.count_lines\")]", "~id:second~ $[1*][gt(#n, 10) skip(#id == \"3\")]"],
        "collect_by_line",
    )
    run_group("t3c", "main.csv", ["~id:ff~ $[*][@n = count() #m]", "~id:ff2~ $[3*][no()]"], "fast_forward_paths")
    run_group("t3a", "main.csv", ["~id:again~ $[0-4][#name]"], "fast_forward_by_line")
