#!/usr/bin/env python
"""Differential demonstration for property C20 (data and values flow between
csvpaths as declared).

Run in an EMPTY scratch directory (it writes ./config, ./inputs, ./archive,
./logs, ./cache and its data files there):

    mkdir /tmp/demo && cd /tmp/demo && PYTHONPATH=<tree> python demo.py > out.txt

The transcript is deterministic: run-directory timestamps, object addresses and
the scratch directory's absolute path are normalised. Error traces (which embed
source line numbers of the library) are deliberately not printed.
"""
import contextlib
import io
import json
import os
import re
import shutil
import sys
import datetime
import time
import warnings

warnings.simplefilter("ignore")

CONFIG = """[csvpath_files]
extensions = txt, csvpath, csvpaths

[csv_files]
extensions = txt, csv, tsv, dat, tab, psv, ssv

[errors]
csvpath = raise, collect, stop, fail, print
csvpaths = raise, collect

[logging]
csvpath = info
csvpaths = info
log_file = logs/csvpath.log
log_files_to_keep = 100
log_file_size = 52428800

[config]
path = config/config.ini

[cache]
path = cache

[listeners]
[marquez]
base_url = http://localhost:5000

[functions]
imports = config/functions.imports

[results]
archive = archive
transfers = transfers

[inputs]
files = inputs/named_files
csvpaths = inputs/named_paths
on_unmatched_file_fingerprints = halt
"""

HERE = os.getcwd()
for d in ("archive", "inputs", "cache", "logs", "transfers", "config", "data"):
    if os.path.exists(d):
        shutil.rmtree(d)
os.makedirs("config")
os.makedirs("data")
with open("config/config.ini", "w", encoding="utf-8") as f:
    f.write(CONFIG)
with open("config/functions.imports", "w", encoding="utf-8") as f:
    f.write("")

import csvpath as _csvpath_pkg  # noqa: E402
from csvpath import CsvPaths, CsvPath  # noqa: E402

# which tree is under test goes to stderr so that stdout stays comparable
sys.stderr.write("csvpath imported from %s\n" % os.path.dirname(_csvpath_pkg.__file__))

# --------------------------------------------------------------------------
# normalisation
# --------------------------------------------------------------------------
RUN_RE = re.compile(r"\d{4}-\d{2}-\d{2}_\d{2}-\d{2}-\d{2}(?:\.\d+)?")
ADDR_RE = re.compile(r"0x[0-9a-fA-F]+")
HASH_RE = re.compile(r"[0-9a-f]{64}")
RUN_LABELS = {}


def _run_key(x):
    t, dot, n = x.partition(".")
    return (datetime.datetime.strptime(t, "%Y-%m-%d_%H-%M-%S"), int(n) if dot else -1)


def register_runs():
    """give every run dir in ./archive a stable label, in chronological order"""
    if not os.path.exists("archive"):
        return
    for group in sorted(os.listdir("archive")):
        gd = os.path.join("archive", group)
        if not os.path.isdir(gd):
            continue
        runs = [n for n in os.listdir(gd) if RUN_RE.fullmatch(n)]
        for n in sorted(runs, key=_run_key):
            k = (group, n)
            if k not in RUN_LABELS:
                i = len([1 for g, _ in RUN_LABELS if g == group])
                RUN_LABELS[k] = f"<{group}-run-{i}>"


def norm(s) -> str:
    """applied once, to the whole captured transcript, when every run dir is known"""
    s = s.replace(HERE, "<cwd>")
    # longest names first so that x.1 is not clobbered by x; the lookbehind keeps
    # group "refs" from matching inside "solorefs"
    for (group, n), label in sorted(RUN_LABELS.items(), key=lambda kv: -len(kv[0][1])):
        pat = r"(?<![A-Za-z0-9_\-])" + re.escape(f"{group}{os.sep}{n}") + r"(?![0-9.])"
        s = re.sub(pat, lambda m, g=group, lb=label: f"{g}{os.sep}{lb}", s)
    s = RUN_RE.sub("<run-time>", s)
    s = ADDR_RE.sub("0xADDR", s)
    s = HASH_RE.sub("<sha256>", s)
    return s


def out(*args):
    print(" ".join(f"{a}" for a in args))


def section(title):
    print()
    print("=" * 78)
    print(title)
    print("=" * 78)


def show_exception(ex):
    register_runs()
    out("  RAISED", type(ex).__name__ + ":", " | ".join(str(ex).splitlines()))
    c = ex.__cause__
    while c is not None:
        out("    caused by", type(c).__name__ + ":", " | ".join(str(c).splitlines()))
        c = c.__cause__


# --------------------------------------------------------------------------
# dumping
# --------------------------------------------------------------------------
MANIFEST_KEYS = [
    "serial",
    "named_results_name",
    "run_home",
    "instance_identity",
    "instance_home",
    "files_expected",
    "file_count",
    "valid",
    "completed",
    "source_mode_preceding",
    "preceding_instance_identity",
    "actual_data_file",
    "origin_data_file",
    "named_file_name",
    "manifest_path",
]


def dump_error(e):
    out(
        "      error: line=%s match=%s scan=%s class=%s filename=%s"
        % (
            e.line_count,
            e.match_count,
            e.scan_count,
            type(e.error).__name__,
            e.filename,
        )
    )
    out("        text:", " | ".join(f"{e.error}".splitlines()))
    out("        message:", e.message)


def dump_result(r):
    register_runs()
    p = r.csvpath
    out("  -- member", r.identity_or_index, "(index %s)" % r.run_index)
    out("     run_dir:", r.run_dir)
    out("     instance_dir:", r.instance_dir)
    out("     data_file_path:", r.data_file_path)
    out("     source_mode_preceding:", r.source_mode_preceding)
    out("     scanner file:", p.scanner.filename if p.scanner else None)
    try:
        lines = list(r.lines.next()) if hasattr(r.lines, "next") else list(r.lines)
    except Exception as ex:  # pylint: disable=W0718
        lines = f"<{type(ex).__name__}: {ex}>"
    out("     lines:", lines)
    out("     len(result):", len(r))
    out("     unmatched:", r.unmatched)
    out("     variables:", json.dumps(p.variables, default=str))
    out("     headers:", p.headers)
    out("     is_valid:", r.is_valid, "stopped:", p.stopped)
    out(
        "     counts: lines=%s matches=%s scans=%s"
        % (
            p.line_monitor.physical_line_count,
            p.match_count,
            p.scan_count,
        )
    )
    out("     metadata:", json.dumps(p.metadata, default=str))
    out("     errors:", r.errors_count)
    for e in r.errors:
        dump_error(e)
    out("     printouts:", json.dumps(r.get_printouts(), default=str))
    mp = os.path.join(r.instance_dir, "manifest.json")
    if os.path.exists(mp):
        with open(mp, "r", encoding="utf-8") as f:
            m = json.load(f)
        out("     manifest:")
        for k in MANIFEST_KEYS:
            if k in m:
                out("        %s: %s" % (k, json.dumps(m[k])))
        if "file_fingerprints" in m:
            out("        file_fingerprints keys:", sorted(m["file_fingerprints"].keys()))
    else:
        out("     manifest: <none>")
    dp = os.path.join(r.instance_dir, "data.csv")
    if os.path.exists(dp):
        with open(dp, "r", encoding="utf-8", newline="") as f:
            out("     data.csv raw:", repr(f.read()))
    else:
        out("     data.csv: <none>")
    vp = os.path.join(r.instance_dir, "vars.json")
    if os.path.exists(vp):
        with open(vp, "r", encoding="utf-8") as f:
            out("     vars.json:", json.dumps(json.load(f)))
    mp = os.path.join(r.instance_dir, "meta.json")
    if os.path.exists(mp):
        with open(mp, "r", encoding="utf-8") as f:
            meta = json.load(f)
        md = meta.get("metadata", meta)
        out("     meta.json metadata:", json.dumps(md, default=str))


def dump_group(cp, name):
    register_runs()
    try:
        results = cp.results_manager.get_named_results(name)
    except Exception as ex:  # pylint: disable=W0718
        show_exception(ex)
        return
    out("  results for %s: %s member(s)" % (name, len(results)))
    for r in results:
        dump_result(r)
    rm = cp.results_manager
    out("  get_variables:", json.dumps(rm.get_variables(name), default=str))
    out("  key order:", list(rm.get_variables(name).keys()))
    out(
        "  is_valid=%s has_lines=%s number_of_results=%s has_errors=%s"
        % (
            rm.is_valid(name),
            rm.has_lines(name),
            rm.get_number_of_results(name),
            rm.has_errors(name),
        )
    )
    last = rm.get_last_named_result(name=name)
    out("  last named result:", last.identity_or_index if last is not None else None)


def _archive_sort_key(path):
    parts = path.split(os.sep)
    if len(parts) > 2 and (parts[1], parts[2]) in RUN_LABELS:
        label = RUN_LABELS[(parts[1], parts[2])]
        parts[2] = "%06d" % int(label[label.rfind("-") + 1 : -1])
    return parts


def list_archive():
    register_runs()
    out("  archive listing:")
    rows = []
    for root, dirs, files in os.walk("archive"):
        for f in files:
            rows.append(os.path.join(root, f))
        if not files and not dirs:
            rows.append(root + os.sep)
    # chronological within a group, whatever the .N suffixes look like
    for row in sorted(rows, key=_archive_sort_key):
        out("    ", row)


def new_paths():
    return CsvPaths()


def write(name, text):
    p = os.path.join("data", name)
    with open(p, "w", encoding="utf-8", newline="") as f:
        f.write(text)
    return p


def run(cp, method, *, filename, pathsname, **kw):
    out(">> %s(filename=%r, pathsname=%r%s)" % (method, filename, pathsname, "".join(", %s=%r" % kv for kv in kw.items())))
    try:
        m = getattr(cp, method)
        ret = m(filename=filename, pathsname=pathsname, **kw)
        if ret is not None and hasattr(ret, "__iter__"):
            n = 0
            for line in ret:
                n += 1
                # next_paths appends the Result/CsvPath; print only data
                out("   yielded:", [x for x in line] if isinstance(line, list) else line)
            out("   yielded %s line(s)" % n)
        elif ret is not None:
            out("   returned:", ret)
    except Exception as ex:  # pylint: disable=W0718
        show_exception(ex)
    register_runs()


# --------------------------------------------------------------------------
# data
# --------------------------------------------------------------------------
FILES = {
    "plain": "a,b,c\n1,x,10\n2,y,20\n3,z,30\n4,x,40\n5,y,50\n",
    "messy": "a,b,c\n1,x,10\n2,y,20\n\n3,,30\n4,z\n5,w,0,extra\n\n0,,\n 6 , q ,60\n",
    "quoted": 'a,b,c\n1,"x,1","say ""hi"""\n2,"",0\n3," y ",30\n',
    "header_only": "a,b,c\n",
    "empty": "",
    "one_col": "a\n0\n1\n\n2\n0\n",
    "no_newline_end": "a,b,c\n7,x,70\n8,y,80",
}

CHAINS = {
    # 2 members, preceding on the last
    "c2": [
        """~id:first~ $[*][ @n = count() @sum.a = #a yes() ]""",
        """~id:second source-mode:preceding~ $[*][ #c @m = count_lines() push("cs", #c) ]""",
    ],
    # 3 members, preceding on the suffix of length 2
    "c3": [
        """~id:first~ $[*][ @n = count() #b ]""",
        """~id:second source-mode:preceding~ $[*][ @n2 = count() not(#b == "x") ]""",
        """~id:third source-mode:preceding~ $[*][ @n3 = count() @lastb = #b yes() ]""",
    ],
    # 3 members, preceding only on the last: second reads the origin file
    "c3b": [
        """~id:first~ $[*][ @shared = "from-first" @n = count() #b == "x" ]""",
        """~id:second~ $[*][ @shared = "from-second" @n2 = count() #b == "y" ]""",
        """~id:third source-mode:preceding~ $[*][ @shared = "from-third" @n3 = count() yes() ]""",
    ],
    # 4 members, preceding on every member of the suffix (incl. explicit default)
    "c4": [
        """~name:m1~ $[*][ @k1 = count() yes() ]""",
        """~name:m2 source-mode:preceding~ $[*][ @k2 = count() gt(#a, 1) ]""",
        """~name:m3 source-mode:preceding~ $[*][ @k3 = count() gt(#a, 2) ]""",
        """~name:m4 source-mode:preceding~ $[*][ @k4 = count() @last = #a gt(#a, 3) ]""",
    ],
    # no ids: index identities; first member is preceding with nothing before it
    "c2n": [
        """~source-mode:preceding~ $[*][ @p = count() yes() ]""",
        """~source-mode:preceding~ $[*][ @q = count() #a ]""",
    ],
    # a scanning restriction and a member that matches nothing
    "c3s": [
        """~id:first~ $[1-3][ @n = count() yes() ]""",
        """~id:none source-mode:preceding~ $[*][ @z = count() no() ]""",
        """~id:after source-mode:preceding~ $[*][ @w = count_lines() yes() ]""",
    ],
    # not a preceding value at all: an unknown source-mode
    "c2x": [
        """~id:first~ $[*][ #a == "1" ]""",
        """~id:second source-mode:origin~ $[*][ @seen = count_lines() yes() ]""",
    ],
}


def scenario_chains():
    for cname, chain in CHAINS.items():
        for fname, text in FILES.items():
            section("CHAIN %s on file %s (collect_paths)" % (cname, fname))
            cp = new_paths()
            cp.file_manager.add_named_file(name=fname, path=write(fname + ".csv", text))
            cp.paths_manager.add_named_paths(name=cname, paths=chain)
            run(cp, "collect_paths", filename=fname, pathsname=cname)
            dump_group(cp, cname)
    section("archive after the chain scenarios")
    list_archive()


def scenario_other_methods():
    for method, kw in (
        ("fast_forward_paths", {}),
        ("next_paths", {}),
        ("next_paths", {"collect": True}),
    ):
        for fname in ("plain", "messy", "header_only"):
            section("CHAIN c3 on file %s (%s %s)" % (fname, method, kw))
            cp = new_paths()
            cp.file_manager.add_named_file(
                name=fname, path=write(fname + ".csv", FILES[fname])
            )
            name = "c3-" + method.split("_")[0] + ("-collect" if kw else "")
            cp.paths_manager.add_named_paths(name=name, paths=CHAINS["c3"])
            run(cp, method, filename=fname, pathsname=name, **kw)
            dump_group(cp, name)
    for method in ("collect_by_line", "fast_forward_by_line", "next_by_line"):
        section("CHAIN c2 on file plain (%s): source-mode preceding is refused" % method)
        cp = new_paths()
        cp.file_manager.add_named_file(name="plain", path=write("plain.csv", FILES["plain"]))
        name = "c2-" + method
        cp.paths_manager.add_named_paths(name=name, paths=CHAINS["c2"])
        run(cp, method, filename="plain", pathsname=name)
        dump_group(cp, name)


SRC = [
    """~id:src1~ $[*][ @total = count() @byb.x = #a @zero = 0 @empty = "" @none = none() push("bs", #b) tally(#b) yes() ]""",
    """~id:src2~ $[*][ @total = "second" @only2 = count_lines() @byb.y = #c #b == "y" ]""",
]

REFS = [
    """~id:r1 validation-mode:print, no-raise, no-stop~ $[*][
        @total = $src.variables.total
        @x = $src.variables.byb.x
        @y = $src.variables.byb.y
        @missingkey = $src.variables.byb.nope
        @zero = $src.variables.zero
        @empty = $src.variables.empty
        @bs = $src.variables.bs
        @tally = $src.variables.tally_b
        @none = $src.variables.none
        @only2 = $src.variables.only2
        @h1 = $src.headers.b.src1
        @h2 = $src.headers.c.src2
        print.once("total=$.variables.total x=$.variables.x")
        yes() ]""",
]


def scenario_references():
    section("REFERENCES: variables and headers of a group run 1-3 times")
    cp = new_paths()
    cp.paths_manager.add_named_paths(name="src", paths=SRC)
    cp.paths_manager.add_named_paths(name="refs", paths=REFS)
    cp.file_manager.add_named_file(name="t", path=write("t.csv", "a,b,c\n1,x,10\n"))
    runs = ["plain", "messy", "quoted"]
    for i, fname in enumerate(runs):
        cp.file_manager.add_named_file(name=fname, path=write(fname + ".csv", FILES[fname]))
        out("")
        out("---- run #%s of src, on %s" % (i + 1, fname))
        run(cp, "collect_paths", filename=fname, pathsname="src")
        dump_group(cp, "src")
        for target in ("t", fname):
            out("")
            out("---- refs evaluated over %s after %s run(s) of src" % (target, i + 1))
            run(cp, "collect_paths", filename=target, pathsname="refs")
            dump_group(cp, "refs")
    out("")
    out("---- the same references through fast_forward_paths and next_paths")
    run(cp, "fast_forward_paths", filename="t", pathsname="refs")
    dump_group(cp, "refs")
    run(cp, "next_paths", filename="t", pathsname="refs")
    dump_group(cp, "refs")

    section("REFERENCES: a single-member group needs no tracking value for headers")
    cp.paths_manager.add_named_paths(
        name="solo",
        paths=["""~id:only~ $[*][ @v = count() @d.k = #a @d.k2 = #b gt(#a, 1) ]"""],
    )
    cp.paths_manager.add_named_paths(
        name="solorefs",
        paths=[
            """~id:sr~ $[*][ @v = $solo.variables.v @d = $solo.variables.d @k = $solo.variables.d.k
                 @ha = $solo.headers.a @hb = $solo.headers.b @hc = $solo.headers.c.only
                 $solo.headers.b -> @exists = "yes" yes() ]"""
        ],
    )
    for fname in ("plain", "messy", "quoted", "one_col"):
        cp.file_manager.add_named_file(name=fname, path=write(fname + ".csv", FILES[fname]))
        run(cp, "collect_paths", filename=fname, pathsname="solo")
        dump_group(cp, "solo")
        run(cp, "collect_paths", filename="t", pathsname="solorefs")
        dump_group(cp, "solorefs")

    section("REFERENCES: error cases")
    bad = {
        "unknown-variable": """$[*][ @v = $src.variables.nosuchvar yes() ]""",
        "unknown-group": """$[*][ @v = $nosuchgroup.variables.total yes() ]""",
        "unknown-group-header": """$[*][ @v = $nosuchgroup.headers.a yes() ]""",
        "unknown-header": """$[*][ @v = $src.headers.nosuchheader.src1 yes() ]""",
        "too-many-results": """$[*][ @v = $src.headers.a yes() ]""",
        "unknown-tracking-identity": """$[*][ @v = $src.headers.a.nosuchid yes() ]""",
        "bad-datatype": """$[*][ @v = $src.metadata.id yes() ]""",
        "csvpaths-type": """$[*][ @v = $src.csvpaths.src1 yes() ]""",
        "index-header": """$[*][ @v = $solo.headers.1 yes() ]""",
        "no-lines-captured": """$[*][ @v = $ffonly.headers.a yes() ]""",
        "tracking-into-int": """$[*][ @v = $src.variables.total.x yes() ]""",
        "tracking-into-zero": """$[*][ @v = $src.variables.zero.x yes() ]""",
        "tracking-into-empty-string": """$[*][ @v = $src.variables.empty.x yes() ]""",
        "tracking-into-none": """$[*][ @v = $src.variables.none.x yes() ]""",
        "tracking-into-list-miss": """$[*][ @v = $src.variables.bs.nope yes() ]""",
        "tracking-into-list-hit": """$[*][ @v = $src.variables.bs.x yes() ]""",
        "five-part-name": """$[*][ @v = $src.variables.byb.x.y yes() ]""",
    }
    cp.paths_manager.add_named_paths(name="ffonly", paths=["""~id:ff~ $[*][ @c = count() yes() ]"""])
    run(cp, "fast_forward_paths", filename="plain", pathsname="ffonly")
    for name, path in bad.items():
        for mode in ("raise", "no-raise"):
            gname = "bad-%s-%s" % (name, mode)
            out("")
            out("---- %s (%s)" % (name, mode))
            meta = "~id:bad validation-mode:%s~ " % (
                "raise, no-print" if mode == "raise" else "no-raise, no-stop, print"
            )
            cp.paths_manager.add_named_paths(name=gname, paths=[meta + path])
            run(cp, "collect_paths", filename="t", pathsname=gname)
            dump_group(cp, gname)
    out("")
    out("---- a reference without a CsvPaths")
    p = CsvPath()
    try:
        p.parse("$data/t.csv[*][ @v = $src.variables.total yes() ]")
        lines = p.collect()
        out("   lines:", lines, "variables:", p.variables)
    except Exception as ex:  # pylint: disable=W0718
        show_exception(ex)
    out("   is_valid:", p.is_valid, "errors:", len(p.errors) if p.errors else 0)
    section("archive after the reference scenarios")
    list_archive()


def scenario_results_references():
    section("RESULTS REFERENCES: replaying a member's data.csv")
    cp = new_paths()
    cp.paths_manager.add_named_paths(name="c3", paths=CHAINS["c3"])
    cp.paths_manager.add_named_paths(
        name="replay",
        paths=["""~id:rp~ $[*][ @lines = count_lines() @seen = count() yes() ]"""],
    )
    for fname in ("plain", "messy", "quoted"):
        cp.file_manager.add_named_file(name=fname, path=write(fname + ".csv", FILES[fname]))
        run(cp, "collect_paths", filename=fname, pathsname="c3")
        dump_group(cp, "c3")
        for member in ("first", "second", "third"):
            for token in (":last", ":first"):
                ref = "$c3.results.20%s.%s" % (token, member)
                out("")
                out("---- replay of", ref)
                try:
                    out(
                        "   data_file_for_reference:",
                        cp.results_manager.data_file_for_reference(ref),
                    )
                    out("   get_named_file:", cp.file_manager.get_named_file(ref))
                except Exception as ex:  # pylint: disable=W0718
                    show_exception(ex)
                run(cp, "collect_paths", filename=ref, pathsname="replay")
                dump_group(cp, "replay")
    out("")
    out("---- replay from a member onward, with source-mode: preceding")
    run(
        cp,
        "collect_paths",
        filename="$c3.results.20:last.first",
        pathsname="$c3.csvpaths.second:from",
    )
    dump_group(cp, "c3")
    out("")
    out("---- an exact run dir name (the run is started in a fresh second so that")
    out("     its directory name carries no .N suffix, which references cannot spell)")
    time.sleep(1.2)
    before = set(os.listdir(os.path.join("archive", "c3")))
    run(cp, "collect_paths", filename="messy", pathsname="c3")
    created = sorted(set(os.listdir(os.path.join("archive", "c3"))) - before)
    out("   run dirs created:", len(created), "with suffix:", ["." in n for n in created])
    for n in created:
        for member in ("first", "third"):
            ref = "$c3.results.%s.%s" % (n, member)
            try:
                out("  ", ref, "->", cp.results_manager.data_file_for_reference(ref))
            except Exception as ex:  # pylint: disable=W0718
                out("  ", ref)
                show_exception(ex)
            run(cp, "collect_paths", filename=ref, pathsname="replay")
            dump_group(cp, "replay")

    section("RESULTS REFERENCES: error cases")
    cp.paths_manager.add_named_paths(name="ffonly", paths=["""~id:ff~ $[*][ @c = count() yes() ]"""])
    run(cp, "fast_forward_paths", filename="plain", pathsname="ffonly")
    bad = [
        "$c3.variables.n",
        "$c3.headers.a",
        "$nosuch.results.20:last.first",
        "$c3.results.1999:last.first",
        "$c3.results.1999-01-01_00-00-00.first",
        "$c3.results.20:last.nosuchmember",
        "$c3.results.20:nope.first",
        "$c3.results.20:0.first",
        "$ffonly.results.20:last.ff",
        "$c3.results",
        "$c3",
        "c3.results.20:last.first",
    ]
    for ref in bad:
        out("")
        out("---- data_file_for_reference(%r)" % ref)
        try:
            out("   ->", cp.results_manager.data_file_for_reference(ref))
        except Exception as ex:  # pylint: disable=W0718
            show_exception(ex)
        if ref.startswith("$"):
            run(cp, "collect_paths", filename=ref, pathsname="replay")
    section("archive after the results-reference scenarios")
    list_archive()


def main():
    scenario_chains()
    scenario_other_methods()
    scenario_references()
    scenario_results_references()
    print()
    print("DONE")


if __name__ == "__main__":
    # everything, including what csvpath's own printers write to stdout, is
    # captured and normalised in one pass at the end
    buf = io.StringIO()
    try:
        with contextlib.redirect_stdout(buf):
            main()
    finally:
        register_runs()
        sys.stdout.write(norm(buf.getvalue()))
