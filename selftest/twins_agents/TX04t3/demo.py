#!/usr/bin/env python
"""Differential demonstration for property C04 (validity verdict).

Run with cwd = an empty scratch directory and PYTHONPATH pointing at the
csvpath checkout under test.  Everything observable is printed to stdout in a
deterministic form: timestamps, uuids, timing figures, stack traces, absolute
paths and the fingerprints of files that embed timestamps are normalised.

The script is self-contained: it writes its own offline config/config.ini
(no OpenLineage listeners), its own CSV files, and works below ./demo_work.
"""
import contextlib
import io
import json
import os
import re
import shutil
import sys
import warnings

ROOT = os.path.abspath(os.path.join(os.getcwd(), "demo_work"))

CONFIG = """[csvpath_files]
extensions = txt, csvpath, csvpaths

[csv_files]
extensions = txt, csv, tsv, dat, tab, psv, ssv

[errors]
csvpath = {csvpath_policy}
csvpaths = {csvpaths_policy}

[logging]
csvpath = info
csvpaths = info
log_file = logs/csvpath.log
log_files_to_keep = 100
log_file_size = 52428800

[config]
path = config/config.ini

[cache]
path = cache

[listeners]
[marquez]
base_url = http://localhost:5000

[functions]
imports = config/functions.imports

[results]
archive = archive
transfers = transfers

[inputs]
files = inputs/named_files
csvpaths = inputs/named_paths
on_unmatched_file_fingerprints = halt
"""

FILES = {
    # ordinary file with a blank line, ragged rows, empty values and zeros
    "mixed.csv": "a,b,c\n1,2,3\n4,,6\n\n7,8\nx,0,9,10\n0,0,0\n",
    # header only
    "header_only.csv": "a,b,c\n",
    # completely empty
    "empty.csv": "",
    # only blank lines after the header
    "blanks.csv": "a,b,c\n\n\n\n",
    # all numeric, nothing provokes an error
    "clean.csv": "a,b,c\n1,1,1\n2,2,2\n3,3,3\n4,4,4\n",
    # zeros everywhere (divide by zero), trailing blank lines
    "zeros.csv": "a,b,c\n0,0,0\n0,1,0\n5,0,\n\n\n",
    # quoted values, embedded delimiter, single column rows
    "quoted.csv": 'a,b,c\n"4","x,y",""\n7\n"",,\n',
}

OUT = sys.stdout


def out(*args):
    print(*args, file=OUT)


# ---------------------------------------------------------------- normalising

_TS_DIR = re.compile(r"\d{4}-\d{2}-\d{2}_\d{2}-\d{2}-\d{2}(?:\.\d+)?")
_TS_ISO = re.compile(
    r"\d{4}-\d{2}-\d{2}[ T]\d{2}:\d{2}:\d{2}(?:\.\d+)?(?:\+\d{2}:\d{2})?"
)
_UUID = re.compile(r"[0-9a-f]{8}-[0-9a-f]{4}-[0-9a-f]{4}-[0-9a-f]{4}-[0-9a-f]{12}")

VOLATILE_KEYS = {
    "time",
    "time_completed",
    "time_started",
    "uuid",
    "named_paths_uuid",
    "run_time",
    "run_started_at",
    "lines_time",
    "last_line_time",
    "at",
    "named_file_last_change",
    "run",
}
VOLATILE_FINGERPRINTS = {"meta.json", "errors.json", "manifest.json"}


class RunDirs:
    """maps the run-dir timestamps of each named-paths group to RUN0, RUN1, ...
    in order of creation: (time, counter) where the first dir of a second has
    no counter and the following ones have .0, .1, ..."""

    _IN_PATH = re.compile(r"([^/\\\s\"']+)/(" + _TS_DIR.pattern + ")")

    def __init__(self):
        self.maps = {}

    def scan(self, archive):
        def key(n):
            base, _, cnt = n.partition(".")
            return (base, int(cnt) if cnt else -1)

        if os.path.isdir(archive):
            for g in os.listdir(archive):
                d = os.path.join(archive, g)
                if os.path.isdir(d):
                    names = [r for r in os.listdir(d) if _TS_DIR.fullmatch(r)]
                    self.maps[g] = {
                        n: f"RUN{i}" for i, n in enumerate(sorted(names, key=key))
                    }

    def sub(self, s, group=None):
        def in_path(m):
            g = m.group(1)
            if g in self.maps:
                return g + "/" + self.maps[g].get(m.group(2), "RUN?")
            return m.group(0)

        def bare(m):
            return self.maps.get(group, {}).get(m.group(0), "RUN?")

        s = self._IN_PATH.sub(in_path, s)
        return _TS_DIR.sub(bare, s)


_ADDR = re.compile(r" at 0x[0-9a-fA-F]+")


def norm_text(s, rundirs=None, group=None):
    if not isinstance(s, str):
        return s
    if rundirs is not None:
        s = rundirs.sub(s, group)
    else:
        s = _TS_DIR.sub("RUN?", s)
    s = _TS_ISO.sub("<TIME>", s)
    s = _UUID.sub("<UUID>", s)
    s = _ADDR.sub(" at 0x<ADDR>", s)
    s = s.replace(ROOT, "<ROOT>")
    return s


def norm_json(o, rundirs=None, group=None):
    if isinstance(o, dict):
        ret = {}
        for k, v in o.items():
            if k in VOLATILE_KEYS:
                ret[k] = None if v is None else "<VOLATILE>"
            elif k == "trace":
                ret[k] = None if v is None else "<TRACE>"
            elif k == "file_fingerprints" and isinstance(v, dict):
                ret[k] = {
                    fk: ("<FP>" if fk in VOLATILE_FINGERPRINTS else fv)
                    for fk, fv in v.items()
                }
            else:
                ret[k] = norm_json(v, rundirs, group)
        return ret
    if isinstance(o, list):
        return [norm_json(_, rundirs, group) for _ in o]
    if isinstance(o, str):
        return norm_text(o, rundirs, group)
    return o


SUMMARY_KEYS = (
    "all_valid",
    "all_completed",
    "error_count",
    "all_expected_files",
    "status",
    "valid",
    "completed",
    "files_expected",
    "file_count",
)


def dump_tree(top, full):
    """prints a listing of every file below top, with the normalised contents
    (full) or just the verdict-related keys of the manifests and metadata"""
    rundirs = RunDirs()
    rundirs.scan(top)
    entries = []
    for root, dirs, files in os.walk(top):
        for f in files:
            p = os.path.join(root, f)
            rel = os.path.relpath(p, top).split(os.sep)
            group = rel[0] if len(rel) > 1 else None
            shown = rundirs.sub(os.path.relpath(p, ROOT), group)
            entries.append((shown, p, group))
    entries.sort()
    for shown, p, group in entries:
        with open(p, "r", encoding="utf-8") as fh:
            text = fh.read()
        if p.endswith(".json"):
            try:
                j = norm_json(json.loads(text), rundirs, group)
                if full:
                    text = json.dumps(j, sort_keys=False)
                else:
                    picked = {}
                    if isinstance(j, dict):
                        picked = {k: j[k] for k in SUMMARY_KEYS if k in j}
                        rd = j.get("runtime_data")
                        if isinstance(rd, dict):
                            picked["runtime_data.valid"] = rd.get("valid")
                            picked["runtime_data.stopped"] = rd.get("stopped")
                    elif isinstance(j, list):
                        picked = {"entries": len(j)}
                    text = json.dumps(picked, sort_keys=False)
            except Exception as e:  # pragma: no cover
                text = f"<unparseable json {type(e).__name__}> " + norm_text(
                    text, rundirs, group
                )
        else:
            text = norm_text(text, rundirs, group)
            if not full:
                text = f"<{len(text)} chars, {text.count(chr(10))} lines>"
        out(f"  ---- file: {shown}")
        for line in text.rstrip("\n").split("\n"):
            out("    | " + line)


# ---------------------------------------------------------------- environment


def fresh_dir(name, csvpath_policy, csvpaths_policy="raise, collect"):
    d = os.path.join(ROOT, name)
    if os.path.exists(d):
        shutil.rmtree(d)
    os.makedirs(os.path.join(d, "config"))
    with open(os.path.join(d, "config", "config.ini"), "w", encoding="utf-8") as f:
        f.write(
            CONFIG.format(
                csvpath_policy=csvpath_policy, csvpaths_policy=csvpaths_policy
            )
        )
    with open(os.path.join(d, "config", "functions.imports"), "w") as f:
        f.write("")
    for n, c in FILES.items():
        with open(os.path.join(d, n), "w", encoding="utf-8") as f:
            f.write(c)
    os.chdir(d)
    return d


def describe_error(e):
    return {
        "error": norm_text(str(e.error)),
        "class": getattr(e, "exception_class", "<none>"),
        "line": e.line_count,
        "match": e.match_count,
        "scan": e.scan_count,
        "filename": norm_text(e.filename),
        "message": norm_text(e.message),
        "datum": e.datum,
        "has_trace": e.trace is not None,
        "source": norm_text(f"{e.source}"),
    }


def describe_exception(ex):
    chain = []
    c = ex
    seen = 0
    while c is not None and seen < 5:
        chain.append(f"{type(c).__name__}: {norm_text(str(c))[:300]}")
        c = c.__cause__
        seen += 1
    return " <- ".join(chain)


@contextlib.contextmanager
def captured():
    buf = io.StringIO()
    with contextlib.redirect_stdout(buf):
        yield buf


def show_printed(buf):
    text = norm_text(buf.getvalue())
    if text == "":
        out("    printed: <nothing>")
    else:
        for line in text.rstrip("\n").split("\n"):
            out("    printed| " + line)


# ---------------------------------------------------------------- scenarios

STANDALONE_PATHS = [
    # plain conditional fails
    '$FILE[*][ #a == "4" -> fail() ]',
    '$FILE[*][ #a == "nope" -> fail() ]',
    '$FILE[*][ yes() -> fail() ]',
    '$FILE[*][ no() -> fail() ]',
    '$FILE[*][ fail() ]',
    '$FILE[2][ fail() ]',
    '$FILE[100][ fail() ]',
    '$FILE[1*][ fail.onmatch() #b == "0" ]',
    '$FILE[*][ fail.once() ]',
    '$FILE[*][ last() -> fail() ]',
    '$FILE[*][ not(#b) -> fail() ]',
    '$FILE[*][ #c == "0" -> fail() ]',
    # verdict as of the current line
    '$FILE[*][ push("v_before", valid()) #a == "4" -> fail() push("f_after", failed()) ]',
    '$FILE[*][ #a == "7" -> fail() failed() -> @failed_at = line_number() valid() -> @last_valid = line_number() ]',
    '$FILE[*][ failed() -> stop() #b == "0" -> fail() ]',
    '$FILE[*][ valid() #a == "4" -> fail() ]',
    '$FILE[*][ failed() #a == "4" -> fail() ]',
    # fail_and_stop, stop, fail_all, stop_all
    '$FILE[*][ #a == "7" -> fail_and_stop() ]',
    '$FILE[*][ fail_and_stop(#a == "7") ]',
    '$FILE[*][ fail_and_stop(#a == "nope") ]',
    '$FILE[*][ fail_and_stop() ]',
    '$FILE[*][ #a == "7" -> stop() ]',
    '$FILE[*][ stop(#a == "7") ]',
    '$FILE[*][ stop_all(#a == "7") ]',
    '$FILE[*][ #a == "4" -> fail_all() ]',
    '$FILE[*][ #a == "4" -> fail() #a == "7" -> fail_and_stop() ]',
    '$FILE[*][ #a == "4" -> fail() skip() ]',
    '$FILE[*][ skip(#a == "4") fail() ]',
    # error provoking components
    "$FILE[*][ @x = int(#a) ]",
    "$FILE[*][ @x = divide(#a, #b) ]",
    '$FILE[*][ @x = int(#a) #a == "0" -> fail() ]',
    '$FILE[*][ @x = add(#a, "z") ]',
    "$FILE[*][ @x = divide(#c, #b) valid() ]",
    # per-csvpath validation-mode overrides of the policy
    "~ validation-mode: no-raise, no-stop, fail ~ $FILE[*][ @x = int(#a) ]",
    "~ validation-mode: no-raise, no-stop, no-fail, print ~ $FILE[*][ @x = int(#a) ]",
    "~ validation-mode: no-raise, stop, no-fail, no-print ~ $FILE[*][ @x = int(#a) ]",
    "~ validation-mode: raise, no-stop, fail ~ $FILE[*][ @x = int(#a) ]",
    "~ validation-mode: no-raise, no-stop, fail, match ~ $FILE[*][ @x = int(#a) ]",
    "~ validation-mode: no-raise, no-stop, no-fail, no-match ~ $FILE[*][ @x = int(#a) ]",
    # structurally invalid csvpaths (errors before the run starts)
    '$FILE[*][ fail("x") ]',
    '$FILE[*][ failed(1) ]',
    "$FILE[*][ fail_and_stop(1, 2) ]",
]

POLICIES = [
    None,  # whatever config.ini says: raise, collect, stop, fail, print
    ["collect"],
    ["collect", "fail"],
    ["fail"],
    ["stop", "fail", "print"],
    ["quiet", "print"],
    ["quiet", "collect", "stop"],
    ["raise"],
    ["raise", "fail", "collect"],
    ["print", "collect", "fail", "stop"],
]


def report_path(p, label=""):
    out(
        f"    {label}is_valid={p.is_valid!r} stopped={p.stopped!r} "
        f"has_errors={p.has_errors()!r} variables={json.dumps(p.variables, sort_keys=True, default=str)}"
    )
    errs = p.errors or []
    out(f"    errors: {len(errs)}")
    for e in errs:
        out("      " + json.dumps(describe_error(e), sort_keys=True, default=str))


def standalone_collect(path, filename, policy):
    from csvpath import CsvPath

    out(f"  * collect file={filename} policy={policy} path={path}")
    p = CsvPath()
    if policy is not None:
        p.config.csvpath_errors_policy = policy
    with captured() as buf:
        try:
            p.parse(path.replace("FILE", filename))
            lines = p.collect()
            res = f"lines={lines!r}"
        except Exception as ex:  # pylint: disable=W0718
            res = "EXCEPTION " + describe_exception(ex)
    out("    " + res)
    show_printed(buf)
    report_path(p)
    try:
        out(
            f"    counts: line={p.line_monitor.physical_line_number} "
            f"match={p.match_count} scan={p.scan_count}"
        )
    except Exception as ex:  # pylint: disable=W0718
        out("    counts: EXCEPTION " + describe_exception(ex))


def standalone_next(path, filename, policy):
    from csvpath import CsvPath

    out(f"  * next file={filename} policy={policy} path={path}")
    p = CsvPath()
    if policy is not None:
        p.config.csvpath_errors_policy = policy
    verdicts = [("start", p.is_valid)]
    with captured() as buf:
        try:
            p.parse(path.replace("FILE", filename))
            verdicts.append(("parsed", p.is_valid))
            for line in p.next():
                verdicts.append(
                    (
                        p.line_monitor.physical_line_number,
                        line,
                        p.is_valid,
                        p.stopped,
                    )
                )
            res = "done"
        except Exception as ex:  # pylint: disable=W0718
            res = "EXCEPTION " + describe_exception(ex)
    out("    " + res)
    for v in verdicts:
        out(f"    step {v!r}")
    show_printed(buf)
    report_path(p)


def standalone_fast_forward_twice(path, filename, policy):
    """repeated runs: two fresh instances and the verdict of each"""
    from csvpath import CsvPath

    out(f"  * fast_forward x2 file={filename} policy={policy} path={path}")
    for i in range(2):
        p = CsvPath()
        if policy is not None:
            p.config.csvpath_errors_policy = policy
        with captured() as buf:
            try:
                p.fast_forward(path.replace("FILE", filename))
                res = "done"
            except Exception as ex:  # pylint: disable=W0718
                res = "EXCEPTION " + describe_exception(ex)
        out(f"    run {i}: {res}")
        show_printed(buf)
        report_path(p)


def section_standalone():
    out("=" * 70)
    out("SECTION 1: standalone CsvPath, collect(), all paths x mixed.csv x policies")
    fresh_dir("s1", "raise, collect, stop, fail, print")
    for path in STANDALONE_PATHS:
        for policy in POLICIES:
            standalone_collect(path, "mixed.csv", policy)
    out("=" * 70)
    out("SECTION 2: standalone CsvPath, all files, selected paths and policies")
    fresh_dir("s2", "collect, fail, print")
    some_paths = [
        STANDALONE_PATHS[0],
        STANDALONE_PATHS[4],
        STANDALONE_PATHS[9],
        STANDALONE_PATHS[12],
        STANDALONE_PATHS[17],
        STANDALONE_PATHS[20],
        STANDALONE_PATHS[29],
        STANDALONE_PATHS[32],
        STANDALONE_PATHS[33],
    ]
    for filename in FILES:
        for path in some_paths:
            for policy in (None, ["collect"], ["print", "stop", "fail"]):
                standalone_collect(path, filename, policy)
    out("=" * 70)
    out("SECTION 3: verdict line by line with next()")
    fresh_dir("s3", "collect, fail, print")
    for filename in ("mixed.csv", "zeros.csv", "quoted.csv", "blanks.csv"):
        for path in (
            STANDALONE_PATHS[0],
            STANDALONE_PATHS[12],
            STANDALONE_PATHS[13],
            STANDALONE_PATHS[14],
            STANDALONE_PATHS[18],
            STANDALONE_PATHS[25],
            STANDALONE_PATHS[28],
            STANDALONE_PATHS[29],
            STANDALONE_PATHS[33],
        ):
            for policy in (None, ["collect"], ["raise", "fail"]):
                standalone_next(path, filename, policy)
    out("=" * 70)
    out("SECTION 4: repeated runs")
    fresh_dir("s4", "collect, stop, fail, print")
    for path in (STANDALONE_PATHS[0], STANDALONE_PATHS[17], STANDALONE_PATHS[28]):
        for policy in (None, ["collect"], ["fail"]):
            standalone_fast_forward_twice(path, "mixed.csv", policy)


# ------------------------------------------------ error handler, directly


class RichException(Exception):
    """carries every optional attribute ErrorHandler.build() looks for"""

    def __init__(self, msg):
        super().__init__(msg)
        self.json = '{"rich": true}'
        self.datum = 0
        self.message = "rich message"
        self.trace = "rich trace"
        self.source = "rich source"


class EmptyDatumException(Exception):
    def __init__(self, msg):
        super().__init__(msg)
        self.datum = ""
        self.message = ""


def section_error_handler():
    from csvpath import CsvPath, CsvPaths
    from csvpath.util.error import (
        ErrorHandler,
        ErrorCommsManager,
        ErrorHandlingException,
        Error,
    )

    out("=" * 70)
    out("SECTION 5: ErrorHandler / ErrorCommsManager used directly")
    fresh_dir("s5", "collect, fail, print", "collect, print")
    comments = [
        "",
        "~ validation-mode: no-raise, no-stop, no-fail, no-print ~ ",
        "~ validation-mode: raise, stop, fail, print ~ ",
        "~ validation-mode: fail ~ ",
        "~ validation-mode: no-fail, stop ~ ",
    ]
    policies = POLICIES + [[], ["quiet"], ["fail", "fail"], ["FAIL"], ["collect", "raise"]]
    exceptions = [
        lambda: ValueError("plain value error"),
        lambda: RichException("rich"),
        lambda: EmptyDatumException(""),
    ]
    for comment in comments:
        for policy in policies:
            p = CsvPath()
            if policy is not None:
                p.config.csvpath_errors_policy = policy
            with captured() as buf:
                p.parse(comment + "$mixed.csv[*][ yes() ]")
            ecm = ErrorCommsManager(csvpath=p)
            out(
                f"  * comment={comment!r} policy={policy} "
                f"raise={ecm.do_i_raise()!r} print={ecm.do_i_print()!r} "
                f"stop={ecm.do_i_stop()!r} fail={ecm.do_i_fail()!r} "
                f"path.do_i_raise={p.do_i_raise()!r}"
            )
            for mk in exceptions:
                ex = mk()
                before = (p.is_valid, p.stopped)
                with captured() as buf:
                    try:
                        ret = ErrorHandler(csvpath=p, error_collector=p).handle_error(ex)
                        res = f"returned {ret!r}"
                    except Exception as e:  # pylint: disable=W0718
                        res = "EXCEPTION " + describe_exception(e)
                out(f"    handle {type(ex).__name__}: {res}; before={before}")
                show_printed(buf)
                report_path(p)
            # once False the verdict must not come back
            p.is_valid = False
            with captured() as buf:
                try:
                    ErrorHandler(csvpath=p).handle_error(KeyError("after fail"))
                    res = "ok"
                except Exception as e:  # pylint: disable=W0718
                    res = "EXCEPTION " + describe_exception(e)
            out(f"    after forced fail: {res} is_valid={p.is_valid!r} errors={len(p.errors or [])}")
    #
    # a separate collector, a mid-run handler, a None error
    #
    out("  * separate collector / mid-run / None error")

    class Collector:
        def __init__(self):
            self.errors = []

        def collect_error(self, e):
            self.errors.append(e)

        def has_errors(self):
            return len(self.errors) > 0

    for policy in (["collect", "fail"], ["stop"], ["collect", "raise", "fail", "stop", "print"]):
        p = CsvPath()
        p.config.csvpath_errors_policy = policy
        c = Collector()
        with captured() as buf:
            p.parse("$mixed.csv[*][ yes() ]")
            it = p.next()
            first = next(it)
            try:
                ErrorHandler(csvpath=p, error_collector=c).handle_error(
                    RichException("mid-run")
                )
                res = "ok"
            except Exception as e:  # pylint: disable=W0718
                res = "EXCEPTION " + describe_exception(e)
            rest = list(it)
        out(f"    policy={policy} first={first} rest={rest} {res}")
        show_printed(buf)
        out(f"    collector: {[json.dumps(describe_error(e), sort_keys=True, default=str) for e in c.errors]}")
        report_path(p)
        try:
            ErrorHandler(csvpath=p)._handle_if(policy=policy, error=None)
            out("    None error: no exception")
        except Exception as e:  # pylint: disable=W0718
            out("    None error: " + describe_exception(e))
        out(f"    is_valid after None error: {p.is_valid!r}")
    try:
        ErrorHandler()
        out("    ErrorHandler(): no exception")
    except ErrorHandlingException as e:
        out("    ErrorHandler(): " + describe_exception(e))
    try:
        ErrorHandler(error_collector=Collector())
        out("    ErrorHandler(error_collector): no exception")
    except ErrorHandlingException as e:
        out("    ErrorHandler(error_collector): " + describe_exception(e))
    try:
        ErrorCommsManager()
        out("    ErrorCommsManager(): no exception")
    except ErrorHandlingException as e:
        out("    ErrorCommsManager(): " + describe_exception(e))
    #
    # CsvPaths as the owner
    #
    for policy in (["collect"], ["collect", "print", "fail", "stop"], ["raise", "collect"], ["quiet"]):
        cp = CsvPaths()
        cp.config.csvpaths_errors_policy = policy
        ecm = ErrorCommsManager(csvpaths=cp)
        out(
            f"  * csvpaths policy={policy} raise={ecm.do_i_raise()!r} print={ecm.do_i_print()!r} "
            f"stop={ecm.do_i_stop()!r} fail={ecm.do_i_fail()!r}"
        )
        for mk in exceptions:
            with captured() as buf:
                try:
                    ErrorHandler(csvpaths=cp).handle_error(mk())
                    res = "ok"
                except Exception as e:  # pylint: disable=W0718
                    res = "EXCEPTION " + describe_exception(e)
            out(f"    {res}")
            show_printed(buf)
        out(f"    csvpaths has_errors={cp.has_errors()!r}")
        for e in cp.errors:
            out("      " + json.dumps(describe_error(e), sort_keys=True, default=str))
        # csvpaths + csvpath + result-like collector: csvpath's policy rules
        p = cp.csvpath()
        p.config.csvpath_errors_policy = ["collect", "fail"]
        with captured() as buf:
            p.parse("$mixed.csv[*][ yes() ]")
            c = Collector()
            try:
                ErrorHandler(csvpaths=cp, csvpath=p, error_collector=c).handle_error(
                    ValueError("both")
                )
                res = "ok"
            except Exception as e:  # pylint: disable=W0718
                res = "EXCEPTION " + describe_exception(e)
        out(f"    both: {res} collected={len(c.errors)} is_valid={p.is_valid!r} stopped={p.stopped!r}")
    #
    # Error object rendering
    #
    e = Error()
    out("  * Error.to_json keys: " + ",".join(k for k in e.__dict__))


# ------------------------------------------------ named-paths runs

GROUPS = {
    "allgood": [
        "$[*][ yes() ]",
        '~id:second~ $[*][ #a == "nope" -> fail() ]',
    ],
    "onefails": [
        "$[*][ yes() ]",
        '~id:two~ $[*][ #a == "4" -> fail() print("line $.csvpath.line_number valid $.csvpath.valid") ]',
        '~id:three~ $[*][ push("v", valid()) ]',
    ],
    "failandstop": [
        '~id:fs~ $[*][ #a == "7" -> fail_and_stop() ]',
        '~id:fs_child~ $[*][ fail_and_stop(#b == "0") ]',
        '~id:just_stop~ $[*][ stop(#b == "0") ]',
    ],
    "failall": [
        '~id:first~ $[*][ @n = line_number() ]',
        '~id:boom~ $[*][ #a == "4" -> fail_all() ]',
        '~id:after~ $[*][ @n = line_number() ]',
    ],
    "stopall": [
        '~id:first~ $[*][ @n = line_number() ]',
        '~id:halt~ $[*][ stop_all(#a == "4") ]',
        '~id:after~ $[*][ @n = line_number() ]',
    ],
    "errors": [
        '~id:conv validation-mode:no-raise,no-stop~ $[*][ @x = int(#a) ]',
        '~id:div validation-mode:no-raise,no-stop,no-fail~ $[*][ @x = divide(#a, #b) ]',
        '~id:fine~ $[*][ #a ]',
    ],
    "errors_plain": [
        "~id:conv~ $[*][ @x = int(#a) ]",
        "~id:fine~ $[*][ #a ]",
    ],
    "expectfiles": [
        "~id:wants_printouts files-mode: printouts ~ $[*][ yes() ]",
        '~id:has_printouts files-mode: printouts ~ $[*][ print("hi $.csvpath.failed") fail() ]',
        "~id:wants_all files-mode: all ~ $[1][ yes() ]",
    ],
    "empty_group_member": [
        "~id:nothing~ $[100][ fail() ]",
        "~id:norun run-mode:no-run~ $[*][ fail() ]",
    ],
}

GROUP_POLICIES = [
    ("raise, collect, stop, fail, print", "raise, collect"),
    ("collect, print", "collect"),
    ("collect, fail", "collect"),
    ("quiet, stop", "quiet, collect"),
]


def report_results(cp, name):
    rm = cp.results_manager
    for label, fn in (
        ("is_valid", lambda: rm.is_valid(name)),
        ("has_lines", lambda: rm.has_lines(name)),
        ("has_errors", lambda: rm.has_errors(name)),
        ("get_number_of_results", lambda: rm.get_number_of_results(name)),
        ("get_variables", lambda: json.dumps(rm.get_variables(name), sort_keys=True, default=str)),
        ("get_metadata", lambda: json.dumps(norm_json(rm.get_metadata(name)), sort_keys=True, default=str)),
    ):
        try:
            out(f"    results_manager.{label}: {fn()!r}")
        except Exception as ex:  # pylint: disable=W0718
            out(f"    results_manager.{label}: EXCEPTION {describe_exception(ex)}")
    try:
        results = rm.get_named_results(name)
    except Exception as ex:  # pylint: disable=W0718
        out(f"    get_named_results: EXCEPTION {describe_exception(ex)}")
        results = None
    for r in results or []:
        try:
            lines = r.lines
            n = len(lines) if lines is not None else None
        except Exception as ex:  # pylint: disable=W0718
            n = "EXCEPTION " + describe_exception(ex)
        out(
            f"    result {r.identity_or_index}: is_valid={r.is_valid!r} csvpath.is_valid={r.csvpath.is_valid!r} "
            f"stopped={r.csvpath.stopped!r} errors_count={r.errors_count} has_errors={r.has_errors()!r} "
            f"lines={n} variables={json.dumps(r.csvpath.variables, sort_keys=True, default=str)}"
        )
        for e in r.errors or []:
            out("      " + json.dumps(describe_error(e), sort_keys=True, default=str))
        try:
            m = rm.get_specific_named_result_manifest(name, r.csvpath.identity)
            m = norm_json(m)
            out(f"      manifest valid={m.get('valid')!r} completed={m.get('completed')!r} files_expected={m.get('files_expected')!r} error_count={m.get('error_count')!r}")
        except Exception as ex:  # pylint: disable=W0718
            out(f"      manifest: EXCEPTION {describe_exception(ex)}")
    out(f"    csvpaths.has_errors={cp.has_errors()!r} errors={[norm_text(str(e.error)) for e in cp.errors]}")


def run_group(method, name, filename):
    from csvpath import CsvPaths

    out(f"  * {method} group={name} file={filename}")
    cp = CsvPaths()
    cp.file_manager.add_named_file(name="f", path=filename)
    cp.paths_manager.add_named_paths(name=name, paths=GROUPS[name])
    with captured() as buf:
        try:
            if method in ("collect_paths", "fast_forward_paths", "collect_by_line", "fast_forward_by_line"):
                getattr(cp, method)(filename="f", pathsname=name)
                res = "done"
            else:
                steps = []
                for line in getattr(cp, method)(filename="f", pathsname=name):
                    steps.append(
                        (
                            line,
                            [
                                (r.identity_or_index, r.csvpath.is_valid, r.csvpath.stopped)
                                for r in cp.results_manager.get_named_results(name)
                            ],
                            cp.results_manager.is_valid(name),
                        )
                    )
                res = "done\n" + "\n".join(f"      step {s!r}" for s in steps)
        except Exception as ex:  # pylint: disable=W0718
            res = "EXCEPTION " + describe_exception(ex)
    out("    " + res)
    show_printed(buf)
    report_results(cp, name)
    return cp


def section_groups():
    out("=" * 70)
    out("SECTION 6: named-paths runs")
    n = 0
    for csvpath_policy, csvpaths_policy in GROUP_POLICIES:
        for method in (
            "collect_paths",
            "fast_forward_paths",
            "next_paths",
            "collect_by_line",
            "fast_forward_by_line",
            "next_by_line",
        ):
            n += 1
            d = fresh_dir(f"s6_{n}", csvpath_policy, csvpaths_policy)
            out("-" * 70)
            out(f"  policy csvpath=[{csvpath_policy}] csvpaths=[{csvpaths_policy}] method={method}")
            for name in GROUPS:
                for filename in ("mixed.csv",) if name not in ("allgood", "onefails") else ("mixed.csv", "header_only.csv", "zeros.csv"):
                    run_group(method, name, filename)
            # a repeated run of one group into the same archive
            run_group(method, "onefails", "mixed.csv")
            out("  archive:")
            dump_tree(
                os.path.join(d, "archive"),
                full=method in ("collect_paths", "next_by_line"),
            )

# ------------------------------------------------ aggregate verdicts, directly


class FakePath:
    def __init__(self, owner, is_valid, completed, variables=None):
        self._owner = owner
        self._is_valid = is_valid
        self._completed = completed
        self.variables = variables or {}

    @property
    def is_valid(self):
        self._owner.reads.append("csvpath.is_valid")
        if self._owner._raises:
            raise self._owner._raises("csvpath.is_valid of " + self._owner.name)
        return self._is_valid

    @property
    def completed(self):
        self._owner.reads.append("csvpath.completed")
        return self._completed


class CountingLines:
    """a lines container that records every truth test / len() made on it"""

    def __init__(self, n):
        self.n = n
        self.owner = None

    def __len__(self):
        self.owner.reads.append("lines.__len__")
        return self.n


class CountingVerdict:
    """a verdict whose truth tests are recorded"""

    def __init__(self, tf):
        self.tf = tf
        self.owner = None

    def __bool__(self):
        self.owner.reads.append("verdict.__bool__")
        return self.tf

    def __repr__(self):
        return f"CountingVerdict({self.tf})"


class FakeResult:
    """stands in for a Result in the aggregate methods. counts its reads so
    that short-circuiting is observable."""

    def __init__(self, name, is_valid, completed=True, errors=0, lines=None, raises=None):
        self.name = name
        self._is_valid = is_valid
        self.csvpath = FakePath(self, is_valid, completed)
        self._errors = errors
        self._lines = lines
        self._raises = raises
        self.reads = []
        for o in (is_valid, completed, lines):
            if isinstance(o, (CountingLines, CountingVerdict)):
                o.owner = self

    @property
    def is_valid(self):
        self.reads.append("is_valid")
        if self._raises:
            raise self._raises("is_valid of " + self.name)
        return self._is_valid

    @property
    def errors_count(self):
        self.reads.append("errors_count")
        return self._errors

    def has_errors(self):
        self.reads.append("has_errors")
        return self._errors > 0 if isinstance(self._errors, int) else self._errors

    @property
    def lines(self):
        self.reads.append("lines")
        return self._lines


def section_aggregates():
    from csvpath import CsvPaths
    from csvpath.managers.results.results_registrar import ResultsRegistrar

    out("=" * 70)
    out("SECTION 7: results_manager / ResultsRegistrar aggregate verdicts on hand-made results")
    fresh_dir("s7", "collect, fail, print")
    cp = CsvPaths()

    def mk(kind):
        F = FakeResult
        return {
            "empty": [],
            "one valid": [F("a", True)],
            "one invalid": [F("a", False)],
            "valid then invalid then valid": [F("a", True), F("b", False), F("c", True)],
            "invalid first": [F("a", False, completed=False, errors=2, lines=[["x"]]), F("b", True, errors=3)],
            "all valid with errors and lines": [F("a", True, errors=1, lines=[]), F("b", True, errors=0, lines=[["1"], ["2"]]), F("c", True, errors=4, lines=None)],
            "falsy non-bool verdicts": [F("a", 1), F("b", "yes"), F("c", 0), F("d", True)],
            "none verdict": [F("a", None), F("b", True)],
            "empty string verdict last": [F("a", True), F("b", "")],
            "truthy non-bool verdicts": [F("a", 1, completed=1), F("b", "x", completed="y"), F("c", [0], completed=[0])],
            "not completed": [F("a", True, completed=False), F("b", True, completed=True)],
            "completed none": [F("a", True, completed=True), F("b", True, completed=None)],
            "raising second": [F("a", True), F("b", True, raises=ValueError), F("c", False)],
            "raising after invalid": [F("a", False), F("b", True, raises=ValueError)],
            "bool errors": [F("a", True, errors=True), F("b", True, errors=False)],
            "float errors": [F("a", True, errors=1.5), F("b", True, errors=2)],
            "tuple lines": [F("a", True, lines=()), F("b", True, lines=(1,)), F("c", True, lines=[["never"]])],
            "counted truth tests": [
                F("a", CountingVerdict(True), completed=CountingVerdict(True), lines=CountingLines(0)),
                F("b", CountingVerdict(True), completed=CountingVerdict(False), lines=CountingLines(2)),
                F("c", CountingVerdict(False), completed=CountingVerdict(True), lines=CountingLines(0)),
                F("d", CountingVerdict(True), completed=CountingVerdict(True), lines=CountingLines(1)),
            ],
        }[kind]

    kinds = [
        "empty",
        "one valid",
        "one invalid",
        "valid then invalid then valid",
        "invalid first",
        "all valid with errors and lines",
        "falsy non-bool verdicts",
        "none verdict",
        "empty string verdict last",
        "truthy non-bool verdicts",
        "not completed",
        "completed none",
        "raising second",
        "raising after invalid",
        "bool errors",
        "float errors",
        "tuple lines",
        "counted truth tests",
    ]

    def call(label, fn, results):
        for r in results:
            r.reads.clear()
        try:
            v = fn()
            res = f"{v!r} ({type(v).__name__})"
        except Exception as ex:  # pylint: disable=W0718
            res = "EXCEPTION " + describe_exception(ex)
        reads = [(r.name, list(r.reads)) for r in results]
        out(f"    {label}: {res} reads={reads}")

    for kind in kinds:
        out(f"  * {kind}")
        results = mk(kind)
        rr = ResultsRegistrar(csvpaths=cp, run_dir="archive/x/none", pathsname="x", results=results)
        call("registrar.all_valid", rr.all_valid, results)
        call("registrar.all_completed", rr.all_completed, results)
        call("registrar.error_count", rr.error_count, results)
        cp.results_manager.named_results["x"] = results
        call("manager.is_valid", lambda: cp.results_manager.is_valid("x"), results)
        call("manager.has_errors", lambda: cp.results_manager.has_errors("x"), results)
        call("manager.has_lines", lambda: cp.results_manager.has_lines("x"), results)
    out("  * None / unknown")
    rr = ResultsRegistrar(csvpaths=cp, run_dir="archive/x/none", pathsname="x", results=None)
    for label, fn in (
        ("registrar.all_valid", rr.all_valid),
        ("registrar.all_completed", rr.all_completed),
        ("registrar.error_count", rr.error_count),
        ("registrar.all_expected_files", rr.all_expected_files),
        ("manager.is_valid", lambda: cp.results_manager.is_valid("unknown")),
        ("manager.has_errors", lambda: cp.results_manager.has_errors("unknown")),
        ("manager.has_lines", lambda: cp.results_manager.has_lines("unknown")),
    ):
        call(label, fn, [])
    rr = ResultsRegistrar(csvpaths=cp, run_dir="archive/x/none", pathsname="x", results=[])
    call("registrar.all_expected_files (empty)", rr.all_expected_files, [])
    # generators are consumed once; the methods must cope the same way
    gen = (r for r in mk("valid then invalid then valid"))
    rr = ResultsRegistrar(csvpaths=cp, run_dir="archive/x/none", pathsname="x", results=gen)
    call("registrar.all_valid (generator)", rr.all_valid, [])
    out(f"    generator remainder: {[r.name for r in gen]}")


def section_registrar_on_real_results():
    """all_expected_files and friends on the results of real runs"""
    from csvpath import CsvPaths
    from csvpath.managers.results.results_registrar import ResultsRegistrar

    out("=" * 70)
    out("SECTION 8: ResultsRegistrar over real results")
    fresh_dir("s8", "collect, fail, print", "collect")
    for name in ("allgood", "onefails", "expectfiles", "errors", "failandstop"):
        cp = run_group("collect_paths", name, "mixed.csv")
        results = cp.results_manager.get_named_results(name)
        for subset_label, subset in (
            ("all", results),
            ("reversed", list(reversed(results))),
            ("first only", results[:1]),
            ("last only", results[-1:]),
        ):
            rr = ResultsRegistrar(
                csvpaths=cp, run_dir=results[0].run_dir, pathsname=name, results=subset
            )
            vals = []
            for label, fn in (
                ("all_valid", rr.all_valid),
                ("all_completed", rr.all_completed),
                ("error_count", rr.error_count),
                ("all_expected_files", rr.all_expected_files),
            ):
                try:
                    vals.append(f"{label}={fn()!r}")
                except Exception as ex:  # pylint: disable=W0718
                    vals.append(f"{label}=EXCEPTION {describe_exception(ex)}")
            out(f"    registrar[{subset_label}]: " + " ".join(vals))
        try:
            m = ResultsRegistrar(
                csvpaths=cp, run_dir=results[0].run_dir, pathsname=name, results=results
            ).manifest
            m = norm_json(m)
            out(f"    run manifest: " + json.dumps({k: m.get(k) for k in SUMMARY_KEYS if k in m}))
        except Exception as ex:  # pylint: disable=W0718
            out("    run manifest: EXCEPTION " + describe_exception(ex))


def main():
    warnings.simplefilter("ignore")
    if os.path.exists(ROOT):
        shutil.rmtree(ROOT)
    os.makedirs(ROOT)
    home = os.getcwd()
    try:
        section_standalone()
        section_error_handler()
        section_aggregates()
        section_registrar_on_real_results()
        section_groups()
    finally:
        os.chdir(home)
    out("=" * 70)
    out("END")


if __name__ == "__main__":
    main()
