"""
differential demo for refactoring t3 (CsvPath._consider_line and its new
private tail helper, LineMonitor.is_last_line_and_blank).

run in an empty temp dir:   PYTHONPATH=<worktree> python demo.py > out.txt
the transcript is deterministic: no timestamps, no paths outside cwd.
"""
import contextlib
import io
import itertools
import logging
import os
import sys

CONFIG = """[csvpath_files]
extensions = txt, csvpath, csvpaths

[csv_files]
extensions = txt, csv, tsv, dat, tab, psv, ssv

[errors]
csvpath = raise, collect, stop, fail, print
csvpaths = raise, collect

[logging]
csvpath = info
csvpaths = info
log_file = logs/csvpath.log
log_files_to_keep = 100
log_file_size = 52428800

[config]
path = config/config.ini

[cache]
path = cache

[listeners]
[marquez]
base_url = http://localhost:5000

[functions]
imports = config/functions.imports

[results]
archive = archive
transfers = transfers

[inputs]
files = inputs/named_files
csvpaths = inputs/named_paths
on_unmatched_file_fingerprints = halt
"""

os.makedirs("config", exist_ok=True)
with open("config/config.ini", "w", encoding="utf-8") as f:
    f.write(CONFIG)
if not os.path.exists("config/functions.imports"):
    with open("config/functions.imports", "w", encoding="utf-8") as f:
        f.write("")

import json  # noqa: E402
import shutil  # noqa: E402

from csvpath import CsvPath, CsvPaths  # noqa: E402
from csvpath.util.line_monitor import LineMonitor  # noqa: E402

OUT = sys.stdout


def say(*a):
    print(*a, file=OUT)


# ----------------------------------------------------------------------
# part A: LineMonitor.is_last_line_and_blank over all small states
# ----------------------------------------------------------------------
def part_a():
    say("=== part A: LineMonitor.is_last_line_and_blank")
    vals = [None, 0, 1, 5, -1]
    lines = [None, [], [""], ["a"], ["", ""], (), "", "x", {}, 0, 3]
    for end, cur in itertools.product(vals, vals):
        lm = LineMonitor()
        lm._physical_end_line_number = end  # pylint: disable=W0212
        lm._physical_line_number = cur  # pylint: disable=W0212
        row = []
        for line in lines:
            try:
                r = lm.is_last_line_and_blank(line)
                row.append(repr(r))
            except Exception as e:  # pylint: disable=W0718
                row.append("<" + type(e).__name__ + ">")
        say(f"end={end} cur={cur} -> {' '.join(row)} last={lm.is_last_line()}")
    # driven the way a run drives it
    lm = LineMonitor()
    say("fresh:", lm.is_last_line_and_blank([]), lm.is_last_line_and_blank(["a"]))
    for data in (["a"], [], ["b"], []):
        lm.next_line(last_line=None, data=data)
    say("counted:", lm.dump(), lm.is_last_line_and_blank([]))
    lm.set_end_lines_and_reset()
    say("reset:", lm.dump(), lm.is_last_line_and_blank([]))
    for data in (["a"], [], ["b"], []):
        lm.next_line(last_line=None, data=data)
        say("  step:", lm.physical_line_number, lm.is_last_line_and_blank(data), lm.is_last_line_and_blank(["z"]))


# ----------------------------------------------------------------------
# part B: standalone CsvPath runs
# ----------------------------------------------------------------------
def write_file(name, mask, trailing_newline=True):
    recs = []
    for i, blank in enumerate(mask):
        if blank:
            recs.append("")
        elif i % 4 == 1:
            recs.append(f"r{i}")
        elif i % 4 == 2:
            recs.append(f"r{i},,x,")
        else:
            recs.append(f"r{i},v{i}")
    txt = "\n".join(recs)
    if trailing_newline and recs:
        txt += "\n"
    with open(name, "w", encoding="utf-8") as f:
        f.write(txt)


MATCHES = [
    'yes() push("seen", line_number())',
    'no() push("seen", line_number())',
    '#0 == "r3"',
    '#0 == "r1" -> advance(2) push("seen", line_number())',
    '#0 == "r0" -> advance(1) @m = count() @s = count_scans() @l = count_lines()',
    '#0 == "r3" -> skip() push("seen", line_number())',
    '#0 == "r3" -> stop() push("seen", line_number())',
    'push("seen", line_number()) #0 == "r4" -> stop()',
    '#0 == "r1" -> fail() yes()',
    'last.nocontrib() -> print("last at $.csvpath.line_number with $.csvpath.count_matches matches") yes()',
    'count.nocontrib() == 2 -> print("second match at $.csvpath.line_number") #1',
    '@c.onmatch = count() #1 == "v4"',
    'collect(0) yes()',
    'collect(1) yes()',
    'mod(line_number(), 2) == 0',
    'firstline.nocontrib() -> print("first") after_blank.nocontrib() -> push("ab", line_number()) yes()',
    '',
]
PREFIXES = [
    "",
    "~ return-mode: no-matches ~ ",
    "~ unmatched-mode: keep ~ ",
    "~ return-mode: no-matches unmatched-mode: keep ~ ",
    "~ logic-mode: OR ~ ",
    "~ run-mode: no-run ~ ",
]
SCANS = ["*", "1*", "0-3", "3-0", "1+3+4", "0-1+4-6", "2", "5", "9*", "4-12"]


def observe(p, lines, buf, label):
    lm = p.line_monitor
    try:
        un = p.unmatched
    except Exception as e:  # pylint: disable=W0718
        un = "<" + type(e).__name__ + ">"
    say(
        f"{label} lines={lines} scan={p.scan_count} match={p.match_count} "
        f"vars={dict(p.variables)} stopped={p.stopped} completed={p.completed} "
        f"valid={p.is_valid} adv={p.advance_count} pln={lm.physical_line_number} "
        f"dln={lm.data_line_number} unmatched={un} "
        f"errs={[str(e.message) if hasattr(e, 'message') else str(e) for e in (p.errors or [])]} "
        f"printed={p.printers[0].last_line if p.printers else None!r} out={buf.getvalue()!r}"
    )


def run(fname, scan, match, prefix="", how="collect", **kw):
    label = f"{how} {prefix}[{scan}][{match}] {kw if kw else ''}"
    buf = io.StringIO()
    p = None
    try:
        with contextlib.redirect_stdout(buf):
            p = CsvPath(**kw)
            m = f"[{match}]" if match != "" else "[yes()]" if how == "bare" else "[]"
            p.parse(f"{prefix}${fname}[{scan}]{m}")
            if how == "collect":
                lines = p.collect()
            elif how == "ff":
                p.fast_forward()
                lines = None
            elif how == "nexts":
                lines = p.collect(nexts=2)
            else:
                lines = []
                for line in p.next():
                    lines.append(
                        (list(line), p.line_monitor.physical_line_number, p.scan_count, p.match_count, p.stopped)
                    )
        observe(p, lines, buf, label)
    except Exception as e:  # pylint: disable=W0718
        say(f"{label} EXC {type(e).__name__}: {str(e)[:160]!r} out={buf.getvalue()[:300]!r}")
        if p is not None and p.scanner is not None and p._line_monitor is not None:
            say(f"    after exc: scan={p.scan_count} match={p.match_count} vars={dict(p.variables)} stopped={p.stopped} pln={p.line_monitor.physical_line_number}")


def part_b():
    say("=== part B: standalone CsvPath")
    files = {
        "plain": ((0, 0, 0, 0, 0, 0, 0), True),
        "blanks": ((0, 0, 1, 0, 0, 1, 0, 1, 1), True),
        "blank_end_no_nl": ((1, 0, 0, 0, 0, 1), False),
        "all_blank": ((1, 1, 1), True),
        "empty": ((), True),
        "one": ((0,), False),
    }
    for fname, (mask, trailing) in files.items():
        write_file(f"{fname}.csv", mask, trailing_newline=trailing)
        say(f"--- file {fname} mask={''.join(map(str, mask))} trailing_newline={trailing}")
        small = fname in ("all_blank", "empty", "one")
        for scan in SCANS:
            for match in MATCHES:
                if small and MATCHES.index(match) > 3:
                    continue
                run(f"{fname}.csv", scan, match)
        for scan in ["*", "0-3", "1+3+4"]:
            for match in MATCHES[:9]:
                for prefix in PREFIXES[1:]:
                    run(f"{fname}.csv", scan, match, prefix=prefix)
                run(f"{fname}.csv", scan, match, how="ff")
                run(f"{fname}.csv", scan, match, how="next")
                run(f"{fname}.csv", scan, match, how="nexts")
                run(f"{fname}.csv", scan, match, skip_blank_lines=False)
                run(f"{fname}.csv", scan, match, prefix=PREFIXES[1], how="next", skip_blank_lines=False)
    say("--- reuse of one CsvPath for a second run")
    write_file("again.csv", (0, 0, 1, 0, 0))
    for scan in ["*", "1-3", "0+3"]:
        p = CsvPath()
        p.parse(f'$again.csv[{scan}][yes() push("seen", line_number())]')
        a = p.collect()
        try:
            b = p.collect()
        except Exception as e:  # pylint: disable=W0718
            b = "<" + type(e).__name__ + ">"
        say(f"[{scan}] first={a} second={b} scan={p.scan_count} match={p.match_count} vars={dict(p.variables)}")
    say("--- advance() and stop() from outside, between next() steps")
    for scan in ["*", "1-4", "0+1+3+4"]:
        p = CsvPath()
        p.parse(f'$again.csv[{scan}][yes() push("seen", line_number())]')
        got = []
        for i, line in enumerate(p.next()):
            got.append(line[0])
            if i == 0:
                p.advance(1)
        say(f"[{scan}] advance got={got} scan={p.scan_count} match={p.match_count} vars={dict(p.variables)} adv={p.advance_count}")
        p = CsvPath()
        p.parse(f'$again.csv[{scan}][yes() push("seen", line_number())]')
        got = []
        for i, line in enumerate(p.next()):
            got.append(line[0])
            if i == 1:
                p.stop()
        say(f"[{scan}] stop got={got} scan={p.scan_count} match={p.match_count} vars={dict(p.variables)} completed={p.completed}")
        p = CsvPath()
        p.parse(f'$again.csv[{scan}][yes()]')
        p.collect_when_not_matched = True
        say(f"[{scan}] cwnm=True lines={p.collect()} match={p.match_count}")
        p = CsvPath()
        p.parse(f'$again.csv[{scan}][no()]')
        p.collect_when_not_matched = True
        say(f"[{scan}] cwnm=True no() lines={p.collect()} match={p.match_count}")


# ----------------------------------------------------------------------
# part C: CsvPaths, with the archive
# ----------------------------------------------------------------------
RT_KEYS = [
    "total_lines", "count_lines", "line_number", "count_matches", "count_scans",
    "valid", "stopped", "lines_collected", "match_part", "return-mode", "unmatched-mode",
]


def show_archive(name):
    home = os.path.join("archive", name)
    if not os.path.exists(home):
        say(f"   no archive for {name}")
        return
    runs = sorted(os.listdir(home))
    for i, run_dir in enumerate(runs):
        base = os.path.join(home, run_dir)
        if not os.path.isdir(base):
            say(f"   [file] {name}/{run_dir}")
            continue
        for root, dirs, fs in os.walk(base):
            dirs.sort()
            for fn in sorted(fs):
                path = os.path.join(root, fn)
                rel = os.path.relpath(path, base)
                label = f"   {name}/run{i}/{rel}"
                if fn in ("data.csv", "unmatched.csv", "printouts.txt", "vars.json"):
                    with open(path, "r", encoding="utf-8") as f:
                        say(f"{label}: {f.read()!r}")
                elif fn == "errors.json":
                    with open(path, "r", encoding="utf-8") as f:
                        errs = json.load(f)
                    slim = [
                        {k: e.get(k) for k in ("line_count", "match_count", "scan_count", "error", "message", "exception_class") if k in e}
                        for e in errs
                    ]
                    say(f"{label}: {len(errs)} {slim}")
                elif fn == "meta.json":
                    with open(path, "r", encoding="utf-8") as f:
                        meta = json.load(f)
                    rt = meta.get("runtime_data", {})
                    say(f"{label}: identity={meta.get('identity')} " + " ".join(f"{k}={rt.get(k)!r}" for k in RT_KEYS))
                elif fn == "manifest.json":
                    with open(path, "r", encoding="utf-8") as f:
                        mani = json.load(f)
                    keep = {k: mani.get(k) for k in ("valid", "completed", "file_count", "files_expected", "all_completed", "all_valid", "error_count", "status", "instance_identity") if k in mani}
                    fps = mani.get("file_fingerprints")
                    if fps:
                        keep["fingerprints"] = {k: v for k, v in sorted(fps.items()) if k in ("data.csv", "unmatched.csv", "vars.json", "printouts.txt")}
                    say(f"{label}: {keep}")
                else:
                    say(f"{label}: (present)")


GROUPS = {
    "all": [
        '~id:every~ $[*][yes() push("seen", line_number())]',
        '~id:from2~ $[2*][yes() push("seen", line_number())]',
    ],
    "ranges": [
        '~id:fwd~ $[1-4][yes() push("seen", line_number())]',
        '~id:back unmatched-mode:keep~ $[4-1][#0 == "r3"]',
        '~id:plus return-mode:no-matches~ $[0+3+6][#0 == "r3" push("seen", line_number())]',
    ],
    "effects": [
        '~id:printer~ $[0-5][yes() print("line $.csvpath.line_number") last.nocontrib() -> print("bye")]',
        '~id:stopper~ $[*][push("seen", line_number()) #0 == "r3" -> stop()]',
        '~id:advancer~ $[*][#0 == "r0" -> advance(2) push("seen", line_number())]',
        '~id:skipper~ $[1*][#0 == "r3" -> skip() push("seen", line_number())]',
        '~id:failer~ $[0+1][#0 == "r1" -> fail() yes()]',
        '~id:nothing~ $[8-9][yes()]',
    ],
    "broken": [
        '~id:ok~ $[0-1][yes()]',
        '~id:badscan~ $[1-3*][yes()]',
    ],
}


def part_c():
    say("=== part C: CsvPaths")
    for d in ("archive", "inputs", "cache", "transfers"):
        shutil.rmtree(d, ignore_errors=True)
    write_file("g.csv", (0, 0, 1, 0, 0, 1, 0, 1), trailing_newline=True)
    methods = [
        ("collect_paths", {}),
        ("fast_forward_paths", {}),
        ("collect_by_line", {}),
        ("collect_by_line", {"if_all_agree": True}),
        ("collect_by_line", {"collect_when_not_matched": True}),
        ("collect_by_line", {"if_all_agree": True, "collect_when_not_matched": True}),
        ("fast_forward_by_line", {}),
        ("next_paths", {}),
        ("next_by_line", {}),
    ]
    n = 0
    for gname, paths in GROUPS.items():
        for meth, kw in methods:
            n += 1
            name = f"{gname}{n}"
            buf = io.StringIO()
            say(f"--- {name}: {meth} {kw}")
            try:
                with contextlib.redirect_stdout(buf):
                    cp = CsvPaths()
                    cp.file_manager.add_named_file(name="g", path="g.csv")
                    cp.paths_manager.add_named_paths(name=name, paths=paths)
                    fn = getattr(cp, meth)
                    ret = fn(filename="g", pathsname=name, **kw)
                    if meth.startswith("next"):
                        ret = [list(x) for x in ret]
                say(f"   returned={ret!r}")
                results = cp.results_manager.get_named_results(name)
                for r in results:
                    c = r.csvpath
                    say(
                        f"   {c.identity}: lines={len(r.lines) if r.lines is not None else None} scan={c.scan_count} "
                        f"match={c.match_count} vars={dict(c.variables)} stopped={c.stopped} valid={c.is_valid} "
                        f"completed={c.completed} adv={c.advance_count} errors={r.errors_count} "
                        f"printouts={r.get_printouts()} unmatched={r.unmatched}"
                    )
            except Exception as e:  # pylint: disable=W0718
                say(f"   EXC {type(e).__name__}: {str(e)[:160]!r}")
            say(f"   stdout={buf.getvalue()!r}")
            show_archive(name)


if __name__ == "__main__":
    part_a()
    part_b()
    part_c()
    say("=== done")
