#!/usr/bin/env python
"""Differential demonstration for property C03 (variables and run counters).

Runs a fixed battery of csvpaths over a fixed set of generated files and a
fixed grid of direct API calls and prints a deterministic transcript of
everything observable: per-line printouts, returned lines, variables (in
insertion order), counters, validity, errors, exceptions and, for the
CsvPaths part, the archive listing and the contents of the written files.

usage:  PYTHONPATH=<tree> /venv/bin/python demo.py  > transcript.txt
The script creates (and removes) its own temporary working directory.
"""
import os
import re
import sys
import json
import shutil
import tempfile

HERE = os.getcwd()
WORK = tempfile.mkdtemp(prefix="demo_TWC03_")
os.chdir(WORK)

CONFIG = """[csvpath_files]
extensions = txt, csvpath, csvpaths
[csv_files]
extensions = txt, csv, tsv, dat, tab, psv, ssv
[errors]
csvpath = collect, fail, print
csvpaths = raise, collect
[logging]
csvpath = info
csvpaths = info
log_file = logs/csvpath.log
log_files_to_keep = 100
log_file_size = 52428800
[config]
path =
[functions]
imports =
[cache]
path =
[results]
archive = archive
transfers = transfers
[inputs]
files = inputs/named_files
csvpaths = inputs/named_paths
on_unmatched_file_fingerprints = halt
"""
os.makedirs("config", exist_ok=True)
with open("config/config.ini", "w", encoding="utf-8") as f:
    f.write(CONFIG)
with open("config/functions.imports", "w", encoding="utf-8") as f:
    f.write("")

from csvpath import CsvPath, CsvPaths  # noqa: E402  pylint: disable=C0413
from csvpath.matching.matcher import Matcher  # noqa: E402
from csvpath.matching.productions.equality import Equality  # noqa: E402
from csvpath.matching.productions.variable import Variable  # noqa: E402
from csvpath.matching.productions.qualified import Qualified  # noqa: E402

# --------------------------------------------------------------------------
# data
# --------------------------------------------------------------------------
FILES = {
    "plain.csv": (
        "id,kind,amount,note\n"
        "1,x,3,first\n"
        "2,y,,second\n"
        "3,x,0,\n"
        "4,z,10,fourth\n"
        "5,x,-2,fifth\n"
        "6,y,10,\n"
        "7,x,7,seventh\n"
        "8,,1,eighth\n"
    ),
    "ragged.csv": (
        "id,kind,amount,note\n"
        "1,x,3\n"
        "\n"
        "2,y\n"
        "3\n"
        "4,x,5,n4,extra,more\n"
        " , ,  ,\n"
        "\n"
        "\n"
        "5,x,0,n5\n"
        "6,,,\n"
        "7,y,2,n7\n"
        "\n"
    ),
    "zeros.csv": (
        "id,kind,amount,note\n"
        "0,0,0,0\n"
        "0,,0,\n"
        "1,0,00,false\n"
        "0,true,0.0,None\n"
        "2,0,-0,true\n"
    ),
    "header_only.csv": "id,kind,amount,note\n",
    "one_line_no_nl.csv": "1,x,3,only",
    "quoted.csv": (
        'id,kind,amount,note\n'
        '1,"x,1",3,"a ""q"" b"\n'
        '2,"",4,""\n'
        '3,"x,1",5," "\n'
    ),
    "blank_tail.csv": "id,kind,amount,note\n1,x,3,a\n2,y,4,b\n\n\n",
}
for name, content in FILES.items():
    with open(name, "w", encoding="utf-8") as f:
        f.write(content)
with open("empty.csv", "w", encoding="utf-8") as f:
    pass

MAIN_FILES = ["plain.csv", "ragged.csv", "zeros.csv"]
EDGE_FILES = ["header_only.csv", "one_line_no_nl.csv", "quoted.csv", "blank_tail.csv"]

# every line reports the run counters and the variables it can see
TRACE = (
    'print("  L$.csvpath.line_number lines=$.csvpath.count_lines '
    'scans=$.csvpath.count_scans matches=$.csvpath.count_matches")'
)


def tr(*names):
    """a print() that shows the named variables on each line"""
    s = " ".join(f"{n}=$.variables.{n}" for n in names)
    return (
        'print("  L$.csvpath.line_number lines=$.csvpath.count_lines '
        f'scans=$.csvpath.count_scans matches=$.csvpath.count_matches | {s}")'
    )


PATHS = [
    # --- plain assignment, same-line dependencies, onmatch ---------------
    ("same-line", "[*]", f'@a = #0 @b = @a @c.onmatch = @b #1 == "x" {tr("a","b","c")}'),
    ("same-line-reversed", "[*]", f'@b = @a @a = #0 @c = @b {tr("a","b","c")}'),
    ("self-ref", "[*]", f'@i = add(@i, 1) @j = add(@i, @j) {tr("i","j")}'),
    ("counters", "[*]", f'@n = count() @ln = line_number() @cl = count_lines() @cs = count_scans() #1 == "x" {tr("n","ln","cl","cs")}'),
    ("counters-before-filter", "[*]", f'#1 == "x" @n = count() @m.onmatch = count_lines() {tr("n","m")}'),
    ("count-onmatch-print", "[*]", 'print.onmatch("  onmatch-print: $.csvpath.count_matches at $.csvpath.line_number") @k.onmatch = count() #1 == "x"'),
    ("has-matches", "[*]", f'@hm = has_matches() @c = count() #2 {tr("hm","c")}'),
    ("named-count", "[*]", f'count.mycount() @v = @mycount #1 == "y" {tr("mycount","v")}'),
    ("tracked-count", "[*]", f'@c = count(#1 == "x") {tr("c")}'),
    ("count-in-when", "[*]", f'#1 == "x" -> @xs = count.xs() {tr("xs")}'),
    # --- tracking values -----------------------------------------------------
    ("tracking", "[*]", f'@t.k = #1 @t.j = #0 @u.first = #3 {tr("t","t.k","t.j","u.first")}'),
    ("tracking-read", "[*]", f'@t.k = #1 @r = @t.k @t.k == "x" {tr("r","t")}'),
    ("tracking-existence", "[*]", f'@e.x = #2 @e.x {tr("e")}'),
    ("tracking-unset-read", "[*]", f'@r = @nope.key @nope.other = #0 {tr("r","nope")}'),
    ("tracking-plain-clash", "[*]", f'@p = #0 @p.k = #1 {tr("p")}'),
    ("tracking-bool-key", "[*]", f'@b = count(#1 == "x") @seen = @xcount.True {tr("b","seen")}'),
    # --- assignment qualifiers -----------------------------------------------
    ("onchange", "[1*]", f'@u.onchange = #1 {tr("u")}'),
    ("onchange-nocontrib", "[1*]", f'@u.onchange.nocontrib = #1 @c = count() {tr("u","c")}'),
    ("latch", "[*]", f'@l.latch = #1 @c = count() {tr("l","c")}'),
    ("latch-tracking", "[*]", f'@l.latch.key = #2 {tr("l")}'),
    ("latch-onchange", "[1*]", f'@l.latch.onchange = #1 {tr("l")}'),
    ("notnone", "[*]", f'@nn.notnone = #2 @c = count() {tr("nn","c")}'),
    ("notnone-nocontrib", "[*]", f'@nn.notnone.nocontrib = #3 {tr("nn")}'),
    ("asbool", "[1*]", f'@ab.asbool = #2 @c = count() {tr("ab","c")}'),
    ("asbool-onmatch", "[1*]", f'@ab.asbool.onmatch = #1 #0 {tr("ab")}'),
    ("increase", "[1*]", f'@up.increase = int(#2) @c = count() {tr("up","c")}'),
    ("increase-nocontrib", "[1*]", f'@up.increase.nocontrib = int(#0) {tr("up")}'),
    ("increase-str", "[1*]", f'@up.increase = #2 {tr("up")}'),
    ("decrease", "[1*]", f'@down.decrease = int(#2) @c = count() {tr("down","c")}'),
    ("decrease-tracking", "[1*]", f'@down.decrease.k = int(#0) {tr("down")}'),
    ("increase-mixed-types", "[1*]", f'@m.increase = #0 @m.increase = int(#2) {tr("m")}'),
    ("onmatch-latch-asbool", "[1*]", f'@q.onmatch.latch.asbool = #1 #2 {tr("q")}'),
    ("all-quals", "[1*]", f'@q.onmatch.onchange.notnone.increase.nocontrib = int(#2) #1 == "x" {tr("q")}'),
    # --- aggregate functions with name qualifiers ---------------------------
    ("tally", "[*]", f'tally(#1) tally.tt(#1, #2) {tr("tally_kind","tt")}'),
    ("tally-onmatch", "[*]", f'tally.om.onmatch(#1) #2 {tr("om_kind")}'),
    ("sum", "[1*]", f'sum.total(#2) sum.om.onmatch(#0) #1 == "x" {tr("total","om")}'),
    ("sum-default", "[1*]", f'sum(#0) {tr("sum")}'),
    ("subtotal", "[1*]", f'subtotal.st(#1, #2) subtotal(#1, #0) {tr("st","subtotal")}'),
    ("counter", "[*]", f'counter.cc() counter.c3(3) @cc == 3 -> counter.threes(5) {tr("cc","c3","threes")}'),
    ("counter-onmatch", "[*]", f'counter.om.onmatch(2) #1 == "x" {tr("om")}'),
    ("every", "[*]", f'@t.onmatch = count() every.ev(#1, 2) {tr("t","ev","ev_every")}'),
    ("first", "[*]", f'first.f(#1) {tr("f")}'),
    ("first-multi", "[*]", f'first.g(#1, #2) @c = count() {tr("g","c")}'),
    ("first-onmatch", "[*]", f'first.h.onmatch(#1) #2 {tr("h")}'),
    ("increment", "[*]", f'@i = increment.inc(#1 == "x", 2) {tr("i","inc","inc_increment")}'),
    ("minmax", "[1*]", f'@mn = min(#0) @mx = max.big(#2) {tr("mn","mx")}'),
    ("average", "[1*]", f'@av = average.avg(#0, "scan") {tr("av")}'),
    # --- stacks -------------------------------------------------------------
    ("push", "[*]", f'push("s", #0) push.distinct("d", #1) push.notnone("nn", #2) {tr("s","d","nn","s.length","s.1")}'),
    ("push-onmatch", "[*]", f'push.onmatch("om", #0) #1 == "x" {tr("om")}'),
    ("pop-peek", "[*]", f'push("s", #0) @sz = peek_size("s") @pk = peek("s", 1) gt(@sz, 3) -> @p = pop("s") {tr("s","sz","pk","p")}'),
    ("stack-fn", "[*]", f'push("s", #1) @st = stack("s") @es = stack("none") {tr("st","es")}'),
    ("put-get", "[*]", f'put("v", #1, #0) @g = get("v", "x") @all = get("v") {tr("v","g","all")}'),
    # --- when/do and the frozen last line -----------------------------------
    ("when-assign", "[*]", f'#1 == "x" -> @lastx = #0 not(#1 == "x") -> @lastother = #0 {tr("lastx","lastother")}'),
    ("last-override", "[*]", f'@c = count_lines() last.nocontrib() -> @final = count_lines() last.nocontrib() -> print("  last! $.variables.c $.variables.final") {tr("c","final")}'),
    ("last-push", "[*]", f'push("s", #0) last.nocontrib() -> push("s", "end") last.nocontrib() -> @copy = stack("s") {tr("s","copy")}'),
    # --- flow control ---------------------------------------------------------
    ("skip", "[*]", f'@before = count_lines() skip(#1 == "y") @after = count_lines() {tr("before","after")}'),
    ("stop", "[*]", f'@c = count() stop(#0 == "4") {tr("c")}'),
    ("advance", "[*]", f'@c = count() #0 == "2" -> advance(2) {tr("c")}'),
    ("fail", "[*]", f'@c = count() #0 == "3" -> fail() {tr("c")}'),
    ("no", "[*]", f'@always = count_lines() @never.onmatch = count_lines() no() {tr("always","never")}'),
    # --- scanning ranges ------------------------------------------------------
    ("range-1-4", "[1-4]", f'@c = count() @s = count_scans() @l = count_lines() {tr("c","s","l")}'),
    ("range-2+5", "[2+5]", f'@c = count() @s = count_scans() @l = line_number() {tr("c","s","l")}'),
    ("range-3*", "[3*]", f'@c = count() @s = count_scans() #1 == "x" {tr("c","s")}'),
    ("range-0", "[0]", f'@c = count() @s = count_scans() {tr("c","s")}'),
    ("range-beyond", "[50*]", f'@c = count() {tr("c")}'),
    ("no-match-part", "[1-3]", ""),
]

MODE_PATHS = [
    ("or-mode", '~ logic-mode: OR ~', "[*]", f'#1 == "x" @z.onmatch = count() #0 == "2" {tr("z")}'),
    ("or-mode-assign", '~ logic-mode: OR ~', "[*]", f'@a.onchange = #1 #0 == "2" @c = count() {tr("a","c")}'),
    ("no-matches-mode", '~ return-mode: no-matches ~', "[*]", f'#1 == "x" @c = count() @m.onmatch = count_lines() {tr("c","m")}'),
    ("no-matches-latch", '~ return-mode: no-matches ~', "[*]", f'@l.latch = #1 @u.onchange = #1 {tr("l","u")}'),
    ("id-and-explain", '~ id: explained explain-mode: explain ~', "[*]", f'@n.onmatch = count() #1 == "x" {tr("n")}'),
]


def show_errors(p):
    errs = p.errors
    if not errs:
        print("  errors: none")
        return
    print(f"  errors: {len(errs)}")
    for e in errs:
        print(
            f"    - {getattr(e, 'exception_class', None)} line={e.line_count} "
            f"scan={e.scan_count} match={e.match_count} :: {e.error}"
        )


def show_state(p):
    print(f"  variables: {p.variables!r}")
    print(f"  variable order: {list(p.variables.keys())!r}")
    print(
        f"  scan_count={p.scan_count} match_count={p.match_count} "
        f"current_scan_count={p.current_scan_count} current_match_count={p.current_match_count}"
    )
    print(
        f"  is_valid={p.is_valid} stopped={p.stopped} frozen={p.is_frozen} "
        f"has_errors={p.has_errors()} physical_line={p.line_monitor.physical_line_number} "
        f"data_line={p.line_monitor.data_line_number}"
    )
    show_errors(p)


def run(label, path, method="collect"):
    print(f"--- {label} [{method}] :: {path}")
    sys.stdout.flush()
    p = CsvPath()
    try:
        p.parse(path)
        if method == "collect":
            lines = p.collect()
            print(f"  returned {len(lines)} lines: {lines!r}")
        elif method == "fast_forward":
            p.fast_forward()
            print("  fast_forward done")
        elif method == "next":
            for i, line in enumerate(p.next()):
                print(
                    f"  next[{i}] {line!r} scan={p.scan_count} match={p.match_count} "
                    f"vars={p.variables!r}"
                )
        elif method == "collect-n":
            lines = p.collect(2)
            print(f"  returned {len(lines)} lines: {lines!r}")
    except Exception as ex:  # pylint: disable=W0718
        print(f"  EXCEPTION {type(ex).__name__}: {ex}")
    try:
        show_state(p)
    except Exception as ex:  # pylint: disable=W0718
        print(f"  STATE EXCEPTION {type(ex).__name__}: {ex}")
    sys.stdout.flush()
    return p


import time  # noqa: E402

_T0 = time.time()


def section(title):
    sys.stderr.write(f"[{time.time() - _T0:7.1f}s] {title}\n")
    print()
    print("=" * 78)
    print(title)
    print("=" * 78)


# --------------------------------------------------------------------------
# 1. end to end, standalone CsvPath
# --------------------------------------------------------------------------
section("1. csvpaths over the main files (collect)")
for fname in MAIN_FILES:
    for label, scan, match in PATHS:
        mp = f"[ {match} ]" if match else ""
        run(f"{fname}:{label}", f"${fname}{scan}{mp}")
    for label, comment, scan, match in MODE_PATHS:
        run(f"{fname}:{label}", f"{comment} ${fname}{scan}[ {match} ]")

section("2. edge files")
EDGE_LABELS = {
    "same-line",
    "counters",
    "tracking",
    "latch",
    "onchange",
    "tally",
    "push",
    "last-override",
    "range-1-4",
    "every",
    "first",
    "sum",
    "counter",
}
for fname in EDGE_FILES + ["empty.csv"]:
    for label, scan, match in PATHS:
        if label in EDGE_LABELS:
            run(f"{fname}:{label}", f"${fname}{scan}[ {match} ]")

section("3. next(), fast_forward() and collect(n)")
for fname in ["plain.csv", "ragged.csv"]:
    for label, scan, match in PATHS:
        if label in ("same-line", "counters", "tally", "pop-peek", "stop", "subtotal"):
            for method in ("next", "fast_forward", "collect-n"):
                run(f"{fname}:{label}", f"${fname}{scan}[ {match} ]", method)

section("4. repeated runs and reuse")
p = CsvPath()
p.parse(f'$plain.csv[*][ @n = count() tally(#1) push("s", #0) #1 == "x" ]')
print("first collect:", p.collect())
show_state(p)
try:
    print("second collect on the same instance:", p.collect())
except Exception as ex:  # pylint: disable=W0718
    print(f"  EXCEPTION {type(ex).__name__}: {ex}")
show_state(p)
for i in range(2):
    q = CsvPath()
    q.parse(f'$plain.csv[*][ @n = count() tally(#1) push("s", #0) #1 == "x" ]')
    q.fast_forward()
    print(f"fresh instance {i}:")
    show_state(q)
# variables handed in before the run
q = CsvPath()
q.variables = {"i": 10, "t": {"k": "preset"}, "s": ["p"], "z": 0, "e": {}}
q.parse(f'$plain.csv[1-3][ @i = add(@i, 1) @t.j = #1 push("s", #0) @z.k = #0 @e.k = #1 {tr("i","t","s","z","e")} ]')
try:
    print("preset variables:", q.collect())
except Exception as ex:  # pylint: disable=W0718
    print(f"  EXCEPTION {type(ex).__name__}: {ex}")
show_state(q)

# --------------------------------------------------------------------------
# 5. direct API: set_variable / get_variable
# --------------------------------------------------------------------------
section("5. direct set_variable / get_variable grid")


def call(desc, fn):
    try:
        r = fn()
        print(f"  {desc} -> {r!r} ({type(r).__name__})")
    except Exception as ex:  # pylint: disable=W0718
        print(f"  {desc} !! {type(ex).__name__}: {ex}")


NAMES = ["a", "", "  ", None, "with space", 0]
TRACKINGS = [None, "k", "", "  ", 0, False, True, 1.5, ("t", 1), ["unhashable"]]
VALUES = [None, 0, "", "v", [], [1, 2], {}, {"k": 1}, False, 3.5]
PRESETS = [
    ("missing", None),
    ("none", lambda: None),
    ("zero", lambda: 0),
    ("empty-str", lambda: ""),
    ("str", lambda: "abc"),
    ("empty-dict", lambda: {}),
    ("dict", lambda: {"k": "kv", 0: "zero", True: "t", "f": 0, "n": None, "l": [1]}),
    ("empty-list", lambda: []),
    ("list", lambda: [1, 2, 3]),
    ("int", lambda: 5),
    ("tuple", lambda: (1, 2)),
]

GRID_PATH = CsvPath()
for frozen in (False, True):
    for pname, preset in PRESETS:
        print(f"-- set_variable frozen={frozen} preset={pname}")
        for name in NAMES:
            for tracking in TRACKINGS:
                for value in (None, 0, "v", [1]):
                    c = GRID_PATH
                    c.variables = {}
                    if preset is not None:
                        c.variables["a"] = preset()
                        c.variables["with space"] = preset()
                    c.variables["other"] = "o"
                    c.is_frozen = frozen
                    try:
                        r = c.set_variable(name, value=value, tracking=tracking)
                        out = f"-> {r!r}"
                    except Exception as ex:  # pylint: disable=W0718
                        out = f"!! {type(ex).__name__}: {ex}"
                    print(
                        f"  set({name!r}, value={value!r}, tracking={tracking!r}) {out} "
                        f"vars={c.variables!r}"
                    )

for frozen in (False, True):
    for pname, preset in PRESETS:
        print(f"-- get_variable frozen={frozen} preset={pname}")
        for name in ["a", "", None, "b"]:
            for tracking in TRACKINGS:
                for sin in (None, 0, "", "d", [], [9], {}, False, True):
                    c = GRID_PATH
                    c.variables = {}
                    if preset is not None:
                        c.variables["a"] = preset()
                    c.variables["other"] = "o"
                    c.is_frozen = frozen
                    try:
                        r = c.get_variable(name, tracking=tracking, set_if_none=sin)
                        out = f"-> {r!r} ({type(r).__name__})"
                        same = ""
                        if isinstance(r, (list, dict)):
                            if tracking is None:
                                same = f" same-object={r is c.variables.get(name)}"
                            elif isinstance(c.variables.get(name), dict):
                                try:
                                    same = f" same-object={r is c.variables[name].get(tracking)}"
                                except TypeError:
                                    same = ""
                            if r is sin:
                                same += " is-set_if_none"
                        out += same
                    except Exception as ex:  # pylint: disable=W0718
                        out = f"!! {type(ex).__name__}: {ex}"
                    print(
                        f"  get({name!r}, tracking={tracking!r}, set_if_none={sin!r}) {out} "
                        f"vars={c.variables!r}"
                    )

print("-- sequences on one instance")
c = CsvPath()
for step in [
    ("set", "x", 1, None),
    ("set", "x", 2, "k"),
    ("get", "x", None, None),
    ("get", "x", "k", None),
    ("set", "d", "v1", "k1"),
    ("set", "d", "v2", "k2"),
    ("set", "d", "v3", "k1"),
    ("get", "d", "k2", "dflt"),
    ("get", "d", "k3", "dflt"),
    ("get", "d", "k4", 0),
    ("get", "d", "k4", 7),
    ("get", "e", "k", None),
    ("get", "e", "k", 0),
    ("get", "e", "k", 1),
    ("get", "e", "k", 2),
    ("get", "cnt", None, 0),
    ("get", "cnt", None, 5),
    ("set", "cnt", 0, None),
    ("get", "cnt", None, 5),
    ("get", "stk", None, []),
    ("get", "stk", None, ["other"]),
    ("freeze",),
    ("get", "stk", None, None),
    ("get", "d", "k1", "frozen-default"),
    ("get", "new", "k", "frozen-default"),
    ("get", "new2", None, "frozen-default"),
    ("set", "x", 99, None),
    ("set", "d", 99, "k1"),
    ("unfreeze",),
    ("set", "x", 99, None),
    ("get", "new2", None, "thawed-default"),
]:
    if step[0] == "freeze":
        c.is_frozen = True
        print("  (frozen)")
    elif step[0] == "unfreeze":
        c.is_frozen = False
        print("  (unfrozen)")
    elif step[0] == "set":
        call(
            f"set({step[1]!r}, value={step[2]!r}, tracking={step[3]!r})",
            lambda: c.set_variable(step[1], value=step[2], tracking=step[3]),
        )
    else:
        call(
            f"get({step[1]!r}, tracking={step[2]!r}, set_if_none={step[3]!r})",
            lambda: c.get_variable(step[1], tracking=step[2], set_if_none=step[3]),
        )
    print(f"      vars={c.variables!r}")
stk = c.variables.get("stk")
r = c.get_variable("stk")
print(f"  unfrozen list is the stored object: {r is stk}")
c.is_frozen = True
r = c.get_variable("stk")
print(f"  frozen list is a tuple copy: {r!r} {type(r).__name__} stored still list: {type(c.variables['stk']).__name__}")

# --------------------------------------------------------------------------
# 6. direct API: Equality assignment internals
# --------------------------------------------------------------------------
section("6. direct Equality assignment grid")

QUALS = ["onchange", "latch", "onmatch", "asbool", "nocontrib", "notnone", "increase", "decrease"]
PAIRS = [
    (None, None),
    (None, "y"),
    ("x", "y"),
    ("x", "x"),
    ("x", None),
    (None, 0),
    (0, 0),
    (0, 1),
    (1, 0),
    (5, 3),
    (3, 5),
    (3, 3),
    ("", ""),
    ("", "a"),
    ("b", "a"),
    ("a", "b"),
    (None, "false"),
    ("x", "true"),
    (None, []),
    ([1], [1]),
    ([1], [2]),
    (3, "5"),
    ("5", 3),
    (2.5, 2),
    (False, True),
]


_EQS = {}


def new_equality(AND=True):
    """one (path, matcher, equality) per logic mode, state reset on every use"""
    if AND not in _EQS:
        path = CsvPath()
        matcher = Matcher(csvpath=path, data="[yes()]")
        matcher.AND = AND
        eq = Equality(matcher=matcher)
        eq.matcher = matcher
        _EQS[AND] = (path, matcher, eq)
    path, matcher, eq = _EQS[AND]
    path.variables = {}
    path.is_frozen = False
    matcher._explain = []
    return path, matcher, eq


import itertools  # noqa: E402

for AND in (True, False):
    for tracking in (None, "trk"):
        for line_matches in (True, False):
            for nq in range(0, len(QUALS) + 1):
                combos = list(itertools.combinations(QUALS, nq))
                if nq > 2:
                    # keep the grid bounded but deterministic: every 3rd combination
                    combos = combos[::3]
                for combo in combos:
                    for cur, new in PAIRS:
                        path, matcher, eq = new_equality(AND)
                        if cur is not None:
                            path.set_variable("a", value=cur, tracking=tracking)
                        args = {q: (q in combo) for q in QUALS}
                        args.update(
                            {
                                "noqualifiers": nq > 0,
                                "count": False,
                                "current_value": cur,
                                "new_value": new,
                                "line_matches": line_matches,
                            }
                        )
                        try:
                            ret = eq._do_assignment_new_impl(
                                name="a", tracking=tracking, args=args
                            )
                            out = f"-> {ret!r}"
                        except Exception as ex:  # pylint: disable=W0718
                            out = f"!! {type(ex).__name__}: {ex}"
                        expl = [
                            f"{w._action}:{w._result}:{w._because}"
                            for w in matcher._explain
                        ]
                        print(
                            f"  AND={AND} trk={tracking} lm={line_matches} "
                            f"quals={'.'.join(combo) or '-'} cur={cur!r} new={new!r} {out} "
                            f"vars={path.variables!r} explain={expl}"
                        )

print("-- missing keys in args")
for missing in QUALS + ["noqualifiers", "new_value", "current_value", "line_matches", "count"]:
    path, matcher, eq = new_equality()
    args = {q: False for q in QUALS}
    args.update({"noqualifiers": True, "count": False, "current_value": None, "new_value": 1, "line_matches": True})
    del args[missing]
    try:
        ret = eq._do_assignment_new_impl(name="a", tracking=None, args=args)
        out = f"-> {ret!r}"
    except Exception as ex:  # pylint: disable=W0718
        out = f"!! {type(ex).__name__}: {ex}"
    print(f"  without {missing}: {out} vars={path.variables!r}")
for missing in ["a", "b"]:
    path, matcher, eq = new_equality()
    args = {}
    try:
        ret = eq._do_assignment_new_impl(name="a", tracking=None, args=args)
        out = f"-> {ret!r}"
    except Exception as ex:  # pylint: disable=W0718
        out = f"!! {type(ex).__name__}: {ex}"
    print(f"  empty args: {out}")

print("-- _set_variable_if and _latch_and_onchange directly")
for AND in (True, False):
    for ret0 in (True, False):
        for notnone, increase, decrease in itertools.product((False, True), repeat=3):
            for cur, new in PAIRS:
                path, matcher, eq = new_equality(AND)
                try:
                    r = eq._set_variable_if(
                        ret0,
                        "n",
                        current_value=cur,
                        value=new,
                        tracking=None,
                        notnone=notnone,
                        increase=increase,
                        decrease=decrease,
                    )
                    out = f"-> {r!r}"
                except Exception as ex:  # pylint: disable=W0718
                    out = f"!! {type(ex).__name__}: {ex}"
                expl = [f"{w._action}:{w._result}:{w._because}" for w in matcher._explain]
                print(
                    f"  set_if AND={AND} ret={ret0} nn={notnone} inc={increase} dec={decrease} "
                    f"cur={cur!r} new={new!r} {out} vars={path.variables!r} explain={expl}"
                )
        for latch, onchange in itertools.product((False, True), repeat=2):
            for cur, new in PAIRS:
                path, matcher, eq = new_equality(AND)
                try:
                    r = eq._latch_and_onchange(
                        ret=ret0,
                        current_value=cur,
                        new_value=new,
                        name="n",
                        tracking="t",
                        latch=latch,
                        onchange=onchange,
                        notnone=False,
                        increase=False,
                        decrease=False,
                    )
                    out = f"-> {r!r}"
                except Exception as ex:  # pylint: disable=W0718
                    out = f"!! {type(ex).__name__}: {ex}"
                expl = [f"{w._action}:{w._result}:{w._because}" for w in matcher._explain]
                print(
                    f"  latch_onchange AND={AND} ret={ret0} latch={latch} onchange={onchange} "
                    f"cur={cur!r} new={new!r} {out} vars={path.variables!r} explain={expl}"
                )

# --------------------------------------------------------------------------
# 7. direct API: qualifiers helpers and match counting
# --------------------------------------------------------------------------
section("7. qualifier helpers, raise_match_count_if, line_matches")
path = CsvPath()
matcher = Matcher(csvpath=path, data="[yes()]")
QNAMES = [
    "v",
    "v.onmatch",
    "v.k",
    "v.k.onmatch",
    "v.onmatch.k",
    "v.latch.onchange",
    "v.k1.k2",
    "v.onmatch.k1.asbool.k2",
    "v.k1.k1.k2",
    "v.distinct",
    "v.once.notnone.increase.decrease.nocontrib",
    "v.ONMATCH",
    "v..k",
    "v.k.",
]
for qn in QNAMES:
    try:
        v = Variable(matcher, name=qn)
        print(
            f"  {qn!r}: name={v.name!r} qualifiers={v.qualifiers!r} "
            f"known={v.has_known_qualifiers()!r} first={v.first_non_term_qualifier()!r} "
            f"first(default)={v.first_non_term_qualifier('dflt')!r} "
            f"second={v.second_non_term_qualifier()!r} second(default)={v.second_non_term_qualifier('dflt')!r} "
            f"onmatch={v.onmatch} onchange={v.onchange} latch={v.latch} asbool={v.asbool} "
            f"nocontrib={v.nocontrib} notnone={v.notnone} increase={v.increase} decrease={v.decrease} "
            f"once={v.once} distinct={v.distinct}"
        )
        v.onmatch = True
        v.latch = False
        v.add_qualifier("extra")
        print(
            f"      after toggles: qualifiers={v.qualifiers!r} known={v.has_known_qualifiers()!r} "
            f"first={v.first_non_term_qualifier()!r} second={v.second_non_term_qualifier()!r}"
        )
        v.qualifiers = []
        print(
            f"      emptied: known={v.has_known_qualifiers()!r} first={v.first_non_term_qualifier()!r} "
            f"first(default)={v.first_non_term_qualifier(0)!r} second={v.second_non_term_qualifier(0)!r}"
        )
    except Exception as ex:  # pylint: disable=W0718
        print(f"  {qn!r}: !! {type(ex).__name__}: {ex}")

print("-- raise_match_count_if")
c = CsvPath()
for cur, mc in [(0, 0), (0, 1), (3, 3), (3, 4), (4, 3), (None, 0), (-1, -1)]:
    c._current_match_count = cur
    c.match_count = mc
    r = c.raise_match_count_if()
    print(f"  current={cur!r} match_count={mc!r} -> returned {r!r} match_count={c.match_count!r} current={c._current_match_count!r}")
    r = c.raise_match_count_if()
    print(f"      again -> returned {r!r} match_count={c.match_count!r}")

print("-- line_matches / do_onmatch through parsed paths")
for AND in (True, False):
    for match in [
        '@a.onmatch = #0 #1 == "x"',
        '#1 == "x" @a.onmatch = #0',
        '@a.onmatch = #0 @b.onmatch = #1 #1 == "x"',
        '@a.onmatch = #0 #1 == "x" #2 == "3"',
        'count.c.onmatch() #1 == "x"',
        'print.onmatch("  p $.csvpath.count_matches") @m.onmatch = count() #1 == "x" print.onmatch("  q $.csvpath.count_matches")',
        'or(#1 == "x", #1 == "y") @o.onmatch = count()',
    ]:
        for line in [["1", "x", "3"], ["2", "y", ""], [], ["3"]]:
            cp = CsvPath()
            cp.parse(f"$plain.csv[*][ {match} ]")
            cp.AND = AND
            cp.headers = ["id", "kind", "amount"]
            try:
                cp.line_monitor.next_line(last_line=None, data=line)
                cp.scan_count = 1
                cp._current_match_count = cp.match_count
                m = cp.matches(line)
                out = f"-> {m!r}"
            except Exception as ex:  # pylint: disable=W0718
                out = f"!! {type(ex).__name__}: {ex}"
            exprs = [e[1] for e in cp.matcher.expressions] if cp.matcher else None
            print(
                f"  AND={AND} [{match}] line={line!r} {out} match_count={cp.match_count} "
                f"exprs={exprs!r} vars={cp.variables!r}"
            )
            show_errors(cp)

# --------------------------------------------------------------------------
# 8. CsvPaths: named paths, results and the archive
# --------------------------------------------------------------------------
section("8. CsvPaths runs and the archive")

STAMP = re.compile(r"\d{4}-\d{2}-\d{2}_\d{2}-\d{2}-\d{2}(\.\d+)?")


def norm(s):
    return STAMP.sub("<RUN>", s)


def run_dir_key(name):
    """run dirs made in the same second get a .0, .1, ... suffix after the first;
    order them chronologically"""
    m = re.fullmatch(r"(\d{4}-\d{2}-\d{2}_\d{2}-\d{2}-\d{2})(?:\.(\d+))?", name)
    if m:
        return (m.group(1), -1 if m.group(2) is None else int(m.group(2)), "")
    return ("", 0, name)


def list_archive(root="archive"):
    seen = {}
    for dirpath, dirnames, filenames in os.walk(root):
        dirnames.sort(key=run_dir_key)
        for fn in sorted(filenames):
            full = os.path.join(dirpath, fn)
            print("  file:", norm(full))
            if fn in ("vars.json", "data.csv", "unmatched.csv", "printouts.txt"):
                with open(full, "r", encoding="utf-8") as fh:
                    body = fh.read()
                print("    | " + norm(body).replace("\n", "\n    | "))
    return seen


GROUP = [
    f'~ id: one ~ $[*][ @n = count() tally(#1) push("s", #0) #1 == "x" {tr("n")} ]',
    f'~ id: two ~ $[1*][ @t.k = #1 @up.increase = int(#0) sum.total(#2) subtotal.st(#1, #2) {tr("t","up","total")} ]',
    f'~ id: three return-mode: no-matches ~ $[*][ @l.latch = #1 @c.onmatch = count() every.ev(#1, 2) first.f(#1) #2 {tr("l","c")} ]',
    f'~ id: four ~ $[2-5][ counter.cc(2) @cs = count_scans() @cl = count_lines() @ln = line_number() last.nocontrib() -> @done = "yes" {tr("cc","cs","cl","ln")} ]',
]
try:
    cps = CsvPaths()
    for fname in MAIN_FILES + ["blank_tail.csv"]:
        cps.file_manager.add_named_file(name=fname.split(".")[0], path=fname)
    cps.paths_manager.add_named_paths(name="grp", paths=GROUP)
    for method in ("collect_paths", "fast_forward_paths", "collect_by_line", "fast_forward_by_line"):
        for fname in MAIN_FILES + ["blank_tail.csv"]:
            nf = fname.split(".")[0]
            print(f"--- CsvPaths.{method} file={nf}")
            sys.stdout.flush()
            try:
                r = getattr(cps, method)(filename=nf, pathsname="grp")
                if method == "collect_by_line":
                    print(f"  returned: {r!r}")
            except Exception as ex:  # pylint: disable=W0718
                print(f"  EXCEPTION {type(ex).__name__}: {ex}")
            results = cps.results_manager.get_named_results("grp")
            for res in results:
                pth = res.csvpath
                print(f"  result {pth.identity}: lines={len(res.lines) if res.lines is not None else None} valid={pth.is_valid}")
                print(f"    variables={pth.variables!r}")
                print(f"    scan={pth.scan_count} match={pth.match_count} stopped={pth.stopped}")
                print(f"    printouts={res.printouts!r}")
                print(f"    errors={[str(e.error) for e in (res.errors or [])]!r}")
            sys.stdout.flush()
    print("--- archive")
    list_archive()
except Exception as ex:  # pylint: disable=W0718
    print(f"CSVPATHS SECTION EXCEPTION {type(ex).__name__}: {ex}")

os.chdir(HERE)
shutil.rmtree(WORK, ignore_errors=True)
print()
print("done")
