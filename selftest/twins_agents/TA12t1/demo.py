#!/usr/bin/env python
"""Differential demonstration for property C12 (named-paths groups round-trip
and select by identity).

Run in an empty scratch directory:

    mkdir /tmp/demo_x && cd /tmp/demo_x && PYTHONPATH=<csvpath tree> python demo.py > out.txt

The script is self-contained: it writes ./config/config.ini (offline, no
OpenLineage listeners), wipes ./inputs ./archive ./logs ./cache ./work and
prints a deterministic transcript of everything observable.
"""
import os
import re
import sys
import json
import shutil
import random
import traceback

CONFIG = """[csvpath_files]
extensions = txt, csvpath, csvpaths

[csv_files]
extensions = txt, csv, tsv, dat, tab, psv, ssv

[errors]
csvpath = raise, collect, stop, fail, print
csvpaths = raise, collect

[logging]
csvpath = info
csvpaths = info
log_file = logs/csvpath.log
log_files_to_keep = 100
log_file_size = 52428800

[config]
path = config/config.ini

[cache]
path = cache

[listeners]
[marquez]
base_url = http://localhost:5000

[functions]
imports = config/functions.imports

[results]
archive = archive
transfers = transfers

[inputs]
files = inputs/named_files
csvpaths = inputs/named_paths
on_unmatched_file_fingerprints = halt
"""

for d in ["inputs", "archive", "logs", "cache", "work", "transfers", "config"]:
    if os.path.exists(d):
        shutil.rmtree(d)
os.makedirs("config")
with open("config/config.ini", "w", encoding="utf-8") as f:
    f.write(CONFIG)
with open("config/functions.imports", "w", encoding="utf-8") as f:
    f.write("")
os.makedirs("work")

from csvpath import CsvPath, CsvPaths  # noqa: E402
from csvpath.managers.paths.paths_manager import PathsManager  # noqa: E402
from csvpath.managers.paths.paths_registrar import PathsRegistrar  # noqa: E402
from csvpath.managers.paths.paths_metadata import PathsMetadata  # noqa: E402
from csvpath.util.metadata_parser import MetadataParser  # noqa: E402
from csvpath.util.reference_parser import ReferenceParser  # noqa: E402

TS = re.compile(r"\d{4}-\d{2}-\d{2}[T_ ]\d{2}[-:]\d{2}[-:]\d{2}(\.\d+)?(\+00:00)?(_\d+)?")
UUID = re.compile(
    r"[0-9a-f]{8}-[0-9a-f]{4}-[0-9a-f]{4}-[0-9a-f]{4}-[0-9a-f]{12}", re.IGNORECASE
)
CWD = os.getcwd()


def norm(s: str) -> str:
    s = s.replace(CWD, "<CWD>")
    s = TS.sub("<TIME>", s)
    s = UUID.sub("<UUID>", s)
    return s


def out(*args):
    print(norm(" ".join(str(a) for a in args)))


def section(title):
    out("")
    out("=" * 8, title, "=" * 8)


def attempt(label, fn):
    """run fn, print its result or the exception it raised"""
    try:
        r = fn()
        out(f"{label} -> {r!r}")
        return r
    except BaseException as ex:  # pylint: disable=W0718
        out(f"{label} !! {type(ex).__name__}: {ex}")
        return None


def dump_json(o, *, drop=()):
    def clean(x):
        if isinstance(x, dict):
            return {k: clean(v) for k, v in x.items() if k not in drop}
        if isinstance(x, list):
            return [clean(v) for v in x]
        return x

    out(json.dumps(clean(o), indent=1))


def show_group(cp, name):
    """prints group file, manifest and directory listing for a named-paths group"""
    home = os.path.join(cp.config.inputs_csvpaths_path, name)
    if not os.path.exists(home):
        out(f"[group {name}] no home dir")
        return
    out(f"[group {name}] files: {sorted(os.listdir(home))}")
    g = os.path.join(home, "group.csvpaths")
    if os.path.exists(g):
        with open(g, "r", encoding="utf-8") as file:
            out(f"[group {name}] group.csvpaths: {file.read()!r}")
    m = os.path.join(home, "manifest.json")
    if os.path.exists(m):
        with open(m, "r", encoding="utf-8") as file:
            raw = file.read()
        j = json.loads(raw)
        out(f"[group {name}] manifest entries: {len(j)}")
        for i, e in enumerate(j):
            out(f"[group {name}] manifest[{i}] keys: {list(e.keys())}")
            out(f"[group {name}] manifest[{i}]:")
            dump_json(e)


def show_tree(root):
    if not os.path.exists(root):
        out(f"[tree {root}] missing")
        return
    lines = []
    for base, dirs, files in os.walk(root):
        dirs.sort()
        for fn in sorted(files):
            p = os.path.join(base, fn)
            lines.append(norm(p) + f" ({'empty' if os.path.getsize(p) == 0 else 'non-empty'})")
    for line in sorted(lines):
        out(f"[tree] {line}")


def selections(cp, name, idents):
    pm = cp.paths_manager
    attempt(f"get_named_paths({name!r})", lambda: pm.get_named_paths(name))
    for ident in idents:
        for form in [
            f"{name}#{ident}",
            f"${name}.csvpaths.{ident}",
            f"{name}#{ident}:from",
            f"{name}#{ident}:to",
            f"${name}.csvpaths.{ident}:from",
            f"${name}.csvpaths.{ident}:to",
        ]:
            attempt(f"get_named_paths({form!r})", lambda form=form: pm.get_named_paths(form))


# ----------------------------------------------------------------------------
# the csvpaths we use
# ----------------------------------------------------------------------------
P_PLAIN = "$[*][yes()]"
P_ID = '~id:two~ $[*][#a=="3"]'
P_NAME = "~ name: three description: has a name ~ $[1*][ #b ]"
P_ID_AND_NAME = "~ name: nm id: both ~ $[*][ no() ]"
P_CAP_ID = "~ Id: capid ~ $[*][yes()]"
P_UP_ID = "~ ID: UPID ~ $[*][yes()]"
P_CAP_NAME = "~ Name: capname ~ $[*][yes()]"
P_UP_NAME = "~ NAME: UPNAME ~ $[*][yes()]"
P_ALL_KEYS = "~ NAME: n3 Name: n2 name: n1 ID: i3 Id: i2 id: i1 ~ $[*][yes()]"
P_EMPTY_ID = "~ id: ~ $[*][yes()]"
P_BLANK_ID_THEN_NAME = "~ id: name: fallback ~ $[*][yes()]"
P_INNER = """~ id: inner
   description: has inner comments and newlines ~
$[*][
    ~ an inner comment ~
    @x = count()

    ~ another: one ~
    #a == "1" -> print("a is $.headers.a")
]"""
P_TRAILING = "\n\n  ~ id: padded ~   $[*][ yes() ]  \n\n"
P_COMMENT_AFTER = "$[*][yes()] ~ id: after ~"
P_MULTILINE_NOID = "$[*][\n  yes()\n\n  no()\n]"
P_DASH_ID = "~ id: my-first_path2 ~ $[*][yes()]"
P_SPACE_ID = "~ id: two words ~ $[*][yes()]"
P_COLON_IN = '~ id: c1 ~ $[*][ print("x:from y") ]'
P_FILE = '~ id: withfile ~ $file.csv[*][ #a == "3" ]'

GROUPS = {
    "single": [P_PLAIN],
    "pair": [P_PLAIN, P_ID],
    "ids": [P_ID, P_NAME, P_ID_AND_NAME, P_CAP_ID, P_UP_ID],
    "names": [P_CAP_NAME, P_UP_NAME, P_ALL_KEYS],
    "mixed": [P_INNER, P_PLAIN, P_TRAILING, P_COMMENT_AFTER, P_MULTILINE_NOID],
    "empties": [P_EMPTY_ID, P_BLANK_ID_THEN_NAME, P_PLAIN],
    "dups": [P_ID, P_PLAIN, P_ID, P_NAME, P_NAME],
    "odd": [P_DASH_ID, P_SPACE_ID, P_COLON_IN, P_FILE],
    "numeric": ["~ id: 0 ~ $[*][yes()]", "~ id: 1 ~ $[*][no()]", P_PLAIN, P_PLAIN],
}
IDENTS = {
    "single": ["0", "", "nope"],
    "pair": ["two", "0", "1", "Two"],
    "ids": ["two", "three", "both", "nm", "capid", "UPID", "missing"],
    "names": ["capname", "UPNAME", "i1", "i2", "n1"],
    "mixed": ["inner", "padded", "after", "1", ""],
    "empties": ["", "fallback", "0", "None"],
    "dups": ["two", "three"],
    "odd": ["my-first_path2", "two words", "two", "c1", "withfile"],
    "numeric": ["0", "1", "2", "3"],
}


def gen_csvpath(rnd, n):
    """a generated csvpath with optional id/name metadata, inner comments and newlines"""
    keys = ["id", "Id", "ID", "name", "Name", "NAME"]
    meta = []
    for k in rnd.sample(keys, rnd.choice([0, 0, 1, 1, 1, 2, 3])):
        v = rnd.choice([f"p{n}", f"p{n}", f"{k}-{n}", "shared", "", f"two words{n}", "0"])
        meta.append(f"{k}: {v}")
    if rnd.random() < 0.3:
        meta.append("description: a generated path")
    nl = rnd.choice([" ", "\n", "\n\n  ", " \n"])
    outer = ""
    if meta:
        outer = "~" + nl + nl.join(meta) + nl + "~" + rnd.choice(["", " ", "\n", "\n\n"])
    inner = rnd.choice(["", "~ inner comment ~ ", "~ note: inner ~\n   "])
    body = rnd.choice(
        ["yes()", 'count() == 2', '#0 == "a"', "@c = count_lines()", '#b\n\n    no()', 'print("$.csvpath.line_number")']
    )
    scan = rnd.choice(["*", "1*", "0-3", "2"])
    pad_l = rnd.choice(["", " ", "\n", "\n\n "])
    pad_r = rnd.choice(["", " ", "\n", " \n\n"])
    return f"{pad_l}{outer}$[{scan}][{nl}{inner}{body}{nl}]{pad_r}"


def generated_groups(cp):
    import hashlib

    rnd = random.Random(1212)
    pm = cp.paths_manager
    for g in range(40):
        name = f"gen{g % 2}"
        k = rnd.randint(1, 5)
        paths = [gen_csvpath(rnd, i) for i in range(k)]
        if g % 7 == 3:
            pm.remove_named_paths(name)
        out("")
        out(f"--- generated {g}: {name} with {k} paths")
        for p in paths:
            out(f"  in: {p!r}")
        attempt("  add", lambda: pm.add_named_paths(name=name, paths=paths))
        if g % 5 == 4:
            attempt("  identical re-add", lambda: pm.add_named_paths(name=name, paths=list(paths)))
        if g % 6 == 5:
            cp = CsvPaths()
            pm = cp.paths_manager
        got = attempt("  get", lambda: pm.get_named_paths(name))
        out("  round trip:", got is not None and [x.strip() for x in got] == [p.strip() for p in paths])
        idps = pm.get_identified_paths_in(name)
        out("  identities:", [i for i, _ in idps])
        for ident in sorted({i for i, _ in idps if i and ":" not in i and "#" not in i}):
            first = [n for n, t in enumerate(idps) if t[0] == ident][0]
            one = attempt(f"  {name}#{ident}", lambda: pm.get_named_paths(f"{name}#{ident}"))
            ref = attempt(f"  ${name}.csvpaths.{ident}", lambda: pm.get_named_paths(f"${name}.csvpaths.{ident}"))
            frm = attempt(f"  {name}#{ident}:from", lambda: pm.get_named_paths(f"{name}#{ident}:from"))
            to = attempt(f"  ${name}.csvpaths.{ident}:to", lambda: pm.get_named_paths(f"${name}.csvpaths.{ident}:to"))
            out(
                "  checks:",
                one == [idps[first][1]],
                ref == one,
                frm == [t[1] for t in idps[first:]],
                to == [t[1] for t in idps[: first + 1]],
            )
        home = os.path.join("inputs", "named_paths", name)
        with open(os.path.join(home, "group.csvpaths"), "rb") as file:
            sha = hashlib.sha256(file.read()).hexdigest()
        with open(os.path.join(home, "manifest.json"), "r", encoding="utf-8") as file:
            mani = json.load(file)
        out("  group file sha256:", sha)
        out("  manifest fingerprints:", [m["fingerprint"] for m in mani])
        out("  manifest last identities:", mani[-1]["named_paths_identities"], "count:", mani[-1]["named_paths_count"])
        out("  manifest last fingerprint is file sha:", mani[-1]["fingerprint"] == sha)


def main():
    # ------------------------------------------------------------------------
    section("1. add / get / select for every group")
    cp = CsvPaths()
    pm = cp.paths_manager
    for name, paths in GROUPS.items():
        out("")
        out(f"--- group {name} ({len(paths)} paths)")
        before = list(paths)
        attempt(f"add_named_paths({name!r})", lambda: pm.add_named_paths(name=name, paths=paths))
        out("input list unchanged:", before == paths)
        got = pm.get_named_paths(name)
        out("round trip (strip-equal, same order):", [g.strip() for g in got] == [p.strip() for p in paths])
        attempt("has_named_paths", lambda: pm.has_named_paths(name))
        attempt("number_of_named_paths", lambda: pm.number_of_named_paths(name))
        attempt("get_identified_paths_in", lambda: pm.get_identified_paths_in(name))
        selections(cp, name, IDENTS[name])
        show_group(cp, name)
    attempt("named_paths_names (sorted)", lambda: sorted(pm.named_paths_names))
    attempt("total_named_paths", lambda: pm.total_named_paths())

    # ------------------------------------------------------------------------
    section("2. error and edge cases for get_named_paths")
    for ref in [
        "nosuch",
        "nosuch#x",
        "nosuch#x:from",
        "nosuch#x:to",
        "$nosuch.csvpaths.x",
        "$nosuch.csvpaths.x:to",
        "pair#two:upto",
        "pair#two:",
        "pair#two:from:to",
        "pair#:from",
        "pair#:to",
        "pair#",
        "#two",
        "pair#two#x",
        "$pair.variables.two",
        "$pair.results.two",
        "$pair.bogus.two",
        "$pair.csvpaths.two.x",
        "$pair.csvpaths.two#x",
        "$pair#z.csvpaths.two",
        "$.csvpaths.two",
        "$pair.csvpaths.",
        "$pair.csvpaths",
        "$pair",
        "$",
        "",
        "pair:from",
        "ids#both:from",
        "ids#nm:to",
        "ids#UPID:from",
        "ids#two:to",
        "dups#two:from",
        "dups#two:to",
        "dups#three:from",
        "dups#three:to",
    ]:
        attempt(f"get_named_paths({ref!r})", lambda ref=ref: pm.get_named_paths(ref))
    attempt("get_named_paths(None)", lambda: pm.get_named_paths(None))
    attempt("get_named_paths(5)", lambda: pm.get_named_paths(5))

    # ------------------------------------------------------------------------
    section("3. private helpers, called directly")
    for n in ["a#b", "#b", "a#", "a", "a#b#c", "", "a#b:from", "##"]:
        attempt(f"_paths_name_path({n!r})", lambda n=n: pm._paths_name_path(n))
    for lst in [[], ["x"], ["x", "y"], ["", ""], [" a \n", "\nb"], [1, None, 2.5], ("t", "u")]:
        attempt(f"_str_from_list({lst!r})", lambda lst=lst: pm._str_from_list(lst))
    attempt("_str_from_list(None)", lambda: pm._str_from_list(None))
    attempt("_group_file_path('pair')", lambda: pm._group_file_path("pair"))
    for npn, ident in [
        ("ids", "two"),
        ("ids", "UPID"),
        ("ids", "zzz"),
        ("ids", None),
        ("ids", ""),
        ("single", ""),
        ("single", "0"),
        ("empties", None),
        ("empties", ""),
        ("nosuch", "a"),
        (None, "a"),
    ]:
        attempt(f"_get_to({npn!r}, {ident!r})", lambda: pm._get_to(npn, ident))
        attempt(f"_get_from({npn!r}, {ident!r})", lambda: pm._get_from(npn, ident))
        attempt(f"_find_one({npn!r}, {ident!r})", lambda: pm._find_one(npn, ident))
    attempt("_get_named_paths('nosuch')", lambda: pm._get_named_paths("nosuch"))
    attempt("_get_named_paths('pair')", lambda: pm._get_named_paths("pair"))
    attempt(
        "get_identified_paths_in('x', paths=[...])",
        lambda: pm.get_identified_paths_in("x", paths=[P_ID, P_PLAIN, P_EMPTY_ID]),
    )
    attempt("get_identified_paths_in('x', paths=[])", lambda: pm.get_identified_paths_in("x", paths=[]))
    attempt("get_identified_paths_in('nosuch')", lambda: pm.get_identified_paths_in("nosuch"))
    attempt(
        "get_identified_paths_in bad path",
        lambda: pm.get_identified_paths_in("x", paths=[P_ID, "no root here"]),
    )
    attempt(
        "get_identified_paths_in blank path",
        lambda: pm.get_identified_paths_in("x", paths=["   "]),
    )
    for n in ["a.csvpaths", "a", "a.b.c", ".x", ""]:
        attempt(f"_name_from_name_part({n!r})", lambda n=n: pm._name_from_name_part(n))

    # ------------------------------------------------------------------------
    section("4. CsvPath.identity and MetadataParser")
    for md in [
        None,
        {},
        {"x": "y"},
        {"id": "a"},
        {"Id": "b"},
        {"ID": "c"},
        {"name": "d"},
        {"Name": "e"},
        {"NAME": "f"},
        {"NAME": "f", "Name": "e"},
        {"NAME": "f", "Name": "e", "name": "d"},
        {"NAME": "f", "Name": "e", "name": "d", "ID": "c"},
        {"NAME": "f", "Name": "e", "name": "d", "ID": "c", "Id": "b"},
        {"NAME": "f", "Name": "e", "name": "d", "ID": "c", "Id": "b", "id": "a"},
        {"id": None, "name": "d"},
        {"id": "", "name": "d"},
        {"id": 0, "name": "d"},
        {"Id": None},
        {"iD": "no", "nAME": "no"},
        ["id"],
        ["x"],
        "name",
        0,
    ]:
        c = CsvPath()
        c.metadata = md
        attempt(f"identity with metadata={md!r}", lambda c=c: c.identity)
    for p in [
        P_PLAIN,
        P_ID,
        P_NAME,
        P_ID_AND_NAME,
        P_ALL_KEYS,
        P_EMPTY_ID,
        P_BLANK_ID_THEN_NAME,
        P_INNER,
        P_TRAILING,
        P_COMMENT_AFTER,
        P_SPACE_ID,
        P_COLON_IN,
        "~ just a comment ~ $[*][yes()]",
        "~~ $[*][yes()]",
        "~ : ~ $[*][yes()]",
        "~ id:x ~ ~ id:y ~ $[*][yes()]",
        "",
        "   ",
        "x",
    ]:
        c = CsvPath()

        def _x(c=c, p=p):
            r = MetadataParser(c).extract_metadata(instance=c, csvpath=p)
            return (r, c.metadata, c.identity)

        attempt(f"extract_metadata({p!r})", _x)

    # ------------------------------------------------------------------------
    section("5. re-add / replace / remove / new instance sequences")
    rnd = random.Random(12)
    pool = [
        P_PLAIN,
        P_ID,
        P_NAME,
        P_ID_AND_NAME,
        P_CAP_ID,
        P_INNER,
        P_TRAILING,
        P_EMPTY_ID,
        P_MULTILINE_NOID,
        P_DASH_ID,
    ]
    names = ["g1", "g2"]
    last = {}
    for seq in range(8):
        out("")
        out(f"--- sequence {seq}")
        for n in names:
            cp.paths_manager.remove_named_paths(n)
        last.clear()
        for step in range(5):
            op = rnd.choice(["add", "readd", "replace", "remove", "new"])
            n = rnd.choice(names)
            if op == "add" or (op in ("readd", "replace") and n not in last):
                k = rnd.randint(1, 5)
                paths = [rnd.choice(pool) for _ in range(k)]
                last[n] = paths
                out(f"step {step}: add {n} with {k} paths")
                attempt("add", lambda: cp.paths_manager.add_named_paths(name=n, paths=paths))
            elif op == "readd":
                out(f"step {step}: identical re-add {n}")
                attempt("readd", lambda: cp.paths_manager.add_named_paths(name=n, paths=list(last[n])))
            elif op == "replace":
                k = rnd.randint(1, 5)
                paths = [rnd.choice(pool) for _ in range(k)]
                last[n] = paths
                out(f"step {step}: replace {n} with {k} paths")
                attempt("replace", lambda: cp.paths_manager.add_named_paths(name=n, paths=paths))
            elif op == "remove":
                out(f"step {step}: remove {n}")
                attempt("remove", lambda: cp.paths_manager.remove_named_paths(n))
                last.pop(n, None)
            else:
                out(f"step {step}: new CsvPaths instance")
                cp = CsvPaths()
            for m in names:
                got = attempt(f"  get {m}", lambda m=m: cp.paths_manager.get_named_paths(m))
                if m in last:
                    out(
                        f"  {m} round trip:",
                        got is not None and [g.strip() for g in got] == [p.strip() for p in last[m]],
                    )
                    idps = cp.paths_manager.get_identified_paths_in(m)
                    for ident in sorted({i for i, _ in idps if i}):
                        attempt(f"  {m}#{ident}", lambda: cp.paths_manager.get_named_paths(f"{m}#{ident}"))
                        attempt(
                            f"  ${m}.csvpaths.{ident}:from",
                            lambda: cp.paths_manager.get_named_paths(f"${m}.csvpaths.{ident}:from"),
                        )
                        attempt(
                            f"  {m}#{ident}:to", lambda: cp.paths_manager.get_named_paths(f"{m}#{ident}:to")
                        )
                show_group(cp, m)
    pm = cp.paths_manager
    attempt("remove_named_paths('nosuch')", lambda: pm.remove_named_paths("nosuch"))
    attempt("remove_named_paths('nosuch', strict=True)", lambda: pm.remove_named_paths("nosuch", strict=True))
    attempt("remove_named_paths('g1', strict=True)", lambda: pm.remove_named_paths("g1", strict=True))
    attempt("remove_named_paths('g1', strict=True) again", lambda: pm.remove_named_paths("g1", strict=True))

    # ------------------------------------------------------------------------
    section("6. bad input to add_named_paths / set_named_paths")
    for bad in [None, "a string", ("$[*][yes()]",), {"a": 1}, 7]:
        attempt(f"add_named_paths(paths={bad!r})", lambda bad=bad: pm.add_named_paths(name="bad", paths=bad))
        attempt("has bad", lambda: pm.has_named_paths("bad"))
    attempt("add_named_paths(paths=[])", lambda: pm.add_named_paths(name="empty", paths=[]))
    attempt("get empty", lambda: pm.get_named_paths("empty"))
    attempt("get empty#x", lambda: pm.get_named_paths("empty#x"))
    attempt("get empty#x:from", lambda: pm.get_named_paths("empty#x:from"))
    attempt("get empty#x:to", lambda: pm.get_named_paths("empty#x:to"))
    show_group(cp, "empty")
    attempt("add_named_paths(paths=[''])", lambda: pm.add_named_paths(name="blank", paths=[""]))
    show_group(cp, "blank")
    attempt("add_named_paths(paths=['junk'])", lambda: pm.add_named_paths(name="junk", paths=["junk"]))
    show_group(cp, "junk")
    attempt("add_named_paths(paths=[P_ID, 5])", lambda: pm.add_named_paths(name="nonstr", paths=[P_ID, 5]))
    show_group(cp, "nonstr")
    attempt("set_named_paths not-a-list", lambda: pm.set_named_paths({"s1": [P_ID], "s2": "oops"}))
    attempt("has s1", lambda: pm.has_named_paths("s1"))
    attempt("set_named_paths ok", lambda: pm.set_named_paths({"s1": [P_ID, P_NAME], "s2": [P_PLAIN]}))
    show_group(cp, "s1")
    show_group(cp, "s2")
    attempt("set_named_paths {}", lambda: pm.set_named_paths({}))
    attempt("collected csvpaths errors", lambda: [(type(e.error).__name__, str(e.error)) for e in cp.errors])

    # ------------------------------------------------------------------------
    section("7. from_file / from_dir / from_json")
    os.makedirs("work/dir", exist_ok=True)
    with open("work/one.csvpaths", "w", encoding="utf-8") as file:
        file.write(f"{P_ID}\n---- CSVPATH ----\n{P_INNER}\n\n---- CSVPATH ----\n\n\n---- CSVPATH ----\n{P_PLAIN}\n")
    with open("work/dir/alpha.csvpath", "w", encoding="utf-8") as file:
        file.write(P_NAME)
    with open("work/dir/beta.csvpaths", "w", encoding="utf-8") as file:
        file.write(f"{P_PLAIN}\n---- CSVPATH ----\n{P_CAP_ID}")
    with open("work/dir/.hidden.csvpath", "w", encoding="utf-8") as file:
        file.write(P_PLAIN)
    with open("work/dir/noext", "w", encoding="utf-8") as file:
        file.write(P_PLAIN)
    with open("work/dir/skip.json", "w", encoding="utf-8") as file:
        file.write("{}")
    with open("work/def.json", "w", encoding="utf-8") as file:
        json.dump({"j1": ["work/one.csvpaths", "work/dir/alpha.csvpath"], "j2": ["work/dir/beta.csvpaths"]}, file)
    with open("work/broken.json", "w", encoding="utf-8") as file:
        file.write("{ not json")
    attempt("from_file kw", lambda: pm.add_named_paths(name="ff", from_file="work/one.csvpaths"))
    attempt("get ff", lambda: pm.get_named_paths("ff"))
    attempt("get ff#inner:from", lambda: pm.get_named_paths("ff#inner:from"))
    show_group(cp, "ff")
    attempt("from_file missing", lambda: pm.add_named_paths_from_file(name="ffm", file_path="work/missing.csvpaths"))
    for n in ["alpha", "beta"]:
        pm.remove_named_paths(n)
    attempt("from_dir kw (own names)", lambda: pm.add_named_paths(name=None, from_dir="work/dir"))
    attempt("get alpha", lambda: pm.get_named_paths("alpha"))
    attempt("get beta", lambda: pm.get_named_paths("beta"))
    attempt("get beta#capid", lambda: pm.get_named_paths("beta#capid"))
    attempt("from_dir not a dir", lambda: pm.add_named_paths_from_dir(directory="work/one.csvpaths"))
    attempt("from_json kw", lambda: pm.add_named_paths(name="ignored", from_json="work/def.json"))
    attempt("get j1", lambda: pm.get_named_paths("j1"))
    attempt("get j2", lambda: pm.get_named_paths("j2"))
    attempt("get $j1.csvpaths.three:to", lambda: pm.get_named_paths("$j1.csvpaths.three:to"))
    show_group(cp, "j1")
    attempt("from_json broken", lambda: pm.add_named_paths_from_json("work/broken.json"))
    attempt("from_json missing", lambda: pm.add_named_paths_from_json("work/nope.json"))

    # ------------------------------------------------------------------------
    section("8. registrar")
    reg = pm.registrar
    attempt("registrar type", lambda: type(reg).__name__)
    attempt("same registrar", lambda: pm.registrar is reg)
    attempt("listeners", lambda: [type(x).__name__ for x in reg.listeners])
    attempt("_fingerprint()", lambda: reg._fingerprint())
    attempt("_fingerprint(name='pair')", lambda: reg._fingerprint(name="pair"))
    attempt(
        "_fingerprint(group_file_path=pair)",
        lambda: reg._fingerprint(group_file_path=os.path.join("inputs", "named_paths", "pair", "group.csvpaths")),
    )
    attempt(
        "_fingerprint(name='ids', group_file_path=pair)",
        lambda: reg._fingerprint(
            name="ids", group_file_path=os.path.join("inputs", "named_paths", "pair", "group.csvpaths")
        ),
    )
    attempt("_fingerprint(group_file_path=missing)", lambda: reg._fingerprint(group_file_path="work/nope"))
    attempt("_fingerprint(name='fresh')", lambda: reg._fingerprint(name="fresh"))
    attempt("has fresh (home made by fingerprint)", lambda: pm.has_named_paths("fresh"))
    attempt("get fresh", lambda: pm.get_named_paths("fresh"))
    show_group(cp, "fresh")
    attempt("manifest_path('pair')", lambda: reg.manifest_path("pair"))
    attempt("manifest_path('fresh2')", lambda: reg.manifest_path("fresh2"))
    show_group(cp, "fresh2")
    attempt("_most_recent_fingerprint(pair)", lambda: reg._most_recent_fingerprint(reg.manifest_path("pair")))
    attempt("_most_recent_fingerprint(fresh2)", lambda: reg._most_recent_fingerprint(reg.manifest_path("fresh2")))
    attempt("_most_recent_fingerprint(missing)", lambda: reg._most_recent_fingerprint("work/nope.json"))
    attempt("get_manifest(pair) len", lambda: len(reg.get_manifest(reg.manifest_path("pair"))))
    attempt("_simple_name", lambda: [reg._simple_name(x) for x in ["a/b/c.txt", "c.txt", "", "a/"]])
    attempt("distribute_update(None)", lambda: reg.distribute_update(None))
    attempt(
        "update_manifest_if unchanged",
        lambda: reg.update_manifest_if(
            name="pair", group_file_path=os.path.join("inputs", "named_paths", "pair", "group.csvpaths")
        ),
    )
    show_group(cp, "pair")
    # metadata_update called directly with a hand made metadata
    md = PathsMetadata(cp.config)
    md.archive_name = "arch"
    md.named_paths_name = "pair"
    md.named_paths_home = "somewhere"
    md.group_file_path = "somewhere/group.csvpaths"
    md.named_paths = ["$[*][yes()]"]
    md.named_paths_identities = ["zero"]
    md.named_paths_count = 1
    md.manifest_path = reg.manifest_path("pair")
    md.fingerprint = reg._most_recent_fingerprint(md.manifest_path)
    attempt("metadata_update same fingerprint", lambda: reg.metadata_update(md))
    show_group(cp, "pair")
    md.fingerprint = "abc"
    md.set_time_started()
    attempt("metadata_update new fingerprint + time_started", lambda: reg.metadata_update(md))
    md.fingerprint = "def"
    md.set_time_completed()
    attempt("metadata_update new fingerprint + time_completed", lambda: reg.metadata_update(md))
    md.fingerprint = None
    attempt("metadata_update None fingerprint", lambda: reg.metadata_update(md))
    attempt("metadata_update None fingerprint again", lambda: reg.metadata_update(md))
    show_group(cp, "pair")
    from csvpath.managers.metadata import Metadata

    bare = Metadata(cp.config)
    bare.manifest_path = md.manifest_path
    bare.fingerprint = "bare"
    attempt("metadata_update with a bare Metadata", lambda: reg.metadata_update(bare))
    bare.archive_name = "x"
    bare.named_paths_name = "pair"
    attempt("metadata_update with a less bare Metadata", lambda: reg.metadata_update(bare))
    nomani = PathsMetadata(cp.config)
    nomani.fingerprint = "zzz"
    attempt("metadata_update without manifest_path", lambda: reg.metadata_update(nomani))
    nomani.manifest_path = "work/not-there.json"
    attempt("metadata_update with missing manifest file", lambda: reg.metadata_update(nomani))
    with open("work/dict-manifest.json", "w", encoding="utf-8") as file:
        file.write("[{}]")
    nomani.manifest_path = "work/dict-manifest.json"
    attempt("metadata_update with entry lacking fingerprint", lambda: reg.metadata_update(nomani))
    attempt("_most_recent_fingerprint entry lacking fingerprint", lambda: reg._most_recent_fingerprint("work/dict-manifest.json"))
    show_group(cp, "pair")
    attempt("re-add pair after manual manifest entries", lambda: pm.add_named_paths(name="pair", paths=GROUPS["pair"]))
    attempt("re-add pair identical", lambda: pm.add_named_paths(name="pair", paths=GROUPS["pair"]))
    show_group(cp, "pair")
    # hand edited group file
    g = os.path.join("inputs", "named_paths", "single", "group.csvpaths")
    with open(g, "a", encoding="utf-8") as file:
        file.write("\n---- CSVPATH ----\n~ id: byhand ~ $[*][no()]\n")
    attempt("get single after hand edit", lambda: pm.get_named_paths("single"))
    attempt("get single#byhand after hand edit", lambda: pm.get_named_paths("single#byhand"))
    show_group(cp, "single")

    # ------------------------------------------------------------------------
    section("10. generated groups")
    generated_groups(cp)

    # ------------------------------------------------------------------------
    section("9. runs using selections")
    with open("work/f.csv", "w", encoding="utf-8") as file:
        file.write("a,b,c\n1,2,3\n\n3,,0\n3,4\n,,\n3,0,x,extra\n")
    cp = CsvPaths()
    attempt("add file", lambda: cp.file_manager.add_named_file(name="f", path="work/f.csv"))
    attempt(
        "add run group",
        lambda: cp.paths_manager.add_named_paths(
            name="run", paths=[P_PLAIN, P_ID, "~ id: bs ~ $[*][ #b ]", P_INNER]
        ),
    )
    for ref in ["run", "run#two", "$run.csvpaths.bs:from", "run#two:to", "run#nope", "run#two:bad"]:
        out("")
        out(f"--- collect_paths {ref}")
        c2 = CsvPaths()
        attempt("collect_paths", lambda: c2.collect_paths(filename="f", pathsname=ref))

        def _res2():
            rs = c2.results_manager.get_named_results(ref)
            ret = []
            for r in rs:
                ret.append(
                    {
                        "identity": r.csvpath.identity,
                        "valid": r.csvpath.is_valid,
                        "lines": [list(x) for x in (r.lines if isinstance(r.lines, list) else r.lines.next())],
                        "vars": dict(r.csvpath.variables),
                        "errors": len(r.errors) if r.errors else 0,
                        "printouts": list(r.printouts),
                    }
                )
            return ret

        attempt("results", _res2)
    show_tree("archive")
    show_tree("inputs")
    # contents of the run archive's data / vars / printouts files (run dirs sorted by name)
    for base, dirs, files in os.walk("archive"):
        dirs.sort()
        for fn in sorted(files):
            if fn in ("data.csv", "vars.json", "printouts.txt"):
                with open(os.path.join(base, fn), "r", encoding="utf-8") as file:
                    out(f"[content] {os.path.join(base, fn)}: {file.read()!r}")


if __name__ == "__main__":
    try:
        main()
    except BaseException:  # pylint: disable=W0718
        out("DEMO CRASHED")
        out(traceback.format_exc())
        sys.exit(1)
