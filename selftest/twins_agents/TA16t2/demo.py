"""Differential demo for property C16 (print() emits text verbatim with
references replaced by current values).

Run with cwd = an empty temp dir and PYTHONPATH = the csvpath tree under test.
The transcript on stdout is deterministic: no timestamps, no timings, no
absolute paths.
"""
import os
import re
import sys
import random
import shutil
import logging
import time

# lark reports "Expected one of" from a set; pin the hash seed so that the
# transcript is byte-for-byte reproducible
if os.environ.get("PYTHONHASHSEED") != "0":
    os.environ["PYTHONHASHSEED"] = "0"
    os.execv(sys.executable, [sys.executable] + sys.argv)

CONFIG = """[csvpath_files]
extensions = txt, csvpath, csvpaths

[csv_files]
extensions = txt, csv, tsv, dat, tab, psv, ssv

[errors]
csvpath = collect, fail, print
csvpaths = raise, collect

[logging]
csvpath = info
csvpaths = info
log_file = logs/csvpath.log
log_files_to_keep = 100
log_file_size = 52428800

[config]
path = config/config.ini

[cache]
path = cache

[listeners]
[marquez]
base_url = http://localhost:5000

[functions]
imports = config/functions.imports

[results]
archive = archive
transfers = transfers

[inputs]
files = inputs/named_files
csvpaths = inputs/named_paths
on_unmatched_file_fingerprints = halt
"""

for d in ("archive", "inputs", "cache", "logs", "transfers", "config"):
    shutil.rmtree(d, ignore_errors=True)
os.makedirs("config", exist_ok=True)
with open("config/config.ini", "w") as f:
    f.write(CONFIG)
with open("config/functions.imports", "w") as f:
    f.write("")

from csvpath import CsvPath, CsvPaths  # noqa: E402
from csvpath.util.printer import Printer  # noqa: E402
from csvpath.matching.util.print_parser import PrintParser  # noqa: E402
from csvpath.matching.util.lark_print_parser import (  # noqa: E402
    LarkPrintParser,
    LarkPrintTransformer,
)

# everything written to stdout/stderr by anyone (the default StdOutPrinter
# included; it writes the "stderr" target to sys.stderr) is buffered, in order,
# and written out normalised at exit
import io  # noqa: E402
import atexit  # noqa: E402

REAL_STDOUT = sys.stdout
OUT = io.StringIO()
sys.stdout = OUT
sys.stderr = OUT


def _flush_transcript():
    REAL_STDOUT.write(norm(OUT.getvalue()))
    REAL_STDOUT.flush()


atexit.register(_flush_transcript)


def say(*parts):
    OUT.write(" ".join(str(p) for p in parts) + "\n")


TIME_KEYS = re.compile(r"(lines_time|last_line_time|rows_time|last_row_time)")
CWD = os.getcwd()


def norm(s):
    s = f"{s}"
    s = s.replace(CWD, "<CWD>")
    s = re.sub(r"\d{4}-\d{2}-\d{2}_\d{2}-\d{2}-\d{2}(_\d+)?", "<RUN>", s)
    s = re.sub(r"\d{4}-\d{2}-\d{2}[ T]\d{2}:\d{2}:\d{2}(\.\d+)?(\+\d\d:\d\d)?", "<TS>", s)
    s = re.sub(r" at 0x[0-9a-f]+", " at 0x?", s)
    return s


class Capture(Printer):
    """records every call exactly as made"""

    def __init__(self, tag):
        self.tag = tag
        self.calls = []

    @property
    def last_line(self):
        return self.calls[-1][2] if self.calls else None

    @property
    def lines_printed(self):
        return len(self.calls)

    def print(self, string):
        self.calls.append(("print", None, string))

    def print_to(self, name, string):
        self.calls.append(("print_to", name, string))


FILES = {
    "plain.csv": "a,b,c\n1,2,3\n4,5,6\n7,8,9\n",
    # blank lines, ragged rows, empty values, zeros, spaces, dots and dollars in data
    "odd.csv": (
        "a,b,c\n"
        "0,,x.y\n"
        "\n"
        "1\n"
        "2,3\n"
        "4,5,6,7,8\n"
        "  ,0.0,$.headers.a\n"
        "\n"
        '"q,r"," s ",""\n'
        "9,8,7\n"
    ),
    "quoted.csv": "first name,last.name,#\nAda,Lovelace,0\nAlan,Turing,1\n,,\n",
    "empty.csv": "",
    "header_only.csv": "a,b,c\n",
}
for name, body in FILES.items():
    with open(name, "w") as f:
        f.write(body)


def show_error(prefix, e):
    # the trace is deliberately left out: it holds source line numbers
    say(
        prefix,
        type(e.error).__name__,
        "| line/match/scan:",
        e.line_count,
        e.match_count,
        e.scan_count,
        "| source:",
        norm(e.source)[:120],
        "| msg:",
        repr(norm(e.error)[:160]),
        "| message:",
        repr(norm(e.message)[:160]),
    )


def run_one(title, file, match, *, method="collect", printers=2, show_vars=True, comment="", scan="*"):
    say("-" * 70)
    say("CASE", title)
    say("file:", file, "| method:", method)
    say("match:", match)
    if comment or scan != "*":
        say("comment:", comment, "| scan:", scan)
    p = CsvPath()
    p.logger.setLevel(logging.CRITICAL)
    caps = [Capture(f"P{i}") for i in range(printers)]
    p.set_printers(list(caps))
    lines = None
    try:
        p.parse(f"{comment}${file}[{scan}][{match}]")
        if method == "collect":
            lines = p.collect()
        elif method == "fast_forward":
            p.fast_forward()
        elif method == "next":
            lines = []
            for ln in p.next():
                lines.append(list(ln))
                # printouts are observable line by line
                say("  next ->", ln, "| printed so far:", len(caps[0].calls) if caps else "-")
        say("exception: none")
    except Exception as e:  # noqa: BLE001
        say("exception:", type(e).__name__, norm(e))
    say("lines:", lines)
    if show_vars:
        say("variables:", norm(p.variables))
    say("is_valid:", p.is_valid, "| stopped:", p.stopped)
    say("errors:", len(p.errors) if p.errors is not None else None)
    for e in p.errors or []:
        show_error("  error:", e)
    for c in caps:
        say(f"printer {c.tag}: {len(c.calls)} calls")
        for call in c.calls:
            say("   ", repr(call))
    if len(caps) > 1:
        say("all printers identical:", all(c.calls == caps[0].calls for c in caps))
    return p, caps


# ----------------------------------------------------------------------
# 1. hand written cases
# ----------------------------------------------------------------------
HAND = [
    ("text only", "plain.csv", 'print("hello world")'),
    ("empty string", "plain.csv", 'print("")'),
    ("single space", "plain.csv", 'print(" ")'),
    ("trailing spaces kept but one", "plain.csv", 'print("ends with spaces   ")'),
    ("leading spaces", "plain.csv", 'print("   three leading")'),
    ("tabs and multiple spaces", "plain.csv", 'print("a  b   c\td")'),
    ("punctuation", "plain.csv", "print(\"p: ,;:!?()[]{}<>/|\\\\~`'=+-*&^%#@_ end\")"),
    ("dots in text", "plain.csv", 'print("a.b..c...d. .e")'),
    ("header by name", "plain.csv", 'print("a=$.headers.a b=$.headers.b c=$.headers.c")'),
    ("header by index", "plain.csv", 'print("0=$.headers.0 1=$.headers.1 2=$.headers.2 3=$.headers.3")'),
    ("header at end", "plain.csv", 'print("last is $.headers.c")'),
    ("header at start", "plain.csv", 'print("$.headers.a is first")'),
    ("only a reference", "plain.csv", 'print("$.headers.b")'),
    ("adjacent references", "plain.csv", 'print("$.headers.a$.headers.b$.headers.c")'),
    ("refs separated by one char", "plain.csv", 'print("$.headers.a,$.headers.b;$.headers.c!")'),
    ("ref then escaped dot", "plain.csv", 'print("value $.headers.a.. next $.headers.b..")'),
    ("ref then escaped dot then text", "plain.csv", 'print("$.headers.a..txt and $.headers.b..$.headers.c")'),
    ("ref then many chars", "plain.csv", 'print("$.headers.a----$.headers.b    $.headers.c")'),
    ("ref in parens and quotes", "plain.csv", "print(\"($.headers.a) '$.headers.b' [$.headers.c]\")"),
    ("unknown header", "plain.csv", 'print("missing: $.headers.zzz and $.headers.99")'),
    ("variables", "plain.csv", '@x = #a @y = "why" @z = 0 @e = "" print("x=$.variables.x y=$.variables.y z=$.variables.z e=[$.variables.e] n=$.variables.nope")'),
    ("tracking variables", "plain.csv", 'tally(#a) @t.k = #b print("t.k=$.variables.t.k t=$.variables.t tally=$.variables.tally_a.1 miss=$.variables.t.zz")'),
    ("stack variables", "plain.csv", 'push("st", #a) print("len=$.variables.st.length first=$.variables.st.0 last=$.variables.st.-1 oob=[$.variables.st.7] bad=[$.variables.st.xx] all=$.variables.st")'),
    ("metadata", "plain.csv", 'print("id=$.metadata.id desc=$.metadata.description none=$.metadata.nothing")'),
    ("csvpath fields", "plain.csv", 'print("file=$.csvpath.file_name line=$.csvpath.line_number lines=$.csvpath.count_lines matches=$.csvpath.count_matches scans=$.csvpath.count_scans total=$.csvpath.total_lines hs=$.csvpath.headers valid=$.csvpath.valid stopped=$.csvpath.stopped delim=$.csvpath.delimiter q=$.csvpath.quotechar id=[$.csvpath.identity] x=$.csvpath.nonesuch")'),
    ("csvpath scan and match parts", "plain.csv", 'print("scan=$.csvpath.scan_part match=$.csvpath.match_part")'),
    ("quoted header names", "quoted.csv", "print(\"fn=$.headers.'first name' ln=$.headers.'last.name' h=$.headers.'#' x\")"),
    ("quoted header at end", "quoted.csv", "print(\"$.headers.'first name'\")"),
    ("odd file all headers", "odd.csv", 'print("[$.headers.a|$.headers.b|$.headers.c] #$.csvpath.line_number")'),
    ("odd file by index", "odd.csv", 'print("$.headers.0/$.headers.1/$.headers.2/$.headers.3/$.headers.4")'),
    ("empty file", "empty.csv", 'print("never $.headers.a")'),
    ("header only file", "header_only.csv", 'print("hdr $.headers.a")'),
    ("onmatch", "plain.csv", '#a == "4" print.onmatch("matched at $.csvpath.line_number with $.headers.a")'),
    ("onmatch odd", "odd.csv", '#b print.onmatch("b is [$.headers.b] at $.csvpath.line_number, matches=$.csvpath.count_matches")'),
    ("once", "plain.csv", 'print.once("once at $.csvpath.line_number")'),
    ("once and onmatch", "plain.csv", '#a == "7" print.once.onmatch("once-onmatch at $.csvpath.line_number")'),
    ("onchange", "odd.csv", '@k = length(#a) print.onchange("k")'),
    ("onchange with once", "plain.csv", 'print.onchange.once("oo $.csvpath.count_lines")'),
    ("two prints", "plain.csv", 'print("one $.headers.a") print("two $.headers.b")'),
    ("named printer", "plain.csv", 'print("to err $.headers.a", "stderr") print("to foo $.headers.b..", "foo-bar") print("", "empty-target-text")'),
    ("empty printer name", "plain.csv", 'print("to empty name $.headers.a", "")'),
    ("second arg function", "plain.csv", 'print("then count $.headers.a", push("after", #a)) print("after=$.variables.after")'),
    ("second arg equality", "plain.csv", 'print("then test $.headers.a", #a == "4")'),
    ("second arg equality with side effect", "plain.csv", 'print.once("then test $.headers.a", push("sd", #b) == "x") print("sd=$.variables.sd")'),
    ("second arg variable", "plain.csv", '@tgt = "var-target" print("to var $.headers.a", @tgt)'),
    ("second arg header", "plain.csv", 'print("to header $.headers.a", #b)'),
    ("second arg stop", "plain.csv", 'print("stopping at $.csvpath.line_number", stop())'),
    ("second arg fail", "plain.csv", 'print.once("failing $.csvpath.valid", fail()) print("now $.csvpath.valid")'),
    ("onmatch to target", "plain.csv", '#a == "4" print.onmatch("tgt match $.headers.b", "tgt")'),
    ("once to target", "plain.csv", 'print.once("tgt once $.headers.b", "tgt")'),
    ("onchange to target", "plain.csv", 'print.onchange("tgt chg $.headers.b", "tgt")'),
    ("nested print as second arg", "plain.csv", 'print("outer $.headers.a", print("inner $.headers.b", "inner-tgt"))'),
    ("second arg skip", "plain.csv", 'print("before skip $.headers.a", skip()) print("after skip $.headers.a")'),
    ("second arg once with push", "plain.csv", 'print.once("once then push $.headers.a", push("p1", #a)) push("p2", #a)'),
    ("second arg onmatch with push", "plain.csv", '#b == "5" print.onmatch("onmatch then push $.headers.a", push("p1", #a))'),
    ("print value used", "plain.csv", '@pv = print("as value $.headers.a") @pm = exists(print("as match"))'),
    ("not print", "plain.csv", 'not(print("negated $.headers.a"))'),
    ("print on right of when", "odd.csv", 'empty(#b) -> print("b empty at $.csvpath.line_number [$.headers.a]", "empties")'),
    ("print on left of when", "plain.csv", 'print("left $.headers.a") -> @w = #a'),
    ("print in when", "plain.csv", '#a == "4" -> print("do-when $.headers.c")'),
    ("print with name qualifier", "plain.csv", 'print.myname("named $.headers.a") print.other.once("other $.headers.a")'),
    ("header named like keyword", "plain.csv", 'print("$.headers.variables $.variables.headers $.metadata.csvpath")'),
    ("ref followed by newline", "plain.csv", 'print("$.headers.a\n$.headers.b\n")'),
    ("ref followed by digits", "plain.csv", 'print("$.headers.a1 $.headers.1a $.headers.01")'),
    ("dollar alone", "plain.csv", 'print("cost: $ 5")'),
    ("dollar amount", "plain.csv", 'print("cost: $5.00")'),
    ("double dollar", "plain.csv", 'print("$$.headers.a")'),
    ("bad type", "plain.csv", 'print("$.nope.a x")'),
    ("incomplete ref", "plain.csv", 'print("$.headers. x")'),
    ("ref then single dot then space", "plain.csv", 'print("$.headers.a. x")'),
    ("three part name", "plain.csv", 'print("$.variables.a.b.c x")'),
    ("unknown named paths", "plain.csv", 'print("$nothere.variables.x done")'),
    ("file-ish root", "plain.csv", 'print("$plain.headers.a done")'),
]

say("=" * 70)
say("SECTION 1: hand written print strings")
for title, file, match in HAND:
    run_one(title, file, match)

say("=" * 70)
say("SECTION 1b: other run methods and metadata")
run_one("fast_forward", "plain.csv", 'print("ff $.headers.a $.csvpath.line_number")', method="fast_forward")
run_one("next", "odd.csv", 'print("nx [$.headers.a] $.csvpath.line_number")', method="next")
run_one("no printers", "plain.csv", 'print("nobody listens $.headers.a")', printers=0)
run_one("one printer", "plain.csv", 'print("one listens $.headers.a")', printers=1)

run_one("logic-mode OR", "plain.csv", '#a == "4" print.onmatch("or-mode $.headers.a")', comment="~ logic-mode: OR ~ ")
run_one("scan subset", "odd.csv", 'print("scan $.csvpath.line_number/$.csvpath.count_scans/$.csvpath.count_matches [$.headers.a]")', scan="2-6")
run_one("scan single", "odd.csv", 'print.once("single [$.headers.c]")', scan="6")
run_one("print-mode no default", "plain.csv", 'print("mode $.headers.a")', comment="~ print-mode: no-default ~ ")
run_one("validation collect only", "plain.csv", 'print("bad $ here")', comment="~ validation-mode: no-print, no-raise, collect ~ ")
run_one("validation raise", "plain.csv", 'print("bad $ here")', comment="~ validation-mode: raise, no-print ~ ")

say("-" * 70)
say("CASE same CsvPath string parsed and run repeatedly (fresh instances)")
for rep in range(3):
    p = CsvPath()
    p.logger.setLevel(logging.CRITICAL)
    cap = Capture("P0")
    p.set_printers([cap])
    p.parse('$plain.csv[*][ print.once("rep once $.headers.a") print("rep $.csvpath.count_lines") ]')
    p.fast_forward()
    say(" rep", rep, [c[2] for c in cap.calls])

say("-" * 70)
say("CASE metadata from comment")
p = CsvPath()
p.logger.setLevel(logging.CRITICAL)
cap = Capture("P0")
p.set_printers([cap])
p.parse(
    '~ id: meta-test description: a described path zero: 0 ~ $plain.csv[1-2][ '
    'print("id=$.metadata.id; d=$.metadata.description; z=$.metadata.zero; i=$.csvpath.identity..") ]'
)
say("lines:", p.collect())
for call in cap.calls:
    say("   ", repr(call))

# ----------------------------------------------------------------------
# 2. generated strings: chunks and references in any arrangement
# ----------------------------------------------------------------------
say("=" * 70)
say("SECTION 2: generated print strings")
rnd = random.Random(16)
CHUNK_CHARS = "abcXYZ019   .,;:!?()[]{}<>/|'=+-*&^%#@_~"
REFS = [
    "$.headers.a",
    "$.headers.b",
    "$.headers.c",
    "$.headers.0",
    "$.headers.2",
    "$.headers.5",
    "$.variables.v",
    "$.variables.zero",
    "$.variables.blank",
    "$.variables.stk",
    "$.variables.stk.length",
    "$.variables.stk.0",
    "$.variables.trk.k1",
    "$.variables.trk",
    "$.variables.undefined",
    "$.metadata.id",
    "$.csvpath.line_number",
    "$.csvpath.count_matches",
    "$.csvpath.delimiter",
]
SETUP = '@v = #c @zero = 0 @blank = "" push("stk", #a) @trk.k1 = #b '


def gen_string():
    n = rnd.randint(1, 6)
    parts = []
    for _ in range(n):
        kind = rnd.random()
        if kind < 0.5:
            parts.append(rnd.choice(REFS))
        else:
            ln = rnd.choice([1, 1, 2, 3, 5, 9])
            parts.append("".join(rnd.choice(CHUNK_CHARS) for _ in range(ln)))
    return "".join(parts)


gen = []
while len(gen) < 60:
    s = gen_string()
    if s not in gen:
        gen.append(s)
for i, s in enumerate(gen):
    q = ["", ".onmatch", ".once", ".onchange"][i % 4] if i % 3 == 0 else ""
    file = ["plain.csv", "odd.csv"][i % 2]
    run_one(f"generated {i}", file, f'{SETUP} print{q}("{s}")', show_vars=False)

# ----------------------------------------------------------------------
# 3. PrintParser / Lark layer used directly
# ----------------------------------------------------------------------
say("=" * 70)
say("SECTION 3: PrintParser.transform called directly after a run")
p = CsvPath()
p.logger.setLevel(logging.CRITICAL)
p.set_printers([])
p.parse(
    '~ id: direct name: nm ~ $odd.csv[*][ @n = count_lines() @s = "str" @zero = 0 @none = none() '
    '@blank = "" push("stk", #a) @trk.k1 = #b @trk.zero = 0 tally(#b) ]'
)
p.fast_forward()
say("variables:", p.variables)
say("last line:", p.matcher.line if p.matcher else None)
DIRECT = [
    "",
    " ",
    "x",
    "x ",
    "$.variables.n",
    "$.variables.n ",
    "$.variables.n..",
    "$.variables.n...",
    "$.variables.n....",
    "$.variables.n.. ..",
    "$.variables.n,$.variables.s",
    "$.variables.n$.variables.s",
    "$.variables.zero|$.variables.none|$.variables.blank|",
    "$.variables.stk",
    "$.variables.stk.length",
    "$.variables.stk.0",
    "$.variables.stk.1.",
    "$.variables.stk.-2",
    "$.variables.stk.100",
    "$.variables.stk.x",
    "$.variables.trk.k1",
    "$.variables.trk.zero",
    "$.variables.trk.nokey",
    "$.variables.s.length",
    "$.variables.s.0",
    "$.variables.zero.0",
    "$.variables.'s'",
    "$.variables.'stk'.'length'",
    "$.variables.'n' $.variables.'stk'.0!",
    "$.variables.'..'",
    "$.variables.'a.b'",
    "$.headers.a",
    "$.headers.a.zz",
    "$.headers.'a'",
    "$.headers.1",
    "$.headers.9",
    "$.headers.-1",
    "$.headers.nope",
    "$.metadata.id",
    "$.metadata.name",
    "$.metadata.id.x",
    "$.csvpath.identity",
    "$.csvpath.count_lines",
    "$.csvpath.headers",
    "$.csvpath.headers.0",
    "$.csvpath.headers.length",
    "$ .variables.n",
    "$.variables .n",
    "$.variables",
    "$.variables.",
    "$.variables.n.",
    "$.variables.n.k.",
    "$.variables.n.k.j",
    "$",
    "$$",
    "a$",
    "$.bogus.n",
    "$x.variables.n",
    "multi\nline $.variables.n\n text",
    "\t$.variables.s\t",
]
for s in DIRECT:
    try:
        r = PrintParser(csvpath=p).transform(s)
        say(repr(s), "->", repr(r))
    except Exception as e:  # noqa: BLE001
        say(repr(s), "-> EXC", type(e).__name__, norm(e).replace("\n", "\\n")[:200])

say("-" * 70)
say("Lark layer: parse tree shape and transformer items")
for s in ["a b", "$.headers.a", "$.headers.a..", "$.variables.'q r'.k!", "x$.metadata.id$.csvpath.valid y", "..", "$r.variables.v z"]:
    try:
        lp = LarkPrintParser()
        tree = lp.parse(s)
        t = LarkPrintTransformer()
        items = t.transform(tree)
        say(repr(s), "-> items", repr(items), "| pending:", t.pending_text)
        say("    to_string:", repr(t.to_string(*items)))
    except Exception as e:  # noqa: BLE001
        say(repr(s), "-> EXC", type(e).__name__, norm(e).replace("\n", "\\n")[:200])

# ----------------------------------------------------------------------
# 5. transformer callbacks called directly
# ----------------------------------------------------------------------
say("=" * 70)
say("SECTION 5: LarkPrintTransformer callbacks called directly")
from lark.lexer import Token  # noqa: E402


def tcall(label, fn):
    try:
        say(label, "->", repr(fn()))
    except Exception as e:  # noqa: BLE001
        say(label, "-> EXC", type(e).__name__, norm(e))


for pending in ([], ["1"], ["1", "2"], ["1", "2", "3"], ["", "."], ["ab", "cd"]):
    for meth, typ, val in (("TEXT", "TEXT", "x"), ("WS", "WS", " "), ("TEXT", "TEXT", ""), ("WS", "WS", "\n\t")):
        t = LarkPrintTransformer()
        t.pending_text = list(pending)
        tok = Token(typ, val)
        r = getattr(t, meth)(tok)
        say(f"{meth}({val!r}) pending={pending!r} -> {r!r} | token.value={tok.value!r} | pending after={t.pending_text!r} | new list: {t.pending_text is not pending}")
    t = LarkPrintTransformer()
    t.pending_text = list(pending)
    r = t.reference("$.", "headers", ["a", ""])
    say(f"reference pending={pending!r} -> {r!r} | pending after={t.pending_text!r}")
t = LarkPrintTransformer()
for v in ["..", ".", " ", "x", "$", "...", "", "\n", ".."]:
    r = t.SENTINEL(Token("SENTINEL", v))
    say(f"SENTINEL({v!r}) -> {r!r} | pending={t.pending_text!r}")
t = LarkPrintTransformer()
NAMES = [
    ("a",), ("a", ""), ("a", "k", ""), ("'a'", ""), ("'a b'", "'k'", ""), ("'", ""), ("''", ""), ("'a", ""), ("a'", ""),
    ("'a.b'", ""), ("a.b", ""), (".a", ""), ("..a", ""), (" a ", ""), ("'a'.'b'", ""), ("'.'", ""), ("'..'", ""), ("", ""), (".", ""),
    ("a.", ""), ("a..b", ""), ("a", None), ("a", None, ""), ("a", "k", None), ("'x'", " k ", ""), ("a", 0, ""),
]
for args in NAMES:
    tcall(f"name{args!r}", lambda: t.name(*args))
for item in [
    {"root": "$.", "data_type": "headers", "name": ["a", ""], "after": " "},
    {"root": "$x.", "data_type": "variables", "name": ["a", "k"]},
    {"root": "", "data_type": "", "name": []},
]:
    tcall(f"_reconstruct_references({item!r})", lambda: t._reconstruct_references(item))
tcall("to_string()", lambda: t.to_string())
tcall("to_string mixed", lambda: t.to_string("a", {"root": "$.", "data_type": "csvpath", "name": ["x", ""]}, " ", ""))
tcall("to_string bad item", lambda: t.to_string("a", 1))
tcall("to_string bad dict", lambda: t.to_string({"root": "$."}))
tcall("printed()", lambda: t.printed())
tcall("printed(1,2)", lambda: t.printed(1, 2))
say("BLANK appended by parse:", repr(LarkPrintParser().parse("x").children))
lp = LarkPrintParser(csvpath="sentinel-object")
say("LarkPrintParser attrs:", lp.csvpath, lp.tree, type(lp.parser).__name__)
tr = lp.parse("q")
say("tree is kept:", lp.tree is tr)
for odd in [None, 5, "", "a\n"]:
    tcall(f"parse({odd!r})", lambda: LarkPrintParser().parse(odd).children)

# ----------------------------------------------------------------------
# 6. PrintParser internals called directly
# ----------------------------------------------------------------------
say("=" * 70)
say("SECTION 6: PrintParser internals called directly")
p = CsvPath()
p.logger.setLevel(logging.CRITICAL)
p.set_printers([])
p.parse('~ id: six ~ $odd.csv[*][ @n = count_lines() ]')
p.fast_forward()
say("headers:", p.headers, "| last line:", p.matcher.line)
pp = PrintParser(csvpath=p)
DATA = {
    "s": "str", "zero": 0, "none": None, "blank": "", "false": False,
    "lst": ["x", 0, None, "", ["in"]], "empty_lst": [], "tup": ("t0", "t1"),
    "d": {"k": "v", "zero": 0, "none": None, "blank": "", "length": "LEN", "1": "one", 1: "int-one"},
    "empty_d": {}, 1: "int key", "1": "str key", "length": "top length",
}
TRACKS = [None, "", " ", "k", "zero", "none", "blank", "length", "0", "1", "2", "3", "4", "5", "-1", "-6", "1.5", " 1 ", "x", 1, 0]
for name in ["s", "zero", "none", "blank", "false", "lst", "empty_lst", "tup", "d", "empty_d", 1, "1", "length", "missing", ""]:
    for trk in TRACKS:
        ref = {"root": "$.", "data_type": "variables", "name": [name, trk]}
        tcall(f"_ref_from_dict name={name!r} tracking={trk!r}", lambda: pp._ref_from_dict(ref, DATA, name, trk))
say("-" * 70)
for names in [["s"], ["s", ""], ["s", " "], ["s", None], ["s", "k"], ["d", "k"], ["d", " k"], ["d", 0], ["lst", "length"], ["lst", "1"], ["missing", "k"], [], [""], ["lst", "0", "extra"]]:
    for data in (DATA, ["h0", "h1"], None, "a string", 5, ()):
        ref = {"root": "$.", "data_type": "variables", "name": list(names), "data": data}
        tcall(f"_transform_reference names={names!r} data={type(data).__name__}", lambda: pp._transform_reference(ref))
tcall("_transform_reference no data key", lambda: pp._transform_reference({"name": ["a", ""]}))
tcall("_transform_reference no name key", lambda: pp._transform_reference({"data": {}}))
say("-" * 70)
for name in ["a", "b", "c", "0", "1", "2", "3", "-1", "10", "zz", "", " a", "1.0", "²", "٣", 0, 1, 7, None]:
    for trk in [None, "", "t"]:
        ref = {"root": "$.", "data_type": "headers", "name": [name, trk]}
        tcall(f"_ref_from_list name={name!r} tracking={trk!r}", lambda: pp._ref_from_list(ref, p.headers, name, trk))


class FakeResult:
    def __init__(self, csvpath):
        self.csvpath = csvpath


other = CsvPath()
other.logger.setLevel(logging.CRITICAL)
other.set_printers([])
other.parse('$quoted.csv[*][ yes() ]')
other.fast_forward()
nomatcher = CsvPath()
nomatcher.logger.setLevel(logging.CRITICAL)
for label, res in (("other", FakeResult(other)), ("no matcher", FakeResult(nomatcher))):
    for name in ["first name", "last.name", "#", "0", "2", "5", "a", ""]:
        ref = {"root": "$x.", "data_type": "headers", "name": [name, ""], "results": res}
        tcall(f"_ref_from_list via results({label}) name={name!r}", lambda: pp._ref_from_list(ref, ["ignored"], name, None))
say("-" * 70)
for ts in [
    (), ("a",), ("a", " ", "b"), ("", ""), (1, None, 2.5),
    ({"root": "$.", "data_type": "variables", "name": ["n", ""], "after": "!"},),
    ({"root": "$.", "data_type": "variables", "name": ["n", ""]},),
    ({"root": "$.", "data_type": "variables", "name": ["n", ""], "after": None},),
    ("x", {"root": "$.", "data_type": "headers", "name": ["a", ""], "after": ""}, "y", {"root": "$.", "data_type": "metadata", "name": ["id", ""], "after": ".."}),
    ({"root": "$.", "data_type": "bogus", "name": ["n", ""], "after": "!"},),
    ({"root": "$nope.", "data_type": "variables", "name": ["n", ""], "after": "!"},),
    ({"root": " $. ", "data_type": "csvpath", "name": ["identity", ""], "after": "~"},),
    ({"data_type": "csvpath", "name": ["identity", ""]},),
]:
    tcall(f"_to_string({ts!r})", lambda: pp._to_string(ts))
for nm in ["$.", " $. ", "$", "$x.", "", "$.."]:
    tcall(f"_is_local({nm!r})", lambda: pp._is_local(nm))
say("parser attr before/after transform:", PrintParser().parser, type(pp.parser).__name__ if pp.parser else None)
pp.transform("q $.variables.n")
say("parser attr after transform:", type(pp.parser).__name__, "| csvpath kept:", pp.csvpath is p)
tcall("transform without csvpath, text only", lambda: PrintParser().transform("just text.."))
tcall("transform without csvpath, local ref", lambda: PrintParser().transform("$.variables.n"))

# ----------------------------------------------------------------------
# 4. CsvPaths: named-results references, printouts captured by Results
# ----------------------------------------------------------------------
say("=" * 70)
say("SECTION 4: CsvPaths")


cp = CsvPaths()
cp.logger.setLevel(logging.CRITICAL)
cp.file_manager.add_named_file(name="plain", path="plain.csv")
cp.file_manager.add_named_file(name="odd", path="odd.csv")
cp.paths_manager.add_named_paths(
    name="first",
    paths=[
        '~ id: one description: the first ~ $[*][ @total = count_lines() @last_a = #a push("as", #a) @trk.x = #b '
        'print("one: a=$.headers.a total=$.variables.total") print.once("err once $.headers.b", "stderr") ]',
        '~ id: two ~ $[*][ #a == "4" @hit = #c print.onmatch("two: hit $.variables.hit at $.csvpath.line_number..") ]',
    ],
)
cp.paths_manager.add_named_paths(
    name="second",
    paths=[
        '~ id: refs ~ $[1-2][ print("prev total=$first.variables.total last_a=$first.variables.last_a hit=$first.variables.hit '
        'as=$first.variables.as.length as0=$first.variables.as.0 trk=$first.variables.trk.x nov=$first.variables.nov!") '
        'print("meta id=$first.metadata.id desc=$first.metadata.description..") '
        'print("hdr a=$first.headers.a b=$first.headers.1 z=$first.headers.zz") '
        'print("rt lines=$first.csvpath.count_lines total=$first.csvpath.total_lines valid=$first.csvpath.valid d=$first.csvpath.delimiter") '
        'print("none: $nothing.variables.x") '
        'print("local: $.headers.a $.variables.nov $.metadata.id $.csvpath.identity") ]'
    ],
)
for method, fname, pname in [
    ("collect_paths", "plain", "first"),
    ("fast_forward_paths", "odd", "second"),
    ("collect_paths", "plain", "second"),
    ("collect_paths", "odd", "first"),
    ("collect_paths", "plain", "second"),
]:
    say("-" * 70)
    say("RUN", method, fname, pname)
    time.sleep(1.1)
    try:
        getattr(cp, method)(filename=fname, pathsname=pname)
        say("exception: none")
    except Exception as e:  # noqa: BLE001
        say("exception:", type(e).__name__, norm(e)[:300])
    results = cp.results_manager.get_named_results(pname)
    for r in results:
        say(" result", r.csvpath.identity, "valid:", r.csvpath.is_valid, "errors:", len(r.errors or []), "lines:", len(r.lines) if r.lines is not None else None)
        say("   variables:", norm(r.csvpath.variables))
        pos = r.get_printouts() or {}
        for k in sorted(pos.keys(), key=str):
            say("   printout", repr(k), ":", len(pos[k]))
            for ln in pos[k]:
                say("      ", repr(norm(ln)))
        for e in r.errors or []:
            show_error("   error:", e)

say("-" * 70)
say("ARCHIVE")
# each run above started in its own wall-clock second, so run directory names
# are plain timestamps; they are reported by ordinal
for pname in sorted(os.listdir("archive")):
    pdir = os.path.join("archive", pname)
    if not os.path.isdir(pdir):
        say(" file", pdir)
        continue
    for n, run in enumerate(sorted(os.listdir(pdir))):
        rdir = os.path.join(pdir, run)
        label = f"archive/{pname}/<RUN {n}>"
        if not os.path.isdir(rdir):
            say(" file", f"archive/{pname}/{run}")
            continue
        for dp, dn, fn in os.walk(rdir):
            dn.sort()
            for f in sorted(fn):
                full = os.path.join(dp, f)
                shown = label + full[len(rdir):]
                say(" file", shown)
                if f in ("printouts.txt", "data.csv", "vars.json"):
                    with open(full) as fh:
                        for ln in fh.read().split("\n"):
                            say("    |" + ln)
say("DONE")
