"""Differential demo for refactoring t3 (CsvPath.next / limit_collection, CsvDataReader.next,
LineMonitor.is_last_line_and_blank).

Run in an empty scratch directory (it creates ./config, ./data, ./cache, ./archive, ...):

    mkdir -p /tmp/demo_TWC06_3 && cd /tmp/demo_TWC06_3 && \
        PYTHONPATH=<tree> /venv/bin/python /tmp/wt/TWC06.out/t3/demo.py > out.txt

The transcript printed on stdout is deterministic: nothing in it depends on the
clock, on directory iteration order, or on absolute paths.
"""
import csv
import hashlib
import io
import os
import random
import re
import shutil
import sys
import contextlib

CONFIG = """[csvpath_files]
extensions = txt, csvpath, csvpaths

[csv_files]
extensions = txt, csv, tsv, dat, tab, psv, ssv

[errors]
csvpath = raise, collect, stop, fail, print
csvpaths = raise, collect

[logging]
csvpath = info
csvpaths = info
log_file = logs/csvpath.log
log_files_to_keep = 100
log_file_size = 52428800

[config]
path = config/config.ini

[cache]
path = cache

[listeners]
[marquez]
base_url = http://localhost:5000

[functions]
imports = config/functions.imports

[results]
archive = archive
transfers = transfers

[inputs]
files = inputs/named_files
csvpaths = inputs/named_paths
on_unmatched_file_fingerprints = halt
"""

HERE = os.getcwd()


def fresh_dirs():
    for d in ("config", "data", "cache", "archive", "inputs", "logs", "transfers"):
        shutil.rmtree(os.path.join(HERE, d), ignore_errors=True)
    os.makedirs("config")
    os.makedirs("data")
    with open("config/config.ini", "w", encoding="utf-8") as f:
        f.write(CONFIG)
    with open("config/functions.imports", "w", encoding="utf-8") as f:
        f.write("")


fresh_dirs()

from csvpath import CsvPath, CsvPaths  # noqa: E402
from csvpath.util.line_counter import LineCounter  # noqa: E402
from csvpath.util.line_monitor import LineMonitor  # noqa: E402

OUT = sys.stdout


def say(*a):
    print(*a, file=OUT)


def norm(s: str) -> str:
    """normalise run-dir timestamps, absolute paths, uuids and times"""
    s = s.replace(HERE, "<HERE>")
    s = re.sub(r"\b[0-9a-f]{64}\b", "<SHA256>", s)
    s = re.sub(r"\d{4}-\d{2}-\d{2}_\d{2}-\d{2}-\d{2}([_.]\d+)?", "<RUNDIR>", s)
    s = re.sub(r"\d{4}-\d{2}-\d{2}[T ]\d{2}:\d{2}:\d{2}(\.\d+)?(\+00:00|Z)?", "<TS>", s)
    return s


# ---------------------------------------------------------------------------
# deterministic CSV generation, following the quantifier of the property
# ---------------------------------------------------------------------------
ALPHABET = [
    "a", "b", "Z", "0", "1", "7", " ", " ", "  ", ",", ";", "|", "\t", "`", '"', "'",
    "\n", "é", "ß", "日本", " ", " ", "#", "$", "[", "]", "\\", "-", ".",
    "None", "nan", "x y", "\U0001F600", "́", "0.0", "00",
]
DELIMS = [",", ";", "|", "\t"]
QUOTES = ['"', "'"]


def gen_cell(rnd):
    k = rnd.choice([0, 0, 1, 1, 2, 3, 5])
    return "".join(rnd.choice(ALPHABET) for _ in range(k))


def gen_records(rnd):
    n = rnd.randint(0, 12)
    recs = []
    for _ in range(n):
        if rnd.random() < 0.25:
            recs.append([])  # blank record
        else:
            recs.append([gen_cell(rnd) for _ in range(rnd.randint(0, 6))])
    return recs


def write_csv(path, recs, delim, quote):
    with open(path, "w", encoding="utf-8", newline="") as f:
        w = csv.writer(f, delimiter=delim, quotechar=quote)
        for r in recs:
            w.writerow(r)


def attempt(label, fn):
    """runs fn, printing either its result or the exception it raised"""
    buf = io.StringIO()
    try:
        with contextlib.redirect_stdout(buf):
            r = fn()
        say(f"{label} -> {r!r}")
    except Exception as e:  # pylint: disable=W0718
        say(f"{label} !! {type(e).__name__}: {norm(str(e))}")
    printed = buf.getvalue()
    if printed:
        say(f"{label} printed: {norm(printed)!r}")



from csvpath.util.file_readers import DataFileReader, CsvDataReader  # noqa: E402


def first_line(s: str) -> str:
    return s.splitlines()[0] if s else ""


# ---------------------------------------------------------------------------
say("=== A. LineMonitor.is_last_line_and_blank, direct")
# ---------------------------------------------------------------------------
class Cells(list):
    """a list that says when its length is asked for"""

    asked = 0

    def __len__(self):
        Cells.asked += 1
        return super().__len__()


for end in (None, -1, 0, 1, 3):
    for cur in (None, -1, 0, 1, 3):
        for line in (None, [], [""], ["a"], ["", ""], (), ("a",), "", "a", Cells(), Cells(["x"])):

            def probe():
                lm = LineMonitor()
                lm._physical_end_line_number = end
                lm._physical_line_number = cur
                Cells.asked = 0
                r = lm.is_last_line_and_blank(line)
                return (r, type(r).__name__, Cells.asked, lm.dump())

            attempt(f"A end={end} cur={cur} line={line!r}", probe)
attempt("A int line", lambda: (lambda lm: lm.is_last_line_and_blank(5))(LineMonitor()))


def walk_monitor(records):
    """feeds records to a monitor the way CsvPath does and asks the question on each line"""
    lm = LineMonitor()
    for r in records:
        lm.next_line(last_line=[], data=r)
    lm.set_end_lines_and_reset()
    out = []
    for r in records:
        lm.next_line(last_line=[], data=r)
        out.append((lm.physical_line_number, lm.is_last_line_and_blank(r), lm.is_last_line()))
    return out


for recs in ([], [[]], [["a"]], [["a"], []], [[], ["a"]], [["a"], [], []], [["a"], [""]], [[], [], []]):
    attempt(f"A walk {recs!r}", lambda: walk_monitor(recs))


# ---------------------------------------------------------------------------
say("=== B. CsvDataReader.next, direct")
# ---------------------------------------------------------------------------
FIXED = {
    "empty": [],
    "one_blank": [[]],
    "only_blanks": [[], [], []],
    "blank_then_hdr": [[], [], ["h1", "h2"], ["1", "2"]],
    "hdr_then_blank": [["h1", "h2"], [], ["1", "2"], []],
    "hdr_empty_cell": [[""], ["x"]],
    "ragged": [["a", "b", "c"], ["1"], ["1", "2", "3", "4", "5"], [], ["1", "2"]],
    "quoted": [['say "hi"', "it's", "a,b;c|d\te"], ["line\nbreak", "", " "], ["'", '"', "''", '""']],
    "unicode": [["日本", "é", "\U0001F600"], ["ß", " ", "x́"]],
    "trailing_blanks": [["a", "b"], ["1", "2"], [], []],
    "wide": [["a", "b", "c", "d", "e", "f"], ["1", "2", "3", "4", "5", "6"], ["", "", "", "", "", ""]],
}
FILES = []  # (name, path, delim, quote, records)
for name, recs in FIXED.items():
    for d in DELIMS:
        for q in QUOTES:
            dn = {",": "c", ";": "s", "|": "p", "\t": "t"}[d]
            qn = {'"': "d", "'": "s"}[q]
            path = f"data/{name}_{dn}{qn}.csv"
            write_csv(path, recs, d, q)
            FILES.append((f"{name}_{dn}{qn}", path, d, q, recs))
rnd = random.Random(30606)
for i in range(40):
    recs = gen_records(rnd)
    d = rnd.choice(DELIMS)
    q = rnd.choice(QUOTES)
    path = f"data/rnd{i:02d}.csv"
    write_csv(path, recs, d, q)
    FILES.append((f"rnd{i:02d}", path, d, q, recs))


def read_all(path, **kw):
    r = DataFileReader(path, **kw)
    lines = list(r.next())
    return (type(r).__name__, r.path, lines, [type(x).__name__ for x in lines[:2]])


for name, path, d, q, recs in FILES:
    say(f"B {name} delim={d!r} quote={q!r} records={recs!r}")
    attempt(f"B {name} own dialect", lambda: read_all(path, delimiter=d, quotechar=q))
    attempt(f"B {name} same as written", lambda: read_all(path, delimiter=d, quotechar=q)[2] == recs)
    attempt(f"B {name} default dialect", lambda: read_all(path))
    attempt(f"B {name} None dialect", lambda: read_all(path, delimiter=None, quotechar=None))
    attempt(f"B {name} direct class", lambda: list(CsvDataReader(path, delimiter=d, quotechar=q).next()))


def partial(path, n):
    r = DataFileReader(path)
    g = r.next()
    got = []
    for _ in range(n):
        got.append(next(g))
    g.close()
    again = list(r.next())
    return (got, again)


attempt("B partial then close then again", lambda: partial("data/ragged_cd.csv", 2))
attempt("B exhaust", lambda: (lambda g: (list(g), list(g)))(DataFileReader("data/ragged_cd.csv").next()))
attempt("B missing file (lazy)", lambda: DataFileReader("data/nope.csv").next().__class__.__name__)
attempt("B missing file (first next)", lambda: next(DataFileReader("data/nope.csv").next()))
attempt("B bad delimiter", lambda: read_all("data/ragged_cd.csv", delimiter=",,"))
attempt("B bad quotechar", lambda: read_all("data/ragged_cd.csv", quotechar="qq"))
attempt("B empty delimiter", lambda: read_all("data/ragged_cd.csv", delimiter=""))
attempt("B int delimiter", lambda: read_all("data/ragged_cd.csv", delimiter=5))
attempt("B sheet on csv", lambda: read_all("data/ragged_cd.csv#s"))
attempt("B sheet arg on csv", lambda: list(CsvDataReader("data/ragged_cd.csv", sheet="s").next()))
attempt("B directory", lambda: read_all("data"))
with open("data/latin1.csv", "wb") as f:
    f.write("a,b\n\xe9,1\n".encode("latin-1"))
attempt("B undecodable", lambda: read_all("data/latin1.csv"))
with open("data/unterminated.csv", "wb") as f:
    f.write(b'a,b\n"1,2\n3,4\n')
attempt("B unterminated quote", lambda: read_all("data/unterminated.csv"))
with open("data/nul.csv", "wb") as f:
    f.write(b"a,b\n1,\x002\n")
attempt("B nul", lambda: read_all("data/nul.csv"))
with open("data/crlf_in_quotes.csv", "wb") as f:
    f.write(b'a,b\r\n"x\r\ny",2\r\n')
attempt("B crlf in quotes", lambda: read_all("data/crlf_in_quotes.csv"))
with open("data/bom.csv", "wb") as f:
    f.write(b"\xef\xbb\xbfa,b\n1,2\n")
attempt("B bom", lambda: read_all("data/bom.csv"))


# ---------------------------------------------------------------------------
say("=== C. CsvPath.limit_collection, direct")
# ---------------------------------------------------------------------------
def limit_probe(indexes, line):
    p = CsvPath()
    p.parse("$data/ragged_cd.csv[*][yes()]")
    p.limit_collection_to = indexes
    r = p.limit_collection(line)
    return (r, r is line, type(r).__name__)


for indexes in ([], (), [0], [2, 0], [0, 0, 1], [1, None], [None], [5], [3], [-1], [-3, -1], [-4], [True, False], ["a"], [1.0], [0, "a"], (1, 2), "", "01"):
    for line in (["p", "q", "r"], ["p"], [], ("t", "u", "v"), "xyz", None):
        attempt(f"C limit {indexes!r} on {line!r}", lambda: limit_probe(indexes, line))


class NoLen:
    pass


attempt("C limit no len", lambda: limit_probe(NoLen(), ["p"]))
attempt("C limit None", lambda: limit_probe(None, ["p"]))


# ---------------------------------------------------------------------------
say("=== D. CsvPath.next / collect / fast_forward over files")
# ---------------------------------------------------------------------------
def run(path, d, q, skip, csvpath_body, scan="*", how="next", comment="", tweak=None):
    p = CsvPath(delimiter=d, quotechar=q, skip_blank_lines=skip)
    p.parse(f"{comment}${path}[{scan}][{csvpath_body}]")
    if tweak:
        tweak(p)
    lines = []
    raised = None
    buf = io.StringIO()
    try:
        with contextlib.redirect_stdout(buf):
            if how == "next":
                for line in p.next():
                    lines.append(line)
            elif how == "collect":
                lines = p.collect()
            elif how == "collect2":
                lines = p.collect(nexts=2)
            else:
                p.fast_forward()
    except Exception as e:  # pylint: disable=W0718
        raised = f"{type(e).__name__}: {first_line(norm(str(e)))}"
    return {
        "lines": lines,
        "raised": raised,
        "printed": norm(buf.getvalue()),
        "unmatched": p.unmatched,
        "limit": p.limit_collection_to,
        "headers": p.headers,
        "lm": p.line_monitor.dump(),
        "vars": p.variables,
        "valid": p.is_valid,
        "errors": [norm(str(e.message if hasattr(e, "message") else e)) for e in (p.errors or [])],
        "counts": (p.scan_count, p.match_count),
        "stopped": p.stopped,
        "self.lines": p.lines if p.lines is None else type(p.lines).__name__,
    }


BODIES = [
    "yes()",
    "no()",
    "#0",
    "not(#1)",
    "collect(0)",
    "collect(1, 0)",
    "collect(2)",
    "collect(5)",
    "collect(\"nope\")",
    "#1 collect(0)",
    "last() -> @last = line_number() yes()",
    "last.nocontrib() -> @last = line_number() @n = count_lines()",
    "@t = total_lines() @c = count() firstline() -> @first = line_number()",
    "line_number() == 1 -> stop()",
    "line_number() == 1 -> skip() push(\"seen\", line_number())",
    "line_number() == 0 -> advance(2) push(\"seen\", line_number())",
    "replace(0, \"R\")",
    "append(\"z\", \"Z\")",
]
for name, path, d, q, recs in FILES:
    say(f"D {name} delim={d!r} quote={q!r} records={recs!r}")
    rotate = len(name) + len(recs)
    for bi, body in enumerate(BODIES):
        if (d, q) != (",", '"') and not name.startswith("rnd") and (bi + rotate) % 5 != 0:
            continue
        if name.startswith("rnd") and (bi + rotate) % 3 != 0 and bi > 1:
            continue
        attempt(f"D {name} [{body}]", lambda: run(path, d, q, True, body))
    attempt(f"D {name} same as written", lambda: run(path, d, q, True, "yes()")["lines"] == [r for r in recs if len(r) > 0])
    attempt(f"D {name} noskip [yes()]", lambda: run(path, d, q, False, "yes()"))
    attempt(f"D {name} noskip [#0]", lambda: run(path, d, q, False, "#0"))
    attempt(f"D {name} noskip [last() -> @last = line_number()  #0]", lambda: run(path, d, q, False, "last() -> @last = line_number() #0"))
    attempt(f"D {name} noskip [collect(0)]", lambda: run(path, d, q, False, "collect(0)"))
    attempt(f"D {name} collect()", lambda: run(path, d, q, True, "yes()", how="collect"))
    attempt(f"D {name} collect(nexts=2)", lambda: run(path, d, q, True, "yes()", how="collect2"))
    attempt(f"D {name} fast_forward", lambda: run(path, d, q, True, "push(\"c0\", #0)", how="ff"))
    attempt(f"D {name} scan 1-2", lambda: run(path, d, q, True, "yes()", scan="1-2"))
    attempt(f"D {name} scan 0+3", lambda: run(path, d, q, True, "collect(0)", scan="0+3"))
    attempt(f"D {name} no-matches", lambda: run(path, d, q, True, "#1", comment="~ return-mode: no-matches ~ "))
    attempt(f"D {name} unmatched keep", lambda: run(path, d, q, True, "#1", how="collect", comment="~ unmatched-mode: keep ~ "))
    attempt(f"D {name} unmatched keep narrowed", lambda: run(path, d, q, True, "#1 collect(0)", how="collect", comment="~ unmatched-mode: keep ~ "))
    attempt(f"D {name} no-run", lambda: run(path, d, q, True, "yes()", comment="~ run-mode: no-run ~ "))


def force(value):
    def tweak(p):
        p.limit_collection = lambda line: value

    return tweak


attempt("D limit_collection gives None", lambda: run("data/ragged_cd.csv", ",", '"', True, "yes()", tweak=force(None)))
attempt("D limit_collection gives []", lambda: run("data/ragged_cd.csv", ",", '"', True, "yes()", tweak=force([])))
attempt("D limit_collection gives ()", lambda: run("data/ragged_cd.csv", ",", '"', True, "yes()", tweak=force(())))
attempt("D limit_collection gives ''", lambda: run("data/ragged_cd.csv", ",", '"', True, "yes()", tweak=force("")))
attempt("D limit_collection gives 0", lambda: run("data/ragged_cd.csv", ",", '"', True, "yes()", tweak=force(0)))
attempt("D limit_collection gives ['k']", lambda: run("data/ragged_cd.csv", ",", '"', True, "yes()", tweak=force(["k"])))
attempt("D limit_collection gives None, unmatched", lambda: run("data/ragged_cd.csv", ",", '"', True, "no()", how="collect", comment="~ unmatched-mode: keep ~ ", tweak=force(None)))
attempt("D missing file", lambda: run("data/nope.csv", ",", '"', True, "yes()"))
attempt("D preset limit", lambda: run("data/wide_cd.csv", ",", '"', True, "yes()", tweak=lambda p: setattr(p, "limit_collection_to", [4, 1])))
attempt("D preset limit too far", lambda: run("data/ragged_cd.csv", ",", '"', True, "yes()", tweak=lambda p: setattr(p, "limit_collection_to", [1])))


def rerun():
    """the same instance run twice: the second run starts from the first's state"""
    p = CsvPath()
    p.parse("$data/ragged_cd.csv[*][collect(0)]")
    a = p.collect()
    try:
        b = p.collect()
    except Exception as e:  # pylint: disable=W0718
        b = f"{type(e).__name__}: {e}"
    return (a, b, p.line_monitor.dump(), p.scan_count, p.match_count)


attempt("D rerun", rerun)


# ---------------------------------------------------------------------------
say("=== E. CsvPaths: data.csv and unmatched.csv in the archive")
# ---------------------------------------------------------------------------
def tree(root):
    out = []
    for dp, dns, fns in os.walk(root):
        dns.sort()
        for fn in sorted(fns):
            out.append(os.path.join(dp, fn))
    return out


for name in ("ragged_cd", "quoted_ss", "trailing_blanks_pd", "wide_ts", "only_blanks_cd", "rnd05", "rnd23", "rnd37"):
    _, path, d, q, recs = next(f for f in FILES if f[0] == name)
    for skip in (True, False):
        shutil.rmtree("cache", ignore_errors=True)
        shutil.rmtree("archive", ignore_errors=True)
        shutil.rmtree("inputs", ignore_errors=True)

        def group():
            cp = CsvPaths(delimiter=d, quotechar=q, skip_blank_lines=skip)
            cp.file_manager.add_named_file(name="f", path=path)
            cp.paths_manager.add_named_paths(
                name="p",
                paths=[
                    "~id:all~ $[*][yes()]",
                    "~id:some unmatched-mode:keep~ $[*][#1]",
                    "~id:narrow unmatched-mode:keep validation-mode:no-raise~ $[*][#1 collect(0)]",
                    "~id:lastly~ $[*][last() -> @last = line_number() no()]",
                ],
            )
            res = []
            buf = io.StringIO()
            for rep, how in enumerate(("collect_paths", "fast_forward_paths", "collect_by_line")):
                try:
                    with contextlib.redirect_stdout(buf):
                        if how == "collect_by_line":
                            got = list(cp.collect_by_line(filename="f", pathsname="p"))
                            res.append((rep, "by_line", got))
                        else:
                            getattr(cp, how)(filename="f", pathsname="p")
                except Exception as e:  # pylint: disable=W0718
                    res.append((rep, "raised", f"{type(e).__name__}: {first_line(norm(str(e)))}"))
                for r in cp.results_manager.get_named_results("p"):
                    res.append(
                        (
                            rep,
                            r.csvpath.identity,
                            list(r.lines.next()) if r.lines is not None else None,
                            r.csvpath.unmatched,
                            r.csvpath.variables,
                            r.csvpath.is_valid,
                            len(r.errors or []),
                        )
                    )
            res.append(("printed", norm(buf.getvalue())))
            return res

        attempt(f"E {name} skip={skip}", group)
        rundirs = sorted(os.listdir("archive/p")) if os.path.isdir("archive/p") else []
        for path2 in tree("archive"):
            path2show = path2
            for k, rd in enumerate(rundirs):
                if path2.startswith(f"archive/p/{rd}/"):
                    path2show = path2.replace(f"archive/p/{rd}/", f"archive/p/<RUN{k}>/")
                    break
            if path2.endswith(("data.csv", "unmatched.csv", "vars.json", "printouts.txt")):
                with open(path2, "rb") as f:
                    say(f"E {name} skip={skip} archive {norm(path2show)}: {norm(f.read().decode('utf-8'))!r}")
            else:
                say(f"E {name} skip={skip} archive {norm(path2show)}")

say("=== done")
