#!/usr/bin/env python
"""Differential demonstration for property C09 ("The archived results of a run
say what the run did").

Run it in an EMPTY scratch directory (it creates everything it needs below the
current working directory, including ./<scenario>/config/config.ini):

    mkdir /tmp/demo && cd /tmp/demo && PYTHONPATH=<csvpath checkout> python demo.py > out.txt

The transcript is deterministic: timestamps, uuids, run directory names, timing
floats, object addresses and the fingerprints of time-bearing files are
normalised. Everything else that is observable is printed verbatim.
"""
import contextlib
import csv
import hashlib
import io
import json
import os
import re
import shutil
import sys
import types

CONFIG = """[csvpath_files]
extensions = txt, csvpath, csvpaths

[csv_files]
extensions = txt, csv, tsv, dat, tab, psv, ssv

[errors]
csvpath = {csvpath_policy}
csvpaths = {csvpaths_policy}

[logging]
csvpath = info
csvpaths = info
log_file = logs/csvpath.log
log_files_to_keep = 100
log_file_size = 52428800

[config]
path = config/config.ini

[cache]
path = cache

[listeners]
[marquez]
base_url = http://localhost:5000

[functions]
imports = config/functions.imports

[results]
archive = archive
transfers = transfers

[inputs]
files = inputs/named_files
csvpaths = inputs/named_paths
on_unmatched_file_fingerprints = halt
"""

ROOT = os.getcwd()
OUT = []
PENDING = []

RUN_RE = re.compile(r"\d{4}-\d\d-\d\d_\d\d-\d\d-\d\d(?:\.\d+)?")
RUN_CTX_RE = re.compile(r"(?:([^/\s'\"]+)/)?(" + RUN_RE.pattern + ")")
ISO_RE = re.compile(r"\d{4}-\d\d-\d\d[T ]\d\d:\d\d:\d\d(?:\.\d+)?(?:\+00:00)?")
UUID_RE = re.compile(
    r"[0-9a-f]{8}-[0-9a-f]{4}-[0-9a-f]{4}-[0-9a-f]{4}-[0-9a-f]{12}", re.I
)
ADDR_RE = re.compile(r" at 0x[0-9a-f]+")
CTIME_RE = re.compile(r"[A-Z][a-z]{2} [A-Z][a-z]{2} [ \d]\d \d\d:\d\d:\d\d \d{4}")

RUNS = {}

VOLATILE_KEYS = {
    "time",
    "time_completed",
    "time_started",
    "uuid",
    "named_paths_uuid",
    "run_time",
    "run_started_at",
    "lines_time",
    "last_line_time",
    "named_file_last_change",
    "at",
    "run",
}


def scrub(s: str) -> str:
    s = s.replace(ROOT, "<ROOT>")

    def _run(m):
        # a run dir name is only meaningful below its named-paths directory
        ctx, name = m.group(1), m.group(2)
        label = RUNS.get((ctx, name), "<RUNTIME>")
        return f"{ctx}/{label}" if ctx is not None else "<RUNTIME>"

    s = RUN_CTX_RE.sub(_run, s)
    s = ISO_RE.sub("<TIME>", s)
    s = CTIME_RE.sub("<CTIME>", s)
    s = UUID_RE.sub("<UUID>", s)
    s = ADDR_RE.sub(" at 0x<ADDR>", s)
    return s


def emit(*parts) -> None:
    PENDING.append(" ".join(str(p) for p in parts))


def commit() -> None:
    """normalises what was emitted so far using the run dirs of the current world"""
    learn_runs()
    OUT.extend(scrub(s) for s in PENDING)
    PENDING.clear()


def flush() -> None:
    commit()
    sys.stdout.write("\n".join(OUT) + "\n")
    OUT.clear()


def _run_key(name):
    t, dot, n = name.partition(".")
    return (t, int(n) if dot else -1)


def learn_runs(archive="archive") -> None:
    """maps every run directory name to a stable ordinal: <pathsname>/RUN<k>"""
    RUNS.clear()
    if not os.path.isdir(archive):
        return
    for pathsname in sorted(os.listdir(archive)):
        d = os.path.join(archive, pathsname)
        if not os.path.isdir(d):
            continue
        names = [n for n in os.listdir(d) if RUN_RE.fullmatch(n)]
        for k, n in enumerate(sorted(names, key=_run_key)):
            RUNS[(pathsname, n)] = f"RUN{k}"


def scrub_json(o, key=None):
    if isinstance(o, dict):
        return {k: scrub_json(v, k) for k, v in o.items()}
    if isinstance(o, list):
        return [scrub_json(v, key) for v in o]
    if key in VOLATILE_KEYS:
        return None if o is None else f"<{key}>"
    if key == "trace" and isinstance(o, str):
        last = [ln for ln in o.split("\n") if ln.strip() != ""]
        return "<trace ending: " + (last[-1] if last else "") + ">"
    return o


def sha256(path) -> str:
    with open(path, "rb") as f:
        return hashlib.sha256(f.read()).hexdigest()


TIME_BEARING = ("meta.json", "errors.json")


def show_member_manifest(path, dialect) -> None:
    with open(path, "r", encoding="utf-8") as f:
        m = json.load(f)
    d = os.path.dirname(path)
    fps = m.get("file_fingerprints")
    if isinstance(fps, dict):
        shown = {}
        for name, h in fps.items():
            ondisk = os.path.join(d, name)
            ok = os.path.exists(ondisk) and sha256(ondisk) == h
            if name in TIME_BEARING:
                shown[name] = f"<sha256 agrees with bytes on disk: {ok}>"
            else:
                shown[name] = f"{h} <agrees with bytes on disk: {ok}>"
        m["file_fingerprints"] = shown
        present = sorted(
            n for n in os.listdir(d) if n != "manifest.json" and not n.startswith(".")
        )
        emit("    files on disk (w/o manifest):", present)
        emit("    fingerprinted == on disk:", sorted(fps.keys()) == present)
    emit(json.dumps(scrub_json(m), indent=2))


def dump_archive(dialect=None, roots=("archive", "transfers")) -> None:
    """prints every file below ./archive and ./transfers"""
    dialect = dialect or {}
    for root in roots:
        if not os.path.isdir(root):
            emit(f"[no {root} directory]")
            continue
        listing = []
        for dirpath, dirnames, filenames in os.walk(root):
            dirnames.sort(key=lambda n: (_run_key(n) if RUN_RE.fullmatch(n) else (n, -1)))
            if not dirnames and not filenames:
                listing.append((dirpath, None))
            for fn in sorted(filenames):
                listing.append((dirpath, fn))
        for dirpath, fn in listing:
            if fn is None:
                emit(f"--- DIR (empty) {dirpath}")
                continue
            p = os.path.join(dirpath, fn)
            emit(f"--- FILE {p} ({'%d bytes' % os.path.getsize(p) if not fn.endswith('.json') or fn == 'vars.json' else 'json'})")
            if fn == "manifest.json" and os.path.basename(os.path.dirname(dirpath)) not in (
                "",
                root,
            ) and RUN_RE.fullmatch(os.path.basename(os.path.dirname(dirpath))):
                show_member_manifest(p, dialect)
            elif fn.endswith(".json"):
                with open(p, "r", encoding="utf-8") as f:
                    raw = f.read()
                try:
                    emit(json.dumps(scrub_json(json.loads(raw)), indent=2))
                except ValueError as e:
                    emit("<<unparseable json>>", type(e).__name__, repr(raw))
            elif fn.endswith(".csv"):
                with open(p, "r", newline="", encoding="utf-8") as f:
                    raw = f.read()
                emit("raw:", repr(raw))
                rows = list(csv.reader(io.StringIO(raw, newline=""), **dialect))
                emit("parsed:", rows)
            else:
                with open(p, "r", encoding="utf-8") as f:
                    emit(repr(f.read()))


def new_world(name, *, csvpath_policy="collect, print", csvpaths_policy="collect"):
    """every scenario gets its own working directory and config"""
    if os.getcwd() != ROOT:
        commit()
    os.chdir(ROOT)
    d = os.path.join(ROOT, name)
    if os.path.exists(d):
        shutil.rmtree(d)
    os.makedirs(os.path.join(d, "config"))
    with open(os.path.join(d, "config", "config.ini"), "w", encoding="utf-8") as f:
        f.write(
            CONFIG.format(
                csvpath_policy=csvpath_policy, csvpaths_policy=csvpaths_policy
            )
        )
    with open(os.path.join(d, "config", "functions.imports"), "w") as f:
        f.write("")
    os.chdir(d)
    emit("")
    emit("=" * 100)
    emit(f"WORLD {name}: csvpath policy [{csvpath_policy}] csvpaths policy [{csvpaths_policy}]")
    emit("=" * 100)


FILES = {
    # quotes, delimiters and newlines inside cells; a blank line; ragged rows;
    # empty values; zero
    "basic": 'a,b,c\n1,2,3\n4,"x,y",6\n\n7,8\n"q""t","line\nbreak",9\n0,,\n,,\n10,11,12,13\n',
    "header_only": "a,b,c\n",
    "one_col": "a\n0\n\n\n1\n",
    "piped": "a|b|c\n1|'x|y'|3\n4|'it''s'|6\n7|'l1\nl2'|\n",
}

GROUPS = {
    "mixed": [
        '$[*][yes() print("line $.csvpath.line_number")]',
        '~id:two~ $[*][#a=="4" @x=count() @z = 0 @e = ""]',
        "~id:stopper~ $[*][ @n=count_lines() gt(@n, 2) -> stop() yes()]",
        '~id:failer files-mode: data, printouts unmatched-mode: keep~ $[*][ #a=="4" -> fail() print("seen $.csvpath.line_number") #a=="1"]',
        "~id:none~ $[*][ no() ]",
        "~id:bad-int~ $[*][ @d = int(#b) yes() ]",
        '~id:vars~ $[1*][ push("stack", #a) @last.onmatch = #c tally(#b) #b ]',
    ],
    "preceding": [
        "~id:src~ $[1*][ #b ]",
        "~id:pre source-mode: preceding~ $[*][ @c = count() yes()]",
        "~id:pre-none source-mode: preceding~ $[*][ @c = count() no()]",
        "~id:pre-pre source-mode: preceding~ $[*][ @c = count() yes()]",
    ],
    "by_line": [
        '$[*][yes() print("line $.csvpath.line_number")]',
        '~id:two~ $[*][#a=="4" @x=count() @z = 0 @e = ""]',
        "~id:stopper~ $[*][ @n=count_lines() gt(@n, 2) -> stop() yes()]",
        '~id:failer files-mode: data, printouts unmatched-mode: keep~ $[*][ #a=="4" -> fail() print("seen $.csvpath.line_number") #a=="1"]',
        "~id:none~ $[*][ no() ]",
        "~id:bad-int~ $[*][ @d = int(#b) yes() ]",
        '~id:vars~ $[1*][ push("stack", #a) @last.onmatch = #c tally(#b) #b ]',
    ],
    "tiny": ["$[*][yes()]", '~id:two~ $[*][#a=="1"]'],
    "all_stop": [
        "~id:s1~ $[*][ line_number() == 1 -> stop() yes()]",
        "~id:s2~ $[*][ line_number() == 2 -> stop() yes()]",
    ],
    "xfer": [
        '~id:xfer transfer-mode: data > tvar~ $[1*][ @tvar="out/t.csv" yes()]',
        '~id:xfer2 transfer-mode: data > d2, data > d3~ $[*][ @d2="deep/er/d.csv" @d3="d3.csv" #a=="1"]',
        # on HEAD unmatched.csv is written after the transfers are attempted
        '~id:xfer3 transfer-mode: unmatched > u2 unmatched-mode:keep~ $[*][ @u2="u.csv" #a=="1"]',
    ],
}


def show_results(cp, name) -> None:
    from csvpath.util.line_spooler import LineSpooler

    try:
        results = cp.results_manager.get_named_results(name)
    except Exception as e:  # pylint: disable=W0718
        emit(f"  no named results for {name}: {type(e).__name__}")
        return
    rm = cp.results_manager
    emit(
        f"  results_manager: number={rm.get_number_of_results(name)} valid={rm.is_valid(name)}"
        f" has_errors={rm.has_errors(name)} has_lines={rm.has_lines(name)}"
    )
    emit(f"  results_manager.get_variables: {json.dumps(rm.get_variables(name), sort_keys=True, default=str)}")
    for r in results:
        ls = r.lines
        kind = type(ls).__name__
        if isinstance(ls, LineSpooler):
            listed = list(ls.next())
            emit(
                f"  [{r.identity_or_index}] lines kind={kind} len={len(ls)} closed={ls.closed} bytes_written={ls.bytes_written()} sink={ls.sink}"
            )
        else:
            listed = ls
            emit(f"  [{r.identity_or_index}] lines kind={kind}")
        emit(f"    lines={listed}")
        emit(f"    len(result)={len(r)} unmatched={r.unmatched}")
        emit(f"    variables={json.dumps(r.variables, default=str)}")
        emit(
            f"    is_valid={r.is_valid} csvpath.is_valid={r.csvpath.is_valid} stopped={r.csvpath.stopped} completed={r.csvpath.completed}"
        )
        emit(f"    errors_count={r.errors_count} errors={[e.error for e in r.errors]}")
        emit(f"    printouts={r.get_printouts()}")
        emit(f"    run_index={r.run_index} by_line={r.by_line} source_mode_preceding={r.source_mode_preceding}")
        emit(f"    run_dir={r.run_dir} instance_dir={r.instance_dir} data_file_path={r.data_file_path}")
        # the property: what is on disk is what is in memory
        idir = r.instance_dir
        try:
            with open(os.path.join(idir, "vars.json"), encoding="utf-8") as f:
                emit(f"    vars.json == variables: {json.load(f) == json.loads(json.dumps(r.variables))}")
            with open(os.path.join(idir, "errors.json"), encoding="utf-8") as f:
                emit(
                    f"    errors.json == errors: {json.load(f) == json.loads(json.dumps([e.to_json() for e in r.errors]))}"
                )
        except Exception as e:  # pylint: disable=W0718
            emit(f"    could not compare vars/errors: {type(e).__name__}")
        man = rm.get_specific_named_result_manifest(name, r.csvpath.identity)
        if man is not None:
            emit(
                f"    manifest says: valid={man.get('valid')} completed={man.get('completed')} files_expected={man.get('files_expected')} file_count={man.get('file_count')}"
            )


def run_method(cp, method, *, filename, pathsname, **kw) -> None:
    emit("")
    emit(f"### {method}(filename={filename}, pathsname={pathsname}{''.join(', %s=%s' % i for i in kw.items())})")
    buf = io.StringIO()
    try:
        with contextlib.redirect_stdout(buf):
            if method in ("next_paths", "next_by_line"):
                ret = []
                for line in getattr(cp, method)(filename=filename, pathsname=pathsname, **kw):
                    ret.append(list(line))
            else:
                ret = getattr(cp, method)(filename=filename, pathsname=pathsname, **kw)
        emit(f"  returned: {ret}")
    except Exception as e:  # pylint: disable=W0718
        emit(f"  RAISED {type(e).__name__}: {e}")
    emit(f"  stdout: {buf.getvalue()!r}")
    show_results(cp, pathsname)
    # run directory names are only known (and so only normalised) after the run
    commit()


def make_csvpaths(files, groups, **kw):
    from csvpath import CsvPaths

    cp = CsvPaths(**kw)
    for name in files:
        p = f"{name}.csv"
        with open(p, "w", newline="", encoding="utf-8") as f:
            f.write(FILES[name])
        cp.file_manager.add_named_file(name=name, path=p)
    for name in groups:
        cp.paths_manager.add_named_paths(name=name, paths=GROUPS[name])
    return cp


SERIAL = ("collect_paths", "fast_forward_paths", "next_paths")
BREADTH = ("collect_by_line", "fast_forward_by_line", "next_by_line")


def common_scenarios() -> None:
    # ------------------------------------------------------------------
    # 1. all six methods over the files, one world per method so that the
    #    archive listing of each is small enough to read
    # ------------------------------------------------------------------
    for method in SERIAL:
        new_world(f"w_{method}")
        cp = make_csvpaths(
            ["basic", "header_only", "one_col"], ["mixed", "preceding", "tiny", "all_stop"]
        )
        for fname, group in (
            ("basic", "mixed"),
            ("basic", "preceding"),
            ("header_only", "tiny"),
            ("one_col", "tiny"),
            ("basic", "all_stop"),
        ):
            kw = {"collect": True} if method == "next_paths" and fname != "one_col" else {}
            run_method(cp, method, filename=fname, pathsname=group, **kw)
        dump_archive()
    for method in BREADTH:
        new_world(f"w_{method}")
        cp = make_csvpaths(["basic", "header_only", "one_col"], ["by_line", "tiny", "all_stop"])
        for fname, group, kw in (
            ("basic", "by_line", {}),
            ("header_only", "tiny", {}),
            ("one_col", "tiny", {"if_all_agree": True}),
            ("basic", "all_stop", {"collect_when_not_matched": True}),
        ):
            if method == "next_by_line":
                kw = dict(kw, collect=True)
            run_method(cp, method, filename=fname, pathsname=group, **kw)
        dump_archive()

    # ------------------------------------------------------------------
    # 2. a non-default dialect: data.csv must be written so it reads back
    # ------------------------------------------------------------------
    new_world("w_dialect")
    cp = make_csvpaths(["piped"], ["tiny", "mixed"], delimiter="|", quotechar="'")
    run_method(cp, "collect_paths", filename="piped", pathsname="tiny")
    run_method(cp, "collect_by_line", filename="piped", pathsname="tiny")
    run_method(cp, "collect_paths", filename="piped", pathsname="mixed")
    dump_archive({"delimiter": "|", "quotechar": "'"})

    # ------------------------------------------------------------------
    # 3. repeated runs: same instance, same names; then a second instance
    # ------------------------------------------------------------------
    new_world("w_repeat")
    cp = make_csvpaths(["basic"], ["tiny"])
    for _ in range(3):
        run_method(cp, "collect_paths", filename="basic", pathsname="tiny")
    run_method(cp, "fast_forward_paths", filename="basic", pathsname="tiny")
    cp2 = make_csvpaths(["basic"], ["tiny"])
    run_method(cp2, "collect_by_line", filename="basic", pathsname="tiny")
    emit("  named results listed:", cp2.results_manager.list_named_results())
    dump_archive()

    # ------------------------------------------------------------------
    # 4. error policy includes raise: the run ends with an exception
    # ------------------------------------------------------------------
    new_world("w_raise", csvpath_policy="raise, collect, stop, fail, print", csvpaths_policy="raise, collect")
    cp = make_csvpaths(["basic"], ["mixed", "by_line"])
    run_method(cp, "collect_paths", filename="basic", pathsname="mixed")
    run_method(cp, "next_paths", filename="basic", pathsname="mixed", collect=True)
    run_method(cp, "collect_by_line", filename="basic", pathsname="by_line")
    dump_archive()

    # ------------------------------------------------------------------
    # 5. quiet policy: errors are neither collected nor raised
    # ------------------------------------------------------------------
    new_world("w_quiet", csvpath_policy="quiet", csvpaths_policy="quiet")
    cp = make_csvpaths(["basic"], ["mixed"])
    run_method(cp, "fast_forward_paths", filename="basic", pathsname="mixed")
    dump_archive()

    # ------------------------------------------------------------------
    # 6. transfers are done by save() before the result is serialized
    # ------------------------------------------------------------------
    new_world("w_transfer")
    cp = make_csvpaths(["basic"], ["xfer"])
    run_method(cp, "collect_paths", filename="basic", pathsname="xfer")
    # on HEAD a transfer of a data.csv that was never written raises
    run_method(cp, "fast_forward_paths", filename="basic", pathsname="xfer")
    dump_archive()

    # ------------------------------------------------------------------
    # 7. unknown names
    # ------------------------------------------------------------------
    new_world("w_unknown")
    cp = make_csvpaths(["basic"], ["tiny"])
    run_method(cp, "collect_paths", filename="nope", pathsname="tiny")
    run_method(cp, "collect_paths", filename="basic", pathsname="nope")
    run_method(cp, "fast_forward_by_line", filename="nope", pathsname="tiny")
    dump_archive()
    flush()


# ======================================================================
# t1 specific: ResultRegistrar.all_expected_files / file_fingerprints /
# _fingerprint / has_file / completed, driven directly over every
# combination of files present in the instance directory
# ======================================================================
def registrar_scenarios() -> None:
    import itertools
    from csvpath import CsvPaths
    from csvpath.managers.results.result_registrar import ResultRegistrar
    from csvpath.managers.results.result_serializer import ResultSerializer

    new_world("w_registrar")
    cp = CsvPaths()
    names = ["data.csv", "meta.json", "unmatched.csv", "printouts.txt", "errors.json", "vars.json"]
    extra = ["manifest.json", "other.txt"]
    expectations = [
        None,
        [],
        (),
        ["all"],
        ["data"],
        ["no-data"],
        ["unmatched"],
        ["no-unmatched"],
        ["printouts"],
        ["no-printouts"],
        ["vars"],
        ["errors", "meta"],
        ["bogus"],
        [""],
        ["  data  ", "\tunmatched\n"],
        ["data", "no-data"],
        ["no-data", "no-unmatched", "no-printouts"],
        ["data", "unmatched", "printouts"],
        ["all", "no-printouts"],
        ["database", "allowed", "printouts-please", "no-datum", "no-data-at-all"],
        ["vars", "errors", "meta", "data", "unmatched", "printouts"],
        ["database", "allowed"],
        ["no-datum", "no-data-at-all", "printouts-please"],
        ["no-", "no", "al", "dat"],
    ]
    subsets = []
    for n in range(len(names) + 1):
        subsets.extend(itertools.combinations(names, n))
    emit(f"  {len(subsets)} subsets of {names}")
    run_dir = os.path.join("archive", "grp", "2024-01-01_00-00-00")
    rs = ResultSerializer("archive")
    for exp in expectations:
        bits = []
        for k, subset in enumerate(subsets):
            ident = f"inst{k}"
            idir = os.path.join(run_dir, ident)
            if os.path.exists(idir):
                shutil.rmtree(idir)
            os.makedirs(idir)
            for j, name in enumerate(subset):
                with open(os.path.join(idir, name), "w", encoding="utf-8") as f:
                    f.write(f"{name}:{j}:{k}\n" * j)
            csvpath = types.SimpleNamespace(all_expected_files=exp, completed=(k % 2 == 0))
            result = types.SimpleNamespace(run_dir=run_dir, identity_or_index=ident, csvpath=csvpath)
            rr = ResultRegistrar(csvpaths=cp, result=result, result_serializer=rs)
            try:
                v = rr.all_expected_files
                bits.append("1" if v is True else "0" if v is False else f"?{v!r}")
            except Exception as e:  # pylint: disable=W0718
                bits.append(f"!{type(e).__name__}")
            if exp is None:
                # fingerprints, in manifest order, checked against the bytes
                fps = rr.file_fingerprints
                emit(
                    f"    subset {k:2d} fingerprints keys={list(fps.keys())} agree={all(sha256(os.path.join(idir, n)) == h for n, h in fps.items())}"
                    f" completed={rr.completed} has_file={[rr.has_file(n) for n in names + extra]}"
                )
                emit(f"        values={list(fps.values())}")
        emit(f"  expected={exp!r}: {''.join(bits)}")
    # a token that is not a string fails the same way
    for exp in ([None], [1], "data", "all", "xyz", 0, 5):
        csvpath = types.SimpleNamespace(all_expected_files=exp, completed=None)
        result = types.SimpleNamespace(run_dir=run_dir, identity_or_index="inst63", csvpath=csvpath)
        rr = ResultRegistrar(csvpaths=cp, result=result, result_serializer=rs)
        try:
            emit(f"  expected={exp!r}: {rr.all_expected_files!r} completed={rr.completed!r}")
        except Exception as e:  # pylint: disable=W0718
            emit(f"  expected={exp!r}: RAISED {type(e).__name__}: {e}")
    # _fingerprint on its own: missing file, empty file, directory
    rr = ResultRegistrar(csvpaths=cp, result=result, result_serializer=rs)
    open("empty.bin", "wb").close()
    with open("some.bin", "wb") as f:
        f.write(b"\x00\x01\r\n\xff" * 1000)
    for p in ("missing.bin", "empty.bin", "some.bin", "archive"):
        try:
            emit(f"  _fingerprint({p}) = {rr._fingerprint(p)}")
        except Exception as e:  # pylint: disable=W0718
            emit(f"  _fingerprint({p}) RAISED {type(e).__name__}")
    # the instance dir is created on demand by has_file / file_fingerprints
    result = types.SimpleNamespace(
        run_dir=run_dir,
        identity_or_index="never-made",
        csvpath=types.SimpleNamespace(all_expected_files=["no-data"], completed=False),
    )
    rr = ResultRegistrar(csvpaths=cp, result=result, result_serializer=rs)
    emit(f"  before: exists={os.path.exists(os.path.join(run_dir, 'never-made'))}")
    emit(f"  all_expected_files={rr.all_expected_files} fingerprints={rr.file_fingerprints}")
    emit(f"  after: exists={os.path.exists(os.path.join(run_dir, 'never-made'))} listing={os.listdir(os.path.join(run_dir, 'never-made'))}")
    commit()


if __name__ == "__main__":
    registrar_scenarios()
    common_scenarios()
