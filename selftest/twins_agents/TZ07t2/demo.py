#!/usr/bin/env python
"""Differential demonstration for property C07:
   "collect(), next() and fast_forward() are the same run".

Run in an EMPTY scratch directory (it writes ./config, ./data, ./archive, ./logs, ...):

    mkdir /tmp/demo && cd /tmp/demo && PYTHONPATH=<csvpath tree> /venv/bin/python demo.py > out.txt

The script prints a deterministic transcript of everything observable: returned
lines, variables, counters, validity, stop state, errors, printouts, unmatched
lines and (for CsvPaths runs) the archive. Timestamps, uuids, timings, object
addresses and run directory names are normalised.
"""
import io
import json
import os
import re
import shutil
import sys
import traceback
from contextlib import redirect_stdout

#
# lark lists the terminals it expected in set order, which follows the string
# hash seed. pin the seed so that the transcript is the same run after run.
#
if os.environ.get("PYTHONHASHSEED") != "0":
    os.environ["PYTHONHASHSEED"] = "0"
    os.execv(sys.executable, [sys.executable] + sys.argv)

CONFIG_INI = """[csvpath_files]
extensions = txt, csvpath, csvpaths

[csv_files]
extensions = txt, csv, tsv, dat, tab, psv, ssv

[errors]
csvpath = raise, collect, stop, fail, print
csvpaths = raise, collect

[logging]
csvpath = info
csvpaths = info
log_file = logs/csvpath.log
log_files_to_keep = 100
log_file_size = 52428800

[config]
path = config/config.ini

[cache]
path = cache

[listeners]
[marquez]
base_url = http://localhost:5000

[functions]
imports = config/functions.imports

[results]
archive = archive
transfers = transfers

[inputs]
files = inputs/named_files
csvpaths = inputs/named_paths
on_unmatched_file_fingerprints = halt
"""


def setup_env():
    for d in ["archive", "cache", "inputs", "logs", "data", "transfers", "config"]:
        if os.path.exists(d):
            shutil.rmtree(d)
    os.makedirs("config")
    os.makedirs("data")
    with open("config/config.ini", "w", encoding="utf-8") as f:
        f.write(CONFIG_INI)
    with open("config/functions.imports", "w", encoding="utf-8") as f:
        f.write("")


setup_env()

from csvpath import CsvPath, CsvPaths  # noqa: E402  pylint: disable=C0413
from csvpath.util.printer import Printer  # noqa: E402
from csvpath.util.file_readers import DataFileReader  # noqa: E402
from csvpath.matching.util.print_parser import PrintParser  # noqa: E402

CWD = os.getcwd()
OUT = sys.stdout

# ------------------------------------------------------------------
# normalisation and output helpers
# ------------------------------------------------------------------
RUN_DIR = re.compile(r"\d{4}-\d{2}-\d{2}_\d{2}-\d{2}-\d{2}(_\d+)?")
ADDR = re.compile(r"0x[0-9a-fA-F]+")
STAMP = re.compile(r"\d{4}-\d{2}-\d{2}[ T]\d{2}:\d{2}:\d{2}(\.\d+)?(\+00:00)?")
VOLATILE = {
    "time",
    "uuid",
    "run_time",
    "lines_time",
    "last_line_time",
    "run_started_at",
    "at",
    "trace",
    "named_paths_uuid",
    "time_completed",
    "named_file_last_change",
    "last_change",
}
VOLATILE_PRINTS = [
    re.compile(r"(lines_time|last_line_time)[^\d]{1,6}[\d\.]+"),
]


def norm(s) -> str:
    s = f"{s}"
    s = s.replace(CWD, "<CWD>")
    s = RUN_DIR.sub("<RUN>", s)
    s = STAMP.sub("<STAMP>", s)
    s = ADDR.sub("0xADDR", s)
    return s


def out(*args):
    print(norm(" ".join(f"{a}" for a in args)), file=OUT)


def j(o) -> str:
    def default(x):
        return f"<{x.__class__.__name__}:{x}>"

    try:
        return json.dumps(o, default=default)
    except Exception as e:  # pylint: disable=W0718
        return f"<unjsonable {e.__class__.__name__}> {o!r}"


class CapPrinter(Printer):
    """captures everything printed, in order, with the printer name"""

    def __init__(self):
        self.lines = []

    @property
    def lines_printed(self) -> int:
        return len(self.lines)

    @property
    def last_line(self) -> str:
        return self.lines[-1][1] if self.lines else None

    def print(self, string: str) -> None:
        self.print_to(None, string)

    def print_to(self, name: str, string: str) -> None:
        self.lines.append((name, string))


class Appender:
    """an append-only lines object like the ones CsvPaths hands to collect()"""

    def __init__(self):
        self.got = []

    def append(self, line):
        self.got.append(line)

    def __len__(self):
        return len(self.got)


def exc_str(e) -> str:
    return f"{e.__class__.__name__}: {norm(e)}"


def dump_errors(errors, indent="    "):
    if errors is None:
        out(f"{indent}errors: None")
        return
    out(f"{indent}errors: {len(errors)}")
    for e in errors:
        out(
            f"{indent}  - line:{e.line_count} scan:{e.scan_count} match:{e.match_count}",
            f"class:{e.error.__class__.__name__ if e.error is not None else None}",
            f"error:{e.error}",
            f"message:{e.message}",
            f"source:{e.source}",
            f"datum:{e.datum}",
            f"filename:{e.filename}",
        )
        out(f"{indent}    json:{' '.join(f'{e.json}'.split())}")


def dump_path(p, printer=None, indent="    "):
    out(f"{indent}variables: {j(p.variables)}")
    out(
        f"{indent}is_valid:{p.is_valid} stopped:{p.stopped} aborted:{getattr(p, 'aborted', None)}",
        f"scan_count:{p.scan_count} match_count:{p.match_count}",
        f"current_match_count:{p._current_match_count} advance:{p.advance_count}",
        f"frozen:{p.is_frozen} collecting:{p.collecting}",
    )
    try:
        out(f"{indent}completed:{p.completed}")
    except Exception as e:  # pylint: disable=W0718
        out(f"{indent}completed: raised {exc_str(e)}")
    lm = p._line_monitor
    out(f"{indent}line_monitor: {lm.dump() if lm is not None else None}")
    if lm is not None and lm.last_line is not None:
        ll = lm.last_line
        out(
            f"{indent}last_line_stats: nonblank:{ll.last_line_nonblank} number:{ll.last_line_number} data_number:{ll.last_data_line_number}"
        )
    out(f"{indent}headers: {j(p._headers)}")
    out(f"{indent}limit_collection_to: {j(p.limit_collection_to)}")
    out(f"{indent}unmatched: {j(p.unmatched)}")
    out(f"{indent}lines attr: {None if p.lines is None else p.lines.__class__.__name__}")
    out(f"{indent}metadata: {j(p.metadata)}")
    out(f"{indent}has_errors: {p.has_errors()}")
    dump_errors(p.errors, indent)
    if printer is not None:
        out(f"{indent}printouts: {len(printer.lines)}")
        for name, s in printer.lines:
            for pat in VOLATILE_PRINTS:
                s = pat.sub(r"\1=<T>", f"{s}")
            out(f"{indent}  | [{name}] {s}")


def new_path(policy=None, **kw):
    p = CsvPath(print_default=False, **kw)
    printer = CapPrinter()
    p.add_printer(printer)
    if policy is not None:
        p.config.csvpath_errors_policy = policy
    return p, printer


def write(name, text):
    path = os.path.join("data", name)
    with open(path, "w", encoding="utf-8", newline="") as f:
        f.write(text)
    return path


# ------------------------------------------------------------------
# data files
# ------------------------------------------------------------------
FILES = {}
FILES["basic"] = write(
    "basic.csv",
    "a,b,c\n1,2,3\n4,5,6\n0,,x\n7,8,9\n4,0,\n10,11,12\n",
)
FILES["blanks"] = write(
    "blanks.csv",
    "a,b,c\n1,2,3\n\n4,5,6\n   \n\n7,8,9\n\n",
)
FILES["ragged"] = write(
    "ragged.csv",
    "a,b,c\n1\n4,5\n7,8,9,10,11\n,,\n4,5,6\n",
)
FILES["empty"] = write("empty.csv", "")
FILES["header_only"] = write("header_only.csv", "a,b,c\n")
FILES["one_blank"] = write("one_blank.csv", "\n")
FILES["no_newline_end"] = write("nonl.csv", "a,b,c\n1,2,3\n4,5,6")
FILES["quoted"] = write(
    "quoted.csv",
    "a;'b b';c\n1;'x;y';3\n4;'';6\n'0';z;''\n",
)
FILES["words"] = write(
    "words.csv",
    "first name,last.name,say\nKermit,Frog,ribbit...\nFish,Bat,\"glug, glug\"\nAnt,Bat,$nicker\nFrog,Bat,ribbit...\n",
)


def run_modes(title, template, fname, *, policy=None, ctor=None, nexts_extra=True):
    """runs one csvpath against one file with collect(), next(), fast_forward(),
    collect(nexts=n) for n in 0..matches+1 and prints the end state of each."""
    ctor = ctor or {}
    csvpath = template.replace("{f}", FILES[fname])
    out("")
    out("=" * 70)
    out(f"CASE {title} [{fname}] policy={policy} ctor={ctor}")
    out(f"  csvpath: {' '.join(csvpath.split())}")
    nmatches = 0
    #
    # collect()
    #
    p, pr = new_path(policy, **ctor)
    out("  -- collect()")
    try:
        p.parse(csvpath)
        lines = p.collect()
        nmatches = len(lines)
        out(f"    returned {lines.__class__.__name__}: {j(lines)}")
    except Exception as e:  # pylint: disable=W0718
        out(f"    raised {exc_str(e)}")
    dump_path(p, pr)
    #
    # next()
    #
    p, pr = new_path(policy, **ctor)
    out("  -- next()")
    got = []
    try:
        p.parse(csvpath)
        for line in p.next():
            got.append(line[:])
            out(
                f"    yielded {j(line)} at line {p.line_monitor.physical_line_number} scan:{p.scan_count} match:{p.match_count} vars:{j(p.variables)}"
            )
    except Exception as e:  # pylint: disable=W0718
        out(f"    raised {exc_str(e)}")
    out(f"    all yielded: {j(got)}")
    dump_path(p, pr)
    #
    # fast_forward()
    #
    p, pr = new_path(policy, **ctor)
    out("  -- fast_forward()")
    try:
        p.parse(csvpath)
        r = p.fast_forward()
        out(f"    returned {r}")
    except Exception as e:  # pylint: disable=W0718
        out(f"    raised {exc_str(e)}")
    dump_path(p, pr)
    #
    # collect(nexts=n)
    #
    if nexts_extra:
        for n in range(0, nmatches + 2):
            p, pr = new_path(policy, **ctor)
            out(f"  -- collect(nexts={n})")
            try:
                p.parse(csvpath)
                lines = p.collect(nexts=n)
                out(f"    returned: {j(lines)}")
            except Exception as e:  # pylint: disable=W0718
                out(f"    raised {exc_str(e)}")
            dump_path(p, pr)


def run_on_demand(title, template, fname, policy=None):
    """the csvpath is handed to collect()/next()/fast_forward() rather than parse()"""
    csvpath = template.replace("{f}", FILES[fname])
    out("")
    out("=" * 70)
    out(f"ON-DEMAND PARSE {title} [{fname}]")
    for mode in ["collect", "next", "fast_forward", "collect_nexts_2", "collect_bad_nexts"]:
        p, pr = new_path(policy)
        out(f"  -- {mode}(csvpath)")
        try:
            if mode == "collect":
                out(f"    returned: {j(p.collect(csvpath))}")
            elif mode == "next":
                out(f"    yielded: {j([_[:] for _ in p.next(csvpath)])}")
            elif mode == "fast_forward":
                out(f"    returned: {p.fast_forward(csvpath)}")
            elif mode == "collect_nexts_2":
                out(f"    returned: {j(p.collect(csvpath, nexts=2))}")
            elif mode == "collect_bad_nexts":
                out(f"    returned: {j(p.collect(csvpath, nexts=-2))}")
        except Exception as e:  # pylint: disable=W0718
            out(f"    raised {exc_str(e)}")
        dump_path(p, pr)


def run_repeats(title, template, fname, policy=None):
    """more than one run on the same instance, generators dropped half way,
    collecting into a caller supplied object"""
    csvpath = template.replace("{f}", FILES[fname])
    out("")
    out("=" * 70)
    out(f"REPEATS {title} [{fname}]")
    out(f"  csvpath: {' '.join(csvpath.split())}")
    # collect twice
    p, pr = new_path(policy)
    try:
        p.parse(csvpath)
        out(f"  collect #1: {j(p.collect())}")
        dump_path(p, pr)
        out(f"  collect #2: {j(p.collect())}")
        dump_path(p, pr)
        out(f"  fast_forward #3: {p.fast_forward()}")
        dump_path(p, pr)
    except Exception as e:  # pylint: disable=W0718
        out(f"  raised {exc_str(e)}")
        dump_path(p, pr)
    # take two from next(), close, then collect the rest
    p, pr = new_path(policy)
    try:
        p.parse(csvpath)
        gen = p.next()
        taken = []
        for line in gen:
            taken.append(line[:])
            if len(taken) == 2:
                break
        gen.close()
        out(f"  next() took: {j(taken)} then closed")
        dump_path(p, pr)
        out(f"  collect() afterwards: {j(p.collect())}")
        dump_path(p, pr)
    except Exception as e:  # pylint: disable=W0718
        out(f"  raised {exc_str(e)}")
        dump_path(p, pr)
    # collect(nexts=1) then collect(nexts=1) then fast_forward
    p, pr = new_path(policy)
    try:
        p.parse(csvpath)
        out(f"  collect(nexts=1) #1: {j(p.collect(nexts=1))}")
        dump_path(p, pr)
        out(f"  collect(nexts=1) #2: {j(p.collect(nexts=1))}")
        dump_path(p, pr)
        out(f"  fast_forward: {p.fast_forward()}")
        dump_path(p, pr)
    except Exception as e:  # pylint: disable=W0718
        out(f"  raised {exc_str(e)}")
        dump_path(p, pr)
    # caller supplied lines object
    p, pr = new_path(policy)
    try:
        p.parse(csvpath)
        a = Appender()
        r = p.collect(lines=a)
        out(f"  collect(lines=Appender) returned same object: {r is a}; got: {j(a.got)}")
        dump_path(p, pr)
        p2, pr2 = new_path(policy)
        p2.parse(csvpath)
        mine = [["sentinel"]]
        r = p2.collect(lines=mine, nexts=2)
        out(f"  collect(lines=list, nexts=2) returned same object: {r is mine}; got: {j(mine)}")
        dump_path(p2, pr2)
    except Exception as e:  # pylint: disable=W0718
        out(f"  raised {exc_str(e)}")
        dump_path(p, pr)


def run_by_hand(title, template, fname, policy=None, ctor=None):
    """drives track_line()/_consider_line()/limit_collection() the way CsvPaths
    does when it runs csvpaths breadth first"""
    ctor = ctor or {}
    csvpath = template.replace("{f}", FILES[fname])
    out("")
    out("=" * 70)
    out(f"BY HAND {title} [{fname}]")
    out(f"  csvpath: {' '.join(csvpath.split())}")
    p, pr = new_path(policy, **ctor)
    try:
        p.parse(csvpath)
        reader = DataFileReader(
            p.scanner.filename, delimiter=p.delimiter, quotechar=p.quotechar
        )
        for line in reader.next():
            if p.stopped:
                out(f"    (stopped; not considering {j(line)})")
                continue
            p.track_line(line)
            try:
                b = p._consider_line(line)
            except Exception as e:  # pylint: disable=W0718
                out(f"    _consider_line({j(line)}) raised {exc_str(e)}")
                continue
            kept = None
            if b:
                try:
                    kept = p.limit_collection(line)
                except Exception as e:  # pylint: disable=W0718
                    kept = f"raised {exc_str(e)}"
            else:
                kept = p._limit_unmatched(line)
            out(
                f"    line {p.line_monitor.physical_line_number} {j(line)} -> {b} kept:{j(kept)}",
                f"scan:{p.scan_count} match:{p.match_count} cur:{p._current_match_count}",
                f"advance:{p.advance_count} stopped:{p.stopped} frozen:{p.is_frozen} valid:{p.is_valid}",
                f"vars:{j(p.variables)}",
            )
        p.finalize()
        p.finalize()
    except Exception as e:  # pylint: disable=W0718
        out(f"  raised {exc_str(e)}")
    dump_path(p, pr)


# ------------------------------------------------------------------
# the csvpaths
# ------------------------------------------------------------------
SCANS = [
    "[*]",
    "[1*]",
    "[3*]",
    "[2]",
    "[1-3]",
    "[3-1]",
    "[1+3+5]",
    "[0-1+4]",
    "[5+1]",
    "[2-99]",
    "[99]",
    "[0]",
]

MATCHES = [
    ("yes", "[yes()]"),
    ("no", "[no()]"),
    ("header-exists", "[#b]"),
    ("eq-zero", '[#a == 0]'),
    ("eq-4-count", '[#a == "4" @n = count() @l = count_lines() @s = count_scans()]'),
    ("stop-at-4", '[@l = count_lines() stop(#a == "4")]'),
    ("stop-when-then", '[#a == "4" -> stop() push("seen", #a)]'),
    ("skip-4", '[skip(#a == "4") push("seen", #a)]'),
    ("advance-2", '[#a == "1" -> advance(2) push("seen", #a)]'),
    ("advance-far", '[#a == "4" -> advance(99) push("seen", #a)]'),
    ("fail-5", '[#b == "5" -> fail() @v = count_lines()]'),
    ("fail-and-stop", '[#b == "5" -> fail_and_stop() @v = count_lines()]'),
    (
        "last",
        '[last() -> print("last: line $.csvpath.line_number, matches $.csvpath.count_matches") @x = count_lines() last.nocontrib() -> @done = "yes"]',
    ),
    ("firstline", '[firstline() -> @first = #a  @c.onmatch = count()]'),
    ("tally", '[tally(#a) @t.onmatch = count() #b]'),
    ("onmatch-voted-down", '[#a @c.onmatch = count() print.onmatch("m:$.csvpath.count_matches") not.onmatch(#c == "6")]'),
    ("after-blank", '[after_blank() push("ab", count_lines())]'),
    ("total-lines", '[@t = total_lines() @ln = line_number() #a == "4"]'),
    ("reset-headers", '[#a == "4" -> reset_headers() push("hs", header_name(0)) #0]'),
]

PRINTS = [
    ("print-plain", '[yes() print("just text, no references")]'),
    (
        "print-refs",
        '[@n = count_lines() push("s", #a) @t.k = #b print("n=$.variables.n a=$.headers.a b=$.headers.1 s0=$.variables.s.0 len=$.variables.s.length t=$.variables.t.k id=$.metadata.id line=$.csvpath.line_number scans=$.csvpath.count_scans matches=$.csvpath.count_matches total=$.csvpath.total_lines..")]',
    ),
    (
        "print-escapes",
        '[yes() print("value: $.headers.a.. Next sentence. $.headers.c... and $.headers.b") print("second print: $.csvpath.count_lines; $.csvpath.identity, done")]',
    ),
    ("print-once", '[yes() print.once("once at $.csvpath.line_number")]'),
    ("print-onchange", '[yes() print.onchange("b is $.headers.b")]'),
    ("print-onmatch", '[#a == "4" print.onmatch("matched $.csvpath.count_matches on $.csvpath.line_number")]'),
    ("print-named", '[yes() print("to a named printer $.headers.a", "special") print("to default $.headers.b")]'),
    ("print-then-fn", '[@c = count_lines() print("then stop at $.variables.c", stop(@c == 3))]'),
    ("print-unknown", '[yes() print("nothing here: $.variables.nope and $.headers.nope and $.metadata.nope")]'),
    ("print-bad-ref", '[yes() print("costs $5 or $.oops.a")]'),
    ("print-empty", '[yes() print("")]'),
    ("print-headers", '[firstline() -> print("headers are $.csvpath.headers")]'),
]

WORD_PRINTS = [
    (
        "print-quoted-names",
        "[yes() print(\"$.headers.'first name' $.headers.'last.name' says $.headers.say..\")]",
    ),
    (
        "print-var-quoted",
        "[@full = concat(#0, \" \", #1) tally(#1) print(\"$.variables.full / $.variables.'full' / bats: $.variables.'last.name'.Bat\")]",
    ),
]

MODES = [
    ("no-matches", "~ return-mode: no-matches ~ ${f}[*][#a == \"4\" @c = count()]"),
    ("logic-or", "~ logic-mode: OR ~ ${f}[*][#a == \"4\" #b == \"2\" @c = count_lines()]"),
    ("no-run", "~ run-mode: no-run ~ ${f}[*][yes() @c = count_lines() print(\"never\")]"),
    ("unmatched-keep", "~ id: keeper unmatched-mode: keep ~ ${f}[*][#a == \"4\"]"),
    ("unmatched-keep-collect", "~ unmatched-mode: keep ~ ${f}[1*][collect(\"a\", 2) #a == \"4\"]"),
    ("collect-fn", "${f}[*][collect(\"c\", \"a\") #b]"),
    ("collect-fn-too-far", "${f}[*][collect(0, 2) yes()]"),
    ("explain", "~ explain-mode: explain ~ ${f}[1-2][#a == \"4\"]"),
]

ERRORS = [
    ("add-wrong-default", "${f}[*][add(\"x\", 1) @c = count_lines()]", None),
    (
        "add-wrong-noraise",
        "~ validation-mode: no-raise, no-stop, print, fail ~ ${f}[*][add(\"x\", 1) @c = count_lines()]",
        None,
    ),
    (
        "add-wrong-match",
        "~ validation-mode: no-raise, no-stop, no-print, match ~ ${f}[*][add(\"x\", 1) @c = count_lines()]",
        None,
    ),
    ("add-wrong-collect-only", "${f}[*][add(\"x\", 1) @c = count_lines()]", ["collect"]),
    ("add-wrong-stop", "${f}[*][@c = count_lines() add(\"x\", 1)]", ["collect", "stop", "print"]),
    ("add-wrong-fail-quiet", "${f}[1*][@c = count_lines() add(\"x\", 1)]", ["fail", "quiet"]),
    ("divide-zero", "${f}[1*][@d = divide(#a, #b) @c = count_lines()]", ["collect", "print"]),
    ("int-on-text", "${f}[1*][@i = int(#c)]", ["collect", "print", "fail"]),
    ("print-bad-ref-collect", "${f}[*][print(\"costs $5 or $.oops.a\") @c = count_lines()]", ["collect", "print"]),
    ("unknown-function", "${f}[*][nosuchfunction()]", None),
    ("bad-scan", "${f}[x][yes()]", None),
    ("no-match-part", "${f}[*]", None),
]


def standalone_section(only=None):
    out("#" * 70)
    out("# STANDALONE CsvPath")
    out("#" * 70)
    for scan in SCANS:
        for fname in ["basic", "blanks"]:
            run_modes(f"scan {scan}", "${f}" + scan + '[@l = count_lines() push("ls", line_number())]', fname)
    for scan in ["[*]", "[1]", "[0-1]"]:
        for fname in ["empty", "header_only", "one_blank", "no_newline_end"]:
            run_modes(f"scan {scan}", "${f}" + scan + "[yes() @l = count_lines()]", fname)
    for name, m in MATCHES:
        for fname in ["basic", "blanks", "ragged"]:
            run_modes(name, "~ id: " + name + " ~ ${f}[*]" + m, fname)
    for name, m in MATCHES[5:12]:
        run_modes(name + " from 1", "${f}[1*]" + m, "basic")
        run_modes(name + " range", "${f}[1-4]" + m, "blanks")
    for name, m in PRINTS:
        for fname in ["basic", "blanks", "ragged"]:
            run_modes(name, "~ id: " + name + " ~ ${f}[*]" + m, fname)
    for name, m in WORD_PRINTS:
        run_modes(name, "~ id: " + name + " ~ ${f}[*]" + m, "words")
    for name, t in MODES:
        for fname in ["basic", "blanks", "ragged"]:
            run_modes(name, t, fname)
    for name, t, policy in ERRORS:
        for fname in ["basic", "ragged"]:
            run_modes(name, t, fname, policy=policy)
    # keep blank lines
    for name, m in [MATCHES[0], MATCHES[4], MATCHES[12], MATCHES[16], PRINTS[1]]:
        run_modes(
            name + " keep blanks",
            "${f}[*]" + m,
            "blanks",
            ctor={"skip_blank_lines": False},
            policy=["collect", "print"],
        )
    # another delimiter and quotechar
    run_modes(
        "delimited",
        "${f}[*][#'b b' print(\"b b is $.headers.'b b' / $.csvpath.delimiter $.csvpath.quotechar\")]".replace("#'b b'", '#"b b"'),
        "quoted",
        ctor={"delimiter": ";", "quotechar": "'"},
    )
    run_modes("wrong delimiter", "${f}[*][#1 @c = count_headers()]", "quoted")


def on_demand_section():
    out("#" * 70)
    out("# PARSE ON DEMAND")
    out("#" * 70)
    run_on_demand("plain", '${f}[1*][#a == "4" @c = count()]', "basic")
    run_on_demand("print+stop", '${f}[*][print("at $.csvpath.line_number") stop(#a == "4")]', "blanks")
    run_on_demand("no file", "$[*][yes()]", "basic")
    run_on_demand("garbage", "not a csvpath", "basic")
    p, pr = new_path()
    for mode in ["collect", "fast_forward", "next"]:
        out(f"  -- {mode}() with nothing parsed")
        try:
            if mode == "collect":
                out(f"    returned {p.collect()}")
            elif mode == "fast_forward":
                out(f"    returned {p.fast_forward()}")
            else:
                out(f"    returned {list(p.next())}")
        except Exception as e:  # pylint: disable=W0718
            out(f"    raised {exc_str(e)}")
    p, pr = new_path()
    for bad in [None, 17]:
        out(f"  -- collect({bad!r})")
        try:
            out(f"    returned {p.collect(bad)}")
        except Exception as e:  # pylint: disable=W0718
            out(f"    raised {exc_str(e)}")
    # a csvpath handed to a method of an instance that has parsed already is ignored
    p, pr = new_path()
    p.parse('${f}[1-2][yes()]'.replace("{f}", FILES["basic"]))
    out(f"  -- parsed [1-2], then collect('[4*]'): {j(p.collect('${f}[4*][yes()]'.replace('{f}', FILES['basic'])))}")
    dump_path(p, pr)


def repeats_section():
    out("#" * 70)
    out("# REPEATED RUNS ON ONE INSTANCE")
    out("#" * 70)
    run_repeats("count+print", '${f}[*][@c = count_lines() print("line $.csvpath.line_number: $.headers.a / $.variables.c") #b]', "basic")
    run_repeats("blanks+last", '${f}[*][last() -> print("last $.csvpath.line_number") push("l", line_number())]', "blanks")
    run_repeats("stop", '${f}[1*][push("a", #a) stop(#a == "4") print.once("once only $.headers.a")]', "basic")
    run_repeats(
        "unmatched",
        '~ unmatched-mode: keep ~ ${f}[*][collect(1) #a == "4" print.onmatch("m $.csvpath.count_matches")]',
        "ragged",
    )


def by_hand_section():
    out("#" * 70)
    out("# track_line / _consider_line / limit_collection BY HAND")
    out("#" * 70)
    for name, m in MATCHES:
        run_by_hand(name, "${f}[*]" + m, "blanks")
    for scan in SCANS:
        run_by_hand("scan " + scan, "${f}" + scan + '[@l = count_lines() #a]', "ragged")
    for name, t in MODES:
        run_by_hand(name, t, "ragged")
    run_by_hand("keep blanks", "${f}[*]" + MATCHES[4][1], "blanks", ctor={"skip_blank_lines": False}, policy=["collect"])
    run_by_hand("errors", ERRORS[1][1], "basic")
    run_by_hand("errors raise", ERRORS[0][1], "basic")
    #
    # limit_collection / _limit_unmatched edge inputs
    #
    out("")
    out("  limit_collection edges")
    p, pr = new_path()
    p.parse("${f}[*][yes()]".replace("{f}", FILES["basic"]))
    for limit in [[], [0], [2, 0], [0, 0], [-1], [3], [None], [1, None], [0, 5, 1]]:
        p._limit_collection_to = limit
        for line in [["x", "y", "z"], ["x"], [], ["", None, 0]]:
            try:
                r = p.limit_collection(line)
                r = f"{j(r)} same:{r is line}"
            except Exception as e:  # pylint: disable=W0718
                r = f"raised {exc_str(e)}"
            try:
                u = p._limit_unmatched(line)
                u = f"{j(u)} same:{u is line}"
            except Exception as e:  # pylint: disable=W0718
                u = f"raised {exc_str(e)}"
            out(f"    limit:{limit} line:{j(line)} -> collection:{r} unmatched:{u}")


def print_parser_section():
    out("#" * 70)
    out("# PrintParser BY HAND (one parser, many strings, some broken)")
    out("#" * 70)
    p, pr = new_path()
    p.parse(
        '~ id: pp name: print parser description: a test ~ ${f}[*][@n = count_lines() push("s", #a) @t.k = #b tally(#c)]'.replace(
            "{f}", FILES["basic"]
        )
    )
    p.fast_forward()
    strings = [
        "plain",
        "",
        " ",
        "$.variables.n",
        "n is $.variables.n.. And s is $.variables.s",
        "$.variables.s.2 $.variables.s.length $.variables.s.99",
        "$.variables.t.k $.variables.c.3 $.variables.c.nope",
        "costs $5",
        "$.oops.n",
        "$.variables.n",
        "$.headers.a $.headers.0 $.headers.2 $.headers.zzz",
        "$.metadata.id $.metadata.name $.metadata.description $.metadata.none",
        "$.csvpath.count_lines $.csvpath.total_lines $.csvpath.identity $.csvpath.valid $.csvpath.stopped",
        "$nobody.variables.n",
        "tab\tand\nnewline $.variables.n\n",
        "$$ $. $",
        "unicode é ü $.variables.n ü",
        "a..b $.variables.n...",
    ]
    one = PrintParser(p)
    for rounds in [1, 2]:
        for s in strings:
            for label, parser in [("shared", one), ("fresh", PrintParser(p))]:
                try:
                    r = parser.transform(s)
                    out(f"    round {rounds} {label} {s!r} -> {r!r}")
                except Exception as e:  # pylint: disable=W0718
                    out(f"    round {rounds} {label} {s!r} raised {e.__class__.__name__}: {' '.join(norm(e).split())[:160]}")
    # a parser without a csvpath, and a parser moved to another csvpath
    nop = PrintParser()
    for s in ["no refs at all", "still none.. ok"]:
        try:
            out(f"    no csvpath {s!r} -> {nop.transform(s)!r}")
        except Exception as e:  # pylint: disable=W0718
            out(f"    no csvpath {s!r} raised {exc_str(e)}")
    p2, pr2 = new_path()
    p2.parse('~ id: other ~ ${f}[1][@n = "from p2"]'.replace("{f}", FILES["ragged"]))
    p2.fast_forward()
    out(f"    on p:  {one.transform('$.variables.n $.metadata.id')!r}")
    one.csvpath = p2
    out(f"    on p2: {one.transform('$.variables.n $.metadata.id')!r}")
    one.csvpath = p
    out(f"    on p:  {one.transform('$.variables.n $.metadata.id')!r}")


# ------------------------------------------------------------------
# CsvPaths
# ------------------------------------------------------------------
def dump_json_file(path, indent):
    try:
        with open(path, "r", encoding="utf-8") as f:
            d = json.load(f)
    except Exception as e:  # pylint: disable=W0718
        out(f"{indent}(unreadable json {exc_str(e)})")
        return

    def clean(o, fname):
        if isinstance(o, dict):
            r = {}
            for k, v in o.items():
                if k in VOLATILE:
                    r[k] = "<volatile>"
                elif k == "file_fingerprints" and isinstance(v, dict):
                    r[k] = {
                        a: (b if a in ["data.csv", "unmatched.csv", "printouts.txt", "vars.json"] else "<volatile>")
                        for a, b in sorted(v.items())
                    }
                else:
                    r[k] = clean(v, fname)
            return r
        if isinstance(o, list):
            return [clean(_, fname) for _ in o]
        return o

    out(f"{indent}{json.dumps(clean(d, path), sort_keys=True)}")


def dump_tree(root):
    out(f"  tree of {root}:")
    if not os.path.exists(root):
        out("    (missing)")
        return
    for dirpath, dirs, files in os.walk(root):
        dirs.sort()
        for f in sorted(files):
            path = os.path.join(dirpath, f)
            out(f"    {path}")
            if f.endswith(".json"):
                dump_json_file(path, "        ")
            else:
                with open(path, "r", encoding="utf-8", newline="") as fh:
                    for line in fh.read().split("\n"):
                        for pat in VOLATILE_PRINTS:
                            line = pat.sub(r"\1=<T>", line)
                        out(f"        | {line!r}")


GROUPS = {
    "plain": [
        '~ id: first ~ $[*][yes() @c = count_lines() print("first sees $.csvpath.line_number: $.headers.a")]',
        '~ id: second unmatched-mode: keep ~ $[1*][#a == "4" @m.onmatch = count() print.onmatch("second matched $.csvpath.count_matches times, first counted $plain.variables.c")]',
    ],
    "stops": [
        '~ id: stopper ~ $[*][push("a", #a) stop(#a == "4") print("stopper at $.csvpath.line_number")]',
        '~ id: skipper ~ $[*][skip(#a == "4") push("a", #a)]',
        '~ id: advancer ~ $[*][#a == "1" -> advance(2) push("a", #a) last() -> print("advancer last at $.csvpath.line_number")]',
        '~ id: failer validation-mode: no-raise, print ~ $[1*][#b == "5" -> fail() add("x", 1)]',
    ],
    "limits": [
        '~ id: lim unmatched-mode: keep ~ $[*][collect("c", "a") #b]',
        '~ id: norun run-mode: no-run ~ $[*][yes() print("never")]',
        '~ id: nomatch return-mode: no-matches unmatched-mode: keep ~ $[*][#a == "4" print.once("once $.headers.b")]',
    ],
    "preceding": [
        '~ id: source ~ $[*][#b]',
        '~ id: sink source-mode: preceding ~ $[*][@c = count_lines() print("sink line $.csvpath.line_number is $.headers.a")]',
    ],
}


def dump_results(cp, name):
    try:
        rs = cp.results_manager.get_named_results(name)
    except Exception as e:  # pylint: disable=W0718
        out(f"  get_named_results raised {exc_str(e)}")
        return
    out(f"  results: {len(rs) if rs is not None else None}")
    for r in rs or []:
        out(f"  -- result {r.identity_or_index}")
        try:
            lines = r.lines
            if lines is not None and not isinstance(lines, list):
                lines = list(lines.next())
            out(f"    lines: {j(lines)}")
        except Exception as e:  # pylint: disable=W0718
            out(f"    lines raised {exc_str(e)}")
        out(f"    unmatched: {j(r.unmatched)}")
        out(f"    is_valid:{r.is_valid} errors_count:{r.errors_count} printouts:{j(r.get_printouts())}")
        dump_errors(r.errors, "    ")
        dump_path(r.csvpath, None, "    ")
    out(f"  csvpaths errors: {len(cp.errors) if cp.errors is not None else None}")


def csvpaths_section():
    out("#" * 70)
    out("# CsvPaths")
    out("#" * 70)
    methods = [
        "collect_paths",
        "fast_forward_paths",
        "next_paths",
        "collect_by_line",
        "fast_forward_by_line",
        "next_by_line",
    ]
    for gname, paths in GROUPS.items():
        for fname in ["basic", "blanks", "ragged"]:
            for method in methods:
                setup_dirs_only()
                name = f"{gname}_{fname}_{method}"
                out("")
                out("=" * 70)
                out(f"CSVPATHS {name}")
                buf = io.StringIO()
                cp = None
                try:
                    with redirect_stdout(buf):
                        cp = CsvPaths()
                        cp.file_manager.add_named_file(name=fname, path=FILES[fname])
                        # print references name the group, so the group keeps its name
                        cp.paths_manager.add_named_paths(name=gname, paths=paths)
                        m = getattr(cp, method)
                        r = m(filename=fname, pathsname=gname)
                        if r is not None and not isinstance(r, (list, dict)):
                            r = [_[:] if isinstance(_, list) else _ for _ in r]
                    out(f"  {method} returned: {j(r)}")
                except Exception as e:  # pylint: disable=W0718
                    out(f"  {method} raised {exc_str(e)}")
                out("  stdout:")
                for line in buf.getvalue().split("\n"):
                    out(f"    | {line}")
                if cp is not None:
                    with redirect_stdout(buf):
                        pass
                    dump_results(cp, gname)
                dump_tree("archive")


def setup_dirs_only():
    for d in ["archive", "cache", "inputs", "transfers"]:
        if os.path.exists(d):
            shutil.rmtree(d)


def main(sections=None):
    all_sections = {
        "standalone": standalone_section,
        "on_demand": on_demand_section,
        "repeats": repeats_section,
        "by_hand": by_hand_section,
        "print_parser": print_parser_section,
        "csvpaths": csvpaths_section,
    }
    for name, fn in all_sections.items():
        if sections and name not in sections:
            continue
        try:
            fn()
        except Exception as e:  # pylint: disable=W0718
            out(f"SECTION {name} DIED: {exc_str(e)}")
            out(norm(traceback.format_exc()))
    out("")
    out("END OF TRANSCRIPT")


if __name__ == "__main__":
    main(sys.argv[1:])
