#!/usr/bin/env python
"""Differential demonstration for property C10

  "Every run gets its own run directory and never touches an earlier run's results"

The script is standalone.  It builds its own working directories (config,
data files, named-paths groups), drives the code that allocates run
directories, saves results and resolves ':last' / ':first' references, and
prints a deterministic transcript of everything observable.  Run it once with
PYTHONPATH pointing at unmodified HEAD and once with the change applied: the
two transcripts must be byte-identical.

    PYTHONPATH=<tree> python demo.py > out.txt

What is printed
  A  ResultSerializer helpers called directly (names, run dir allocation)
  B  ResultsManager._find_in_dir_names / _find_instance on hand made listings
  C  ResultsManager.data_file_for_reference / FileManager.get_named_file on
     many reference strings, repeated, while the archive changes underneath
  D  sequences of runs: {2+ groups} x {new, reused instance} x {7 run methods}
     x {same second, +1s, 12:59:59->13:00:00, 23:59:59->00:00:00} with, after
     every run: return value, stdout, results, csvpaths log messages, new
     files, whether any file of an earlier run changed (raw bytes), and what
     ':last' / ':first' resolve to.  Full normalised archive contents follow.
  E  error paths: unknown names, bad references, raising csvpaths, abandoned
     next_paths generators, files that are in the way

Normalisation: wall-clock timestamps, uuids, timings, object addresses, the
scratch directory, traceback line numbers and the fingerprints of files that
embed timestamps are replaced by tokens.  Run directory names are NOT
normalised away: the run clock is faked, so they are deterministic and are part
of what is compared.
"""
import contextlib
import gc
import hashlib
import io
import logging
import os
import random
import re
import shutil
import sys
import tempfile
from datetime import datetime, timedelta, timezone

CONFIG = """[csvpath_files]
extensions = txt, csvpath, csvpaths

[csv_files]
extensions = txt, csv, tsv, dat, tab, psv, ssv

[errors]
csvpath = raise, collect, stop, fail, print
csvpaths = raise, collect

[logging]
csvpath = info
csvpaths = debug
log_file = logs/csvpath.log
log_files_to_keep = 100
log_file_size = 52428800

[config]
path = config/config.ini

[cache]
path = cache

[listeners]
[marquez]
base_url = http://localhost:5000

[functions]
imports = config/functions.imports

[results]
archive = archive
transfers = transfers

[inputs]
files = inputs/named_files
csvpaths = inputs/named_paths
on_unmatched_file_fingerprints = halt
"""

F_CSV = "a,b,c\n1,2,3\n\n4,5\n3,,0\n7,8,9,10\n0,0,0\n"
G_CSV = "a,b,c\n"
H_CSV = 'a;b;c\n3;"x;y";\n\n;;\n3;0\n'

GROUPS = {
    # two groups whose names share a prefix, on purpose
    "p": [
        "$[*][yes()]",
        '~id:two~ $[*][#a=="3" print("hi $.headers.a")]',
    ],
    "pq": [
        '~id:one unmatched-mode:keep~ $[*][#a=="3"]',
        '~id:bad validation-mode:no-raise,collect~ $[*][add("x", #b)]',
        "~id:cnt~ $[*][@n = count() last() -> print(\"n is $.variables.n\")]",
    ],
    # serial only: the second csvpath reads the first one's data.csv
    "s": [
        '~id:src~ $[*][#a=="3"]',
        "~id:dst source-mode:preceding~ $[*][yes()]",
    ],
    # a csvpath that raises out of the run under the default error policy
    "boom": [
        "~id:ok~ $[*][yes()]",
        '~id:ka~ $[*][add("x", #b)]',
        "~id:never~ $[*][yes()]",
    ],
}

ROOT = tempfile.mkdtemp(prefix="demo_c10_")
OUT = sys.stdout


def emit(*a):
    OUT.write(" ".join(str(x) for x in a) + "\n")


# ------------------------------------------------------------------ normalise
_RX = [
    (re.compile(r"[0-9a-f]{8}-[0-9a-f]{4}-[0-9a-f]{4}-[0-9a-f]{4}-[0-9a-f]{12}"), "<UUID>"),
    (
        re.compile(r"\d{4}-\d\d-\d\d[ T]\d\d:\d\d:\d\d(\.\d+)?(\+00:00)?"),
        "<TIME>",
    ),
    (re.compile(r"\b\w{3} \w{3} [ \d]\d \d\d:\d\d:\d\d \d{4}\b"), "<CTIME>"),
    (re.compile(r'"(lines_time|last_line_time)": [-\d.e]+'), r'"\1": <N>'),
    (re.compile(r"0x[0-9a-f]{6,}"), "<ADDR>"),
    (re.compile(r"cache/[0-9a-f]{64}"), "cache/<KEY>"),
    (re.compile(r'(File \\?"[^"\\]*\\?"), line \d+'), r"\1, line <L>"),
    (re.compile(r'"(meta\.json|errors\.json)": "[0-9a-f]{64}"'), r'"\1": "<SHA>"'),
]


def norm(text: str) -> str:
    text = text.replace(ROOT, "<ROOT>")
    for rx, sub in _RX:
        text = rx.sub(sub, text)
    return text


# ------------------------------------------------------------------ fake clock
class FakeClock:
    """stands in for `datetime` in csvpath.csvpaths only: the run clock"""

    t = datetime(2024, 2, 28, 12, 59, 58, tzinfo=timezone.utc)

    @classmethod
    def now(cls, tz=None):
        return cls.t


def clock_step(kind: str) -> None:
    t = FakeClock.t
    if kind == "same":
        return
    if kind == "+1s":
        t = t + timedelta(seconds=1)
    elif kind == "+1h":
        t = t + timedelta(hours=1)
    elif kind == "->12:59:59":
        n = t.replace(hour=12, minute=59, second=59)
        t = n if n > t else n + timedelta(days=1)
    elif kind == "->23:59:59":
        n = t.replace(hour=23, minute=59, second=59)
        t = n if n > t else n + timedelta(days=1)
    elif kind == "->00:59:59":
        n = t.replace(hour=0, minute=59, second=59)
        t = n if n > t else n + timedelta(days=1)
    else:
        raise ValueError(kind)
    FakeClock.t = t


import csvpath.csvpaths as _csvpaths_module  # noqa: E402
from csvpath import CsvPaths  # noqa: E402
from csvpath.managers.results.result_serializer import ResultSerializer  # noqa: E402
from csvpath.util.line_spooler import LineSpooler  # noqa: E402

_csvpaths_module.datetime = FakeClock


# ------------------------------------------------------------------ log capture
class ListHandler(logging.Handler):
    def __init__(self):
        super().__init__(level=logging.DEBUG)
        self.lines = []

    def emit(self, record):
        try:
            msg = record.getMessage()
        except Exception as e:  # pragma: no cover
            msg = f"<unformattable {e}>"
        self.lines.append(f"{record.levelname}: {msg}")


LOGS = ListHandler()
logging.getLogger("csvpaths").addHandler(LOGS)


def take_logs():
    lines, LOGS.lines = LOGS.lines, []
    return lines


# ------------------------------------------------------------------ environment
def fresh_env(name: str) -> str:
    d = os.path.join(ROOT, name)
    os.makedirs(os.path.join(d, "config"))
    os.chdir(d)
    with open("config/config.ini", "w") as f:
        f.write(CONFIG)
    with open("config/functions.imports", "w") as f:
        f.write("")
    with open("f.csv", "w") as f:
        f.write(F_CSV)
    with open("g.csv", "w") as f:
        f.write(G_CSV)
    with open("h.csv", "w") as f:
        f.write(H_CSV)
    return d


def new_instance(**kw) -> CsvPaths:
    cp = CsvPaths(**kw)
    cp.file_manager.add_named_file(name="f", path="f.csv")
    cp.file_manager.add_named_file(name="g", path="g.csv")
    cp.file_manager.add_named_file(name="h", path="h.csv")
    for k, v in GROUPS.items():
        cp.paths_manager.add_named_paths(name=k, paths=v)
    return cp


def snapshot() -> dict:
    """raw sha256 of every file below archive/<group>/"""
    snap = {}
    if not os.path.isdir("archive"):
        return snap
    for base, dirs, files in os.walk("archive"):
        dirs.sort()
        for fn in sorted(files):
            p = os.path.join(base, fn)
            if os.path.dirname(p) == "archive":
                continue  # the archive-wide manifest is appended to by every run
            with open(p, "rb") as f:
                snap[p] = hashlib.sha256(f.read()).hexdigest()
    return snap


def run_dirs() -> list:
    out = []
    if not os.path.isdir("archive"):
        return out
    for g in sorted(os.listdir("archive")):
        gp = os.path.join("archive", g)
        if os.path.isdir(gp):
            for r in sorted(os.listdir(gp)):
                out.append(os.path.join(gp, r))
    return out


def describe_exception(e: BaseException) -> str:
    s = f"{type(e).__module__}.{type(e).__name__}: {e}"
    c = e.__cause__
    while c is not None:
        s += f" <- {type(c).__name__}: {c}"
        c = c.__cause__
    return norm(s)


def lines_of(result):
    ls = result._lines  # do not create a spooler by asking
    if ls is None:
        return None
    if isinstance(ls, LineSpooler):
        return ["<spooler closed=%s len=%s>" % (ls.closed, len(ls))] + [
            x for x in ls.next()
        ]
    return list(ls)


def show_results(cp, group) -> None:
    try:
        rs = cp.results_manager.get_named_results(group)
    except Exception as e:
        emit("   results:", describe_exception(e).split("\n")[0])
        return
    for r in rs:
        emit(
            "   result",
            r.identity_or_index,
            "dir=" + str(r.run_dir),
            "idx=" + str(r.run_index),
            "valid=" + str(r.is_valid),
            "errors=" + str(r.errors_count),
            "by_line=" + str(r.by_line),
        )
        emit("      vars     :", norm(repr(r.variables)))
        emit("      lines    :", lines_of(r))
        emit("      unmatched:", r.unmatched)
        emit("      printouts:", norm(repr(r.get_printouts())))
        for e in r.errors:
            emit("      error    :", norm(str(e.error)), "| line", e.line_count)
    rm = cp.results_manager
    emit("   manager: valid=%s n=%s has_lines=%s vars=%s" % (
        rm.is_valid(group),
        rm.get_number_of_results(group),
        rm.has_lines(group),
        norm(repr(rm.get_variables(group))),
    ))


REFS = [
    "$p.results.2024-:last.two",
    "$p.results.2024-:first.two",
    "$p.results.2024-02-28_:last.0",
    "$p.results.2024-02-29_00-:first.0",
    "$pq.results.20:last.one",
    "$pq.results.20:first.one",
    "$s.results.2024-02-2:last.dst",
]


def show_refs(cp) -> None:
    for ref in REFS:
        try:
            emit("   ref", ref, "=>", cp.results_manager.data_file_for_reference(ref))
        except Exception as e:
            emit("   ref", ref, "=> EXC", describe_exception(e))


METHODS = {
    "collect_paths": lambda cp, g, f: cp.collect_paths(pathsname=g, filename=f),
    "fast_forward_paths": lambda cp, g, f: cp.fast_forward_paths(
        pathsname=g, filename=f
    ),
    "next_paths": lambda cp, g, f: list(cp.next_paths(pathsname=g, filename=f)),
    "next_paths+collect": lambda cp, g, f: list(
        cp.next_paths(pathsname=g, filename=f, collect=True)
    ),
    "collect_by_line": lambda cp, g, f: cp.collect_by_line(pathsname=g, filename=f),
    "fast_forward_by_line": lambda cp, g, f: cp.fast_forward_by_line(
        pathsname=g, filename=f
    ),
    "next_by_line+collect": lambda cp, g, f: list(
        cp.next_by_line(pathsname=g, filename=f, collect=True, if_all_agree=True)
    ),
}


class Session:
    def __init__(self):
        self.cp = None
        self.snap = snapshot()
        self.dirs = run_dirs()
        self.n = 0

    def run(self, group, inst, method, clock, file="f", logs=False, refs=True):
        self.n += 1
        clock_step(clock)
        emit(
            f"-- run {self.n}: group={group} instance={inst} method={method} "
            f"clock={clock} file={file} now={FakeClock.t.strftime('%Y-%m-%d %H.%M.%S')}"
        )
        if inst == "new" or self.cp is None:
            self.cp = new_instance()
        take_logs()
        buf = io.StringIO()
        ret = exc = None
        with contextlib.redirect_stdout(buf):
            try:
                ret = METHODS[method](self.cp, group, file)
            except Exception as e:  # noqa
                exc = e
        # results that the run dropped may still hold an open data.csv (an
        # abandoned generator). close them now rather than whenever the cyclic
        # collector happens to run, so that the transcript is deterministic.
        gc.collect()
        if exc is not None:
            emit("   raised  :", describe_exception(exc))
        else:
            emit("   returned:", ret)
        emit("   stdout  :", norm(repr(buf.getvalue())))
        emit(
            "   coordination after run:",
            self.cp._current_run_time,
            self.cp._run_time_str,
            self.cp._stop_all,
            self.cp._fail_all,
            self.cp._skip_all,
            self.cp._advance_all,
        )
        show_results(self.cp, group)
        if logs:
            for ln in take_logs():
                for part in norm(ln).split("\n"):
                    emit("   log|", part)
        # the archive
        snap = snapshot()
        dirs = run_dirs()
        newdirs = [d for d in dirs if d not in self.dirs]
        emit("   new run dirs   :", newdirs)
        emit(
            "   new dir is under own group only:",
            all(os.path.dirname(d) == os.path.join("archive", group) for d in newdirs),
        )
        changed = sorted(p for p in self.snap if snap.get(p) != self.snap[p])
        emit("   earlier files changed or gone:", changed)
        added = sorted(p for p in snap if p not in self.snap)
        outside = [p for p in added if not any(p.startswith(d + os.sep) for d in newdirs)]
        emit("   files added:", len(added), "of which outside the new run dirs:", outside)
        for p in added:
            emit("      +", p)
        self.snap, self.dirs = snap, dirs
        if refs:
            show_refs(self.cp)


def dump_archive(full=True) -> None:
    emit("== archive contents (normalised)")
    for base, dirs, files in os.walk("archive"):
        dirs.sort()
        for fn in sorted(files):
            p = os.path.join(base, fn)
            with open(p, "r", encoding="utf-8", errors="replace") as f:
                text = norm(f.read())
            if full:
                emit(f"---- {p}")
                for ln in text.split("\n"):
                    emit("    |" + ln)
            else:
                emit(
                    "---- %s lines=%s sha(normalised)=%s"
                    % (p, text.count("\n"), hashlib.sha256(text.encode()).hexdigest()[:16])
                )


def attempt(label, fn):
    try:
        r = fn()
        emit(f"   {label} => {norm(repr(r))}")
        return r
    except Exception as e:  # noqa
        emit(f"   {label} => EXC {describe_exception(e)}")
        return None


# ====================================================================== A
def section_a():
    emit("=" * 70)
    emit("A. ResultSerializer helpers")
    fresh_env("A")
    rs = ResultSerializer("arch")
    names = [
        "p", "$p", "$$p", "p.x", "$p.results.2024-01:last.two", "p#two", "$p#two.results.x",
        "p.q#r", "p#q.r", ".", "#", "$", "", "$.results.x", "a.b.c#d#e", "p$", "pq",
        "with space.x", "ünï.x#y",
    ]
    for n in names:
        attempt(f"_deref_paths_name({n!r})", lambda: rs._deref_paths_name(n))
    for bad in [None, 5, b"p.x", ["p"]]:
        attempt(f"_deref_paths_name({bad!r})", lambda: rs._deref_paths_name(bad))
    dts = [
        datetime(2024, 2, 28, 0, 0, 0, tzinfo=timezone.utc),
        datetime(2024, 2, 28, 12, 59, 59, tzinfo=timezone.utc),
        datetime(2024, 2, 28, 13, 0, 0, tzinfo=timezone.utc),
        datetime(2024, 2, 28, 23, 59, 59, 999999, tzinfo=timezone.utc),
        datetime(2024, 2, 29, 0, 0, 0),
        datetime(1999, 12, 31, 1, 2, 3),
    ]
    for dt in dts:
        attempt(f"get_run_dir_name_from_datetime({dt!r})", lambda: rs.get_run_dir_name_from_datetime(dt))
    attempt("get_run_dir_name_from_datetime(None)", lambda: rs.get_run_dir_name_from_datetime(None))
    attempt("get_run_dir_name_from_datetime('x')", lambda: rs.get_run_dir_name_from_datetime("x"))
    emit(" allocation: repeated requests, the caller creating the dir in between or not")
    t = dts[1]
    for i in range(5):
        d = attempt(f"get_run_dir(p,{t:%H:%M:%S}) #{i}", lambda: rs.get_run_dir(paths_name="p", run_time=t))
        if i != 2:  # one request whose dir is never created: the next gets the same name
            os.makedirs(d, exist_ok=True)
    # holes and strangers
    os.makedirs("arch/p/2024-02-28_12-59-59.7")
    open("arch/p/2024-02-28_13-00-00", "w").close()  # a file where a dir would go
    for i in range(3):
        d = attempt(f"get_run_dir(p,{t:%H:%M:%S}) #{i + 5}", lambda: rs.get_run_dir(paths_name="p", run_time=t))
        os.makedirs(d, exist_ok=True)
    d = attempt("get_run_dir(p,13:00:00) name taken by a file", lambda: rs.get_run_dir(paths_name="p", run_time=dts[2]))
    for pn in ["$p.results.2024-02-2:last.two", "p#two", "pq", "$pq#x.variables.y"]:
        d = attempt(f"get_run_dir({pn!r},str)", lambda: rs.get_run_dir(paths_name=pn, run_time="2024-02-28_12-59-59"))
    attempt("get_run_dir(p, None)", lambda: rs.get_run_dir(paths_name="p", run_time=None))
    attempt("get_run_dir(p, 17)", lambda: rs.get_run_dir(paths_name="p", run_time=17))
    attempt("get_run_dir(p, '')", lambda: rs.get_run_dir(paths_name="p", run_time=""))
    attempt("get_run_dir(None, t)", lambda: rs.get_run_dir(paths_name=None, run_time=t))
    open("arch/blocked", "w").close()
    attempt("get_run_dir(blocked, t) group name taken by a file", lambda: rs.get_run_dir(paths_name="blocked", run_time=t))
    attempt("get_instance_dir", lambda: rs.get_instance_dir(run_dir="arch/p/2024-02-28_12-59-59", identity="two"))
    attempt("get_instance_dir again", lambda: rs.get_instance_dir("arch/p/2024-02-28_12-59-59", "two"))
    attempt("get_instance_dir on a file", lambda: rs.get_instance_dir(run_dir="arch/p/2024-02-28_13-00-00", identity="two"))
    for pos in [None, {}, [], {"default": []}, {"default": None}, {"a": None, "b": ["x"]}, {"a": [""]}, {"a": ()}, {"a": "s"}]:
        attempt(f"_has_printouts({pos!r})", lambda: rs._has_printouts(pos))
    emit(" tree:")
    for base, dirs, files in os.walk("arch"):
        dirs.sort()
        emit("   ", base, sorted(files))


# ====================================================================== B
def section_b():
    emit("=" * 70)
    emit("B. ordering of run dir names")
    fresh_env("B")
    cp = CsvPaths()
    rm = cp.results_manager
    listings = {
        "plain": [
            "2024-03-03_01-01-03", "2024-03-04_01-05-01", "2024-03-04_03-51-07",
            "2024-03-04_03-40-16", "2024-03-04_12-59-59", "2024-03-04_13-00-00",
            "2024-03-04_23-59-59", "2024-03-05_00-00-00", "2024-03-04_00-11-24",
        ],
        "suffixes": [
            "2024-03-04_12-59-59.10", "2024-03-04_12-59-59", "2024-03-04_12-59-59.2",
            "2024-03-04_12-59-59.0", "2024-03-04_12-59-59.1", "2024-03-04_13-00-00",
            "2024-03-04_01-00-00.3",
        ],
        "ties": [
            "2024-03-04_12-59-59.01", "2024-03-04_12-59-59.1", "2024-03-04_12-59-59.001",
            "2024-03-04_12-59-59",
        ],
        "ties2": ["2024-03-04_12-59-59.1", "2024-03-04_12-59-59.01"],
        "one": ["2024-03-04_12-59-59"],
        "empty": [],
        "stranger": ["2024-03-04_12-59-59", "2024-03-04_manifest.json", "2024-03-04_13-00-00"],
        "badsuffix": ["2024-03-04_12-59-59.x", "2024-03-04_12-59-59"],
        "twodots": ["2024-03-04_12-59-59.1.2", "2024-03-04_12-59-59"],
    }
    prefixes = ["", "2024-", "2024-03-04_", "2024-03-04_12-", "2024-03-04_12-59-59", "2024-03-04_12-59-59.", "2024-03-04_12-59-59.1", "2025", "2024-03-04_0", "2024-03-04_1"]
    for lname, names in listings.items():
        for pre in prefixes:
            for last in [True, False, 1, 0, None, "yes"]:
                before = list(names)
                attempt(f"{lname:9} prefix={pre!r:24} last={last!r:5}", lambda: rm._find_in_dir_names(pre, names, last))
                if names != before:
                    emit("   !! input list was modified")
        attempt(f"{lname:9} default last", lambda: rm._find_in_dir_names("2024", names))
    emit(" _find_instance on a real directory")
    os.makedirs("d")
    for n in listings["suffixes"] + ["2024-03-03_01-01-03"]:
        os.makedirs(os.path.join("d", n))
    for inst in [
        "2024-03-04_12-59-59.2", "nothing", "2024-:last", "2024-:first", "2024-03-04_12-:last",
        "2024-03-04_12-:first", "2024-03-04_13:last", "2025:last", "2025:first", ":last", ":first",
        "2024-:0", "2024-:", "2024-:Last", "2024-:last:first", "2024-03-04_01-00-00.:last",
    ]:
        attempt(f"_find_instance(d, {inst!r})", lambda: rm._find_instance("d", inst))
        attempt(f"_find_instance(nodir, {inst!r})", lambda: rm._find_instance("nodir", inst))
    attempt("_find_last(d,'2024-03-04')", lambda: rm._find_last("d", "2024-03-04"))
    attempt("_find_first(d,'2024-03-04')", lambda: rm._find_first("d", "2024-03-04"))
    attempt("_find(d,'2024-03-04') default", lambda: rm._find("d", "2024-03-04"))
    attempt("_find(nodir,'2024')", lambda: rm._find("nodir", "2024"))


# ====================================================================== C
def section_c():
    emit("=" * 70)
    emit("C. references, repeated, while the archive changes")
    fresh_env("C")
    FakeClock.t = datetime(2024, 2, 28, 12, 59, 58, tzinfo=timezone.utc)
    cp = new_instance()
    refs = REFS + [
        "$p.results.2024-02-28_12-59-59.two",
        "$p.results.2024-02-28_12-59-59.0.two",
        "$p.results.2024-02-28_12-59-59:last.two",
        "$p.results.2024-:last.nobody",
        "$p.results.2024-:last",
        "$p.results.2099:last.two",
        "$p.results.2024-:newest.two",
        "$p.results.:last.two",
        "$p.results.:first.two#x",
        "$p#two.results.2024-:last.two",
        "$nobody.results.2024-:last.two",
        "$p.variables.2024-:last.two",
        "$p.csvpaths.two",
        "$p.nonsense.x.y",
        "$.results.2024-:last.two",
        "$p",
        "$",
        "p.results.2024-:last.two",
        "",
        None,
        17,
        ["$", "p"],
    ]

    def sweep(tag, who):
        emit(f" -- {tag}")
        for ref in refs:
            for k in (1, 2):  # twice: the second call may be served from memory
                attempt(f"{k} data_file_for_reference({ref!r})", lambda: who.results_manager.data_file_for_reference(ref))
            if isinstance(ref, str):
                attempt(f"  get_named_file({ref!r})", lambda: who.file_manager.get_named_file(ref))

    sweep("empty archive", cp)
    s = Session()
    s.cp = cp
    s.run("p", "reused", "collect_paths", "+1s", refs=False)
    sweep("one run of p", cp)
    s.run("p", "reused", "collect_paths", "same", refs=False)
    s.run("pq", "reused", "collect_paths", "same", refs=False)
    sweep("two runs of p in one second, one of pq", cp)
    s.run("p", "reused", "fast_forward_paths", "+1s", refs=False)
    sweep("a newer run of p that left no data.csv", cp)
    s.run("p", "reused", "collect_paths", "->23:59:59", refs=False)
    s.run("p", "reused", "collect_paths", "+1s", refs=False)
    s.run("s", "reused", "collect_paths", "same", refs=False)
    sweep("runs either side of midnight", cp)
    shutil.rmtree("archive/p/2024-02-29_00-00-00")
    s.snap, s.dirs = snapshot(), run_dirs()
    sweep("the newest run of p removed from disk", cp)
    emit(" -- another instance, same archive, same strings")
    other = new_instance()
    sweep("other instance", other)
    emit(" -- the archive moves: same strings, same instance")
    os.makedirs("elsewhere")
    cp.config.archive_path = "elsewhere"
    sweep("archive_path = elsewhere (empty)", cp)
    s2 = Session()
    s2.cp = cp
    s2.run("p", "reused", "collect_paths", "+1s", refs=False)
    sweep("archive_path = elsewhere (one run)", cp)
    cp.config.archive_path = "archive"
    sweep("archive_path = archive again", cp)
    emit(" -- replays: a run whose file is a reference, for every csvpath of the group")
    for f in ["$p.results.2024-:last.two", "$p.results.2024-:first.0", "$pq.results.20:last.one", "$p.results.2099:last.two", "$p.variables.x.y"]:
        for m in ["collect_paths", "fast_forward_paths", "next_paths+collect", "collect_by_line"]:
            s.run("pq", "reused", m, "+1s", file=f, refs=False)
            s.run("p", "new", m, "same", file=f, refs=False)
    dump_archive(full=False)


# ====================================================================== D
HANDPICKED = [
    # every method, reused instance, all inside one second
    [("p", "new", m, "same") for m in METHODS][:5],
    [("pq", "reused", m, "same") for m in METHODS][2:],
    # alternate groups and instances, one second apart
    [("p", "new", "collect_paths", "+1s"), ("pq", "reused", "collect_paths", "+1s"),
     ("p", "reused", "next_paths+collect", "+1s"), ("pq", "new", "collect_by_line", "+1s"),
     ("p", "reused", "collect_paths", "same")],
    # 12:59:59 -> 13:00:00
    [("p", "new", "collect_paths", "->12:59:59"), ("p", "reused", "collect_paths", "same"),
     ("p", "reused", "collect_paths", "+1s"), ("p", "new", "collect_by_line", "same"),
     ("pq", "reused", "next_by_line+collect", "same")],
    # 23:59:59 -> 00:00:00
    [("p", "new", "collect_paths", "->23:59:59"), ("pq", "reused", "collect_paths", "same"),
     ("p", "reused", "collect_paths", "+1s"), ("pq", "reused", "fast_forward_by_line", "same"),
     ("p", "new", "next_paths", "same")],
    # 00:59:59 -> 01:00:00 (would collide with 12:59:59 -> 13:00:00 on a 12 hour clock)
    [("p", "new", "collect_paths", "->12:59:59"), ("p", "new", "collect_paths", "+1s"),
     ("p", "new", "collect_paths", "->00:59:59"), ("p", "new", "collect_paths", "+1s"),
     ("p", "reused", "collect_paths", "+1h")],
    # source-mode: preceding and the raising group
    [("s", "new", "collect_paths", "+1s"), ("s", "reused", "collect_paths", "same"),
     ("s", "reused", "next_paths+collect", "same"), ("s", "reused", "fast_forward_paths", "same"),
     ("s", "reused", "collect_by_line", "same")],
    [("boom", "new", "collect_paths", "+1s"), ("boom", "reused", "collect_paths", "same"),
     ("boom", "reused", "next_paths+collect", "same"), ("boom", "reused", "collect_by_line", "same"),
     ("boom", "reused", "fast_forward_paths", "+1s")],
]


def section_d():
    emit("=" * 70)
    emit("D. sequences of runs")
    for i, seq in enumerate(HANDPICKED):
        emit("#" * 60)
        emit(f"D.hand.{i}: {seq}")
        fresh_env(f"D_hand_{i}")
        FakeClock.t = datetime(2024, 2, 28, 12, 59, 57, tzinfo=timezone.utc)
        s = Session()
        for (g, inst, m, c) in seq:
            s.run(g, inst, m, c, logs=True)
        dump_archive(full=(i in (0, 3, 7)))
        with open("archive/manifest.json") as f:
            emit("archive/manifest.json run_homes:", re.findall(r'"run_home": "([^"]*)"', f.read()))
    rnd = random.Random(1010)
    clocks = ["same", "same", "+1s", "+1s", "->12:59:59", "->23:59:59", "+1h"]
    files = ["f", "f", "f", "h", "g", "$p.results.2024-:last.two", "$pq.results.2024-:first.one"]
    for i in range(14):
        n = 5 if i < 10 else 9
        seq = [
            (
                rnd.choice(["p", "pq"]),
                rnd.choice(["new", "reused"]),
                rnd.choice(list(METHODS)),
                rnd.choice(clocks),
                rnd.choice(files),
            )
            for _ in range(n)
        ]
        emit("#" * 60)
        emit(f"D.rand.{i}")
        fresh_env(f"D_rand_{i}")
        FakeClock.t = datetime(2024, 2, 28, 12, 59, 58, tzinfo=timezone.utc)
        s = Session()
        for (g, inst, m, c, f) in seq:
            s.run(g, inst, m, c, file=f)
        dump_archive(full=False)


# ====================================================================== E
def section_e():
    emit("=" * 70)
    emit("E. error paths")
    fresh_env("E")
    FakeClock.t = datetime(2024, 2, 28, 23, 59, 58, tzinfo=timezone.utc)
    s = Session()
    s.run("p", "new", "collect_paths", "+1s", logs=True)
    for m in METHODS:
        s.run("nobody", "reused", m, "same", refs=False)
        s.run("p", "reused", m, "same", file="nofile", refs=False)
    emit(" -- a next_paths generator that is abandoned, then another run on the same instance")
    cp = s.cp
    gen = cp.next_paths(pathsname="p", filename="f", collect=True)
    emit("   before first next():", cp._run_time_str, run_dirs())
    emit("   first line:", next(gen))
    emit("   while suspended:", cp._run_time_str, cp._current_run_time is not None)
    gen2 = cp.next_paths(pathsname="pq", filename="f", collect=True)
    emit("   second generator first line:", attempt("next(gen2)", lambda: next(gen2)))
    emit("   while both suspended:", cp._run_time_str)
    gen.close()
    gen2.close()
    gc.collect()
    emit("   after close:", cp._run_time_str, run_dirs())
    s.snap, s.dirs = snapshot(), run_dirs()
    s.run("p", "reused", "collect_paths", "same", logs=True)
    s.run("p", "reused", "collect_paths", "+1s")
    emit(" -- a by_line generator abandoned")
    gen = cp.next_by_line(pathsname="pq", filename="f", collect=True)
    emit("   first line:", attempt("next(gen)", lambda: next(gen)))
    emit("   while suspended:", cp._run_time_str)
    gen.close()
    gc.collect()
    s.snap, s.dirs = snapshot(), run_dirs()
    s.run("pq", "reused", "collect_by_line", "same", logs=True)
    emit(" -- the run dir name is taken by a file")
    clock_step("+1s")
    open(os.path.join("archive", "p", FakeClock.t.strftime("%Y-%m-%d_%H-%M-%S")), "w").close()
    s.snap, s.dirs = snapshot(), run_dirs()
    s.run("p", "reused", "collect_paths", "same")
    s.run("p", "new", "collect_paths", "same")
    emit(" -- run_time_str / current_run_time / clear_run_coordination by hand")
    cp = new_instance()
    attempt("run_time_str() with nothing", lambda: cp.run_time_str())
    attempt("run_time_str('p')", lambda: cp.run_time_str("p"))
    attempt("run_time_str('pq') is sticky", lambda: cp.run_time_str("pq"))
    attempt("run_time_str()", lambda: cp.run_time_str())
    attempt("current_run_time", lambda: cp.current_run_time)
    cp.stop_all(); cp.fail_all(); cp.skip_all(); cp.advance_all(3)
    emit("   flags:", cp._stop_all, cp._fail_all, cp._skip_all, cp._advance_all)
    cp.clear_run_coordination()
    emit("   flags:", cp._stop_all, cp._fail_all, cp._skip_all, cp._advance_all, cp._current_run_time, cp._run_time_str)
    attempt("run_time_str('pq')", lambda: cp.run_time_str("pq"))
    attempt("get_run_time_str twice", lambda: (cp.results_manager.get_run_time_str("p", FakeClock.t), cp.results_manager.get_run_time_str("p", FakeClock.t)))
    emit(" -- results manager odds and ends")
    rm = s.cp.results_manager
    attempt("get_last_named_result(p)", lambda: rm.get_last_named_result(name="p").identity_or_index)
    attempt("get_last_named_result(nobody)", lambda: rm.get_last_named_result(name="nobody"))
    attempt("get_specific_named_result(p,two)", lambda: rm.get_specific_named_result("p", "two").run_dir)
    attempt("get_specific_named_result_manifest(p,two) keys", lambda: sorted(rm.get_specific_named_result_manifest("p", "two")))
    attempt("get_specific_named_result_manifest(p,zzz)", lambda: rm.get_specific_named_result_manifest("p", "zzz"))
    attempt("list_named_results", lambda: rm.list_named_results())
    attempt("remove_named_results(nobody)", lambda: rm.remove_named_results("nobody"))
    attempt("clean_named_results(nobody)", lambda: rm.clean_named_results("nobody"))
    attempt("clean_named_results(p)", lambda: rm.clean_named_results("p"))
    attempt("get_named_results(p) after clean", lambda: rm.get_named_results("p"))
    s.run("p", "reused", "collect_paths", "same")
    dump_archive(full=False)
    with open("archive/manifest.json") as f:
        emit("archive/manifest.json run_homes:", re.findall(r'"run_home": "([^"]*)"', f.read()))


def main():
    cwd = os.getcwd()
    try:
        section_a()
        section_b()
        section_c()
        section_d()
        section_e()
        emit("done")
    finally:
        os.chdir(cwd)
        shutil.rmtree(ROOT, ignore_errors=True)


if __name__ == "__main__":
    main()
