#!/usr/bin/env python
"""Differential demonstration for refactoring t2 (property C20).

Exercises Reference._variable_value / _header_value / get_results /
_get_value_from_results: variable and header references to groups that were
run 1-3 times, with and without tracking values, from standalone csvpaths
and from members of other groups, plus direct calls with hand-made results.
Prints a deterministic transcript of everything observable.

Run with cwd = an empty scratch directory:
    mkdir /tmp/demo_TWC20_t2 && cd /tmp/demo_TWC20_t2 && \
        PYTHONPATH=<tree> /venv/bin/python <this file>
The script creates ./config/config.ini itself (offline config, no listeners).
"""
import contextlib
import io
import json
import logging
import os
import re
import shutil
import sys
import time

CONFIG = """[csvpath_files]
extensions = txt, csvpath, csvpaths

[csv_files]
extensions = txt, csv, tsv, dat, tab, psv, ssv

[errors]
csvpath = raise, collect, stop, fail, print
csvpaths = raise, collect

[logging]
csvpath = info
csvpaths = info
log_file = logs/csvpath.log
log_files_to_keep = 100
log_file_size = 52428800

[config]
path = config/config.ini

[cache]
path = cache

[listeners]
[marquez]
base_url = http://localhost:5000

[functions]
imports = config/functions.imports

[results]
archive = archive
transfers = transfers

[inputs]
files = inputs/named_files
csvpaths = inputs/named_paths
on_unmatched_file_fingerprints = halt

"""

CWD = os.getcwd()
if os.path.exists(os.path.join(CWD, "csvpath", "csvpaths.py")):
    sys.exit("do not run the demo inside the source tree")
for d in ("archive", "cache", "logs", "inputs", "transfers", "config", "data"):
    shutil.rmtree(os.path.join(CWD, d), ignore_errors=True)
os.makedirs("config")
with open("config/config.ini", "w", encoding="utf-8") as fh:
    fh.write(CONFIG)
with open("config/functions.imports", "w", encoding="utf-8") as fh:
    fh.write("")
os.makedirs("data")

from csvpath import CsvPaths  # noqa: E402

FILES = {
    "plain": "a,b,c\n1,x,10\n2,y,20\n3,x,30\n4,z,40\n5,x,50\n6,y,60\n",
    "blanks": "a,b,c\n1,x,10\n\n2,y,20\n\n\n3,x,30\n,,\n4,x,0\n",
    "ragged": "a,b,c\n1,x\n2,y,20,extra\n3\n4,x,40\n5,x,50,e1,e2\n",
    "empties": "a,b,c\n1,,10\n2,x,\n,x,30\n0,x,0\n5,\"\",50\n",
    "quoted": 'a,b,c\n1,"x, y",10\n2,"say ""hi""",20\n3,x,"3\n0"\n4,x,40\n',
    "headeronly": "a,b,c\n",
    "empty": "",
}
for n, text in FILES.items():
    with open(f"data/{n}.csv", "w", encoding="utf-8", newline="") as fh:
        fh.write(text)

OUT = io.StringIO()


def say(*args):
    print(*args, file=OUT)


_RUN = re.compile(r"\d{4}-\d{2}-\d{2}_\d{2}-\d{2}-\d{2}(?:\.\d+)?")
_TS = re.compile(r"\d{4}-\d{2}-\d{2}[ T]\d{2}:\d{2}:\d{2}(?:[.,]\d+)?(?:\+00:00|Z)?")
_UUID = re.compile(r"[0-9a-f]{8}-[0-9a-f]{4}-[0-9a-f]{4}-[0-9a-f]{4}-[0-9a-f]{12}")
_ADDR = re.compile(r" at 0x[0-9a-f]+")


def normalise(text: str) -> str:
    seen = {}

    def run(m):
        k = m.group(0)
        if k not in seen:
            seen[k] = f"<RUN-{len(seen) + 1}>"
        return seen[k]

    text = text.replace(CWD, "<CWD>")
    text = _RUN.sub(run, text)
    text = _TS.sub("<TS>", text)
    text = _UUID.sub("<UUID>", text)
    text = _ADDR.sub(" at 0x..", text)
    return text


def new_paths() -> CsvPaths:
    cp = CsvPaths()
    for n in FILES:
        cp.file_manager.add_named_file(name=n, path=f"data/{n}.csv")
    return cp


def show_exception(label, ex):
    say(f"  {label}: {type(ex).__name__}: {ex}")


# keys whose values are clock readings, random ids, durations or hashes of
# files that contain those: not behaviour, dropped from the transcript
VOLATILE = {
    "time",
    "time_completed",
    "time_started",
    "uuid",
    "named_paths_uuid",
    "run_uuid",
    "named_file_last_change",
    "run_time",
    "run_started_at",
    "lines_time",
    "last_line_time",
    "trace",
}
STABLE_FINGERPRINTS = ("data.csv", "unmatched.csv", "vars.json")


def scrub(o):
    if isinstance(o, dict):
        out = {}
        for k, v in o.items():
            if k in VOLATILE:
                continue
            if k == "file_fingerprints" and isinstance(v, dict):
                v = {f: h for f, h in v.items() if f in STABLE_FINGERPRINTS}
            out[k] = scrub(v)
        return out
    if isinstance(o, list):
        return [scrub(_) for _ in o]
    return o


def show_result(i, r):
    cpath = r.csvpath
    say(f"  result[{i}] identity={r.identity_or_index!r} paths_name={r.paths_name!r} file_name={r.file_name!r}")
    say(f"    data_from_preceding={cpath.data_from_preceding} source_mode_preceding={r.source_mode_preceding}")
    say(f"    scanner.filename={cpath.scanner.filename if cpath.scanner else None}")
    say(f"    data_file_path={r.data_file_path}")
    say(f"    source-mode-source={cpath.metadata.get('source-mode-source')!r}")
    say(f"    metadata={json.dumps(cpath.metadata, sort_keys=True, default=str)}")
    say(f"    headers={cpath.headers}")
    say(f"    is_valid={r.is_valid} stopped={cpath.stopped} match_count={cpath.match_count}")
    say(f"    variables={json.dumps(cpath.variables, default=str)}")
    try:
        lines = list(r.lines.next()) if hasattr(r.lines, "next") else list(r.lines)
    except Exception as ex:  # pylint: disable=W0718
        lines = f"{type(ex).__name__}: {ex}"
    say(f"    len(lines)={len(r.lines)} lines={lines}")
    say(f"    unmatched={r.unmatched}")
    say(f"    errors={[(e.line_count, e.match_count, type(e.error).__name__, str(e.error)) for e in r.errors]}")
    say(f"    printouts={json.dumps(r.get_printouts(), default=str)}")


def show_results(cp, name):
    try:
        rs = cp.results_manager.get_named_results(name)
    except Exception as ex:  # pylint: disable=W0718
        show_exception(f"get_named_results({name!r})", ex)
        return
    say(f"  named results {name!r}: {len(rs)}")
    for i, r in enumerate(rs):
        show_result(i, r)
    rm = cp.results_manager
    say(f"  get_variables={json.dumps(rm.get_variables(name), default=str)}")
    say(f"  has_lines={rm.has_lines(name)} is_valid={rm.is_valid(name)} n={rm.get_number_of_results(name)} has_errors={rm.has_errors(name)}")
    last = rm.get_last_named_result(name=name)
    say(f"  last={None if last is None else last.identity_or_index!r}")
    say(f"  csvpaths.errors={[(type(e.error).__name__, str(e.error)) for e in cp.errors]}")


def show_archive():
    say("  -- archive listing --")
    for root, dirs, files in os.walk("archive"):
        dirs.sort()
        for f in sorted(files):
            p = os.path.join(root, f)
            size = os.path.getsize(p) if f.endswith(".csv") else "-"
            say(f"  {p} ({size})")
            if f in ("data.csv", "unmatched.csv"):
                with open(p, "r", encoding="utf-8", newline="") as fh:
                    say(f"      content={fh.read()!r}")
            elif f.endswith(".json"):
                with open(p, "r", encoding="utf-8") as fh:
                    try:
                        m = json.load(fh)
                    except Exception as ex:  # pylint: disable=W0718
                        say(f"      unreadable json {type(ex).__name__}")
                        continue
                say(f"      json={json.dumps(scrub(m), default=str)}")
            elif f == "printouts.txt":
                with open(p, "r", encoding="utf-8") as fh:
                    say(f"      content={fh.read()!r}")


def reset_archive():
    shutil.rmtree("archive", ignore_errors=True)


# ---------------------------------------------------------------------------
# references: $group.variables.v[.key] and $group.headers.h[.id]
# ---------------------------------------------------------------------------
from csvpath import CsvPath  # noqa: E402
from csvpath.matching.productions.reference import Reference  # noqa: E402

_LAST_START = [0]


def fresh_second():
    """run dirs are named for the second the run starts in; two runs in the same
    second get a .N suffix, which is timing dependent. every group run of the
    demo starts in a second of its own."""
    while int(time.time()) <= _LAST_START[0]:
        time.sleep(0.02)
    _LAST_START[0] = int(time.time())


def run_group(cp, method, pathsname, filename):
    fresh_second()
    try:
        if method == "collect":
            cp.collect_paths(pathsname=pathsname, filename=filename)
        elif method == "ff":
            cp.fast_forward_paths(pathsname=pathsname, filename=filename)
        elif method == "next":
            got = list(cp.next_paths(pathsname=pathsname, filename=filename))
            say(f"  next_paths yielded {got}")
    except Exception as ex:  # pylint: disable=W0718
        show_exception(f"{method} {pathsname}/{filename} raised", ex)


VARS_GROUP = [
    """~ id: tally
   validation-mode: no-raise, no-stop, print ~
$[*][
    @total = count_lines()
    @zero = 0
    @empty = ""
    @nothing = none()
    @flag = no()
    @truth = yes()
    track.bycity(#1, #2)
    @fixed.k = #0
    @last_a = #0
    push("as", #0)
    track.seen(#1, #0)
    @shared = "from-tally"
]""",
    """~ id: second
   validation-mode: no-raise, no-stop, print ~
$[*][
    @shared = "from-second"
    @only_second = count()
    track.bycity(#1, "second")
]""",
]

HDR_GROUP = ["~ id: only ~ $[*][ yes() ]"]

MULTI_GROUP = [
    '~ id: one ~ $[*][ #1 == "x" ]',
    '~ name: two ~ $[*][ not(#1 == "x") ]',
    "~ id: three\n source-mode: preceding ~ $[*][ yes() ]",
]

SUBSET_GROUP = ["~ id: sub ~ $[*][ yes() collect(2, 0) ]"]
NOMATCH_GROUP = ["~ id: nm ~ $[*][ no() ]"]

# match parts of referring csvpaths
VARIABLE_REFS = [
    "@r = $vars.variables.total",
    "@r = $vars.variables.zero",
    "@r = $vars.variables.empty",
    "@r = $vars.variables.nothing",
    "@r = $vars.variables.flag",
    "@r = $vars.variables.truth",
    "@r = $vars.variables.bycity",
    "@r = $vars.variables.bycity.x",
    "@r = $vars.variables.bycity.y",
    "@r = $vars.variables.bycity.nosuchkey",
    "@r = $vars.variables.bycity.b",
    "@r = $vars.variables.as",
    "@r = $vars.variables.as.1",
    "@r = $vars.variables.seen.x",
    "@r = $vars.variables.fixed.k",
    "@r = $vars.variables.fixed.j",
    "@r = $vars.variables.total.x",
    "@r = $vars.variables.empty.x",
    "@r = $vars.variables.zero.x",
    "@r = $vars.variables.last_a.1",
    "@r = $vars.variables.shared",
    "@r = $vars.variables.only_second",
    "@r = $vars.variables.nosuchvar",
    "@r = $vars.variables.nosuchvar.x",
    "@r = $nogroup.variables.total",
    "@r = $vars.metadata.id",
    "@r = $vars.csvpaths.tally",
    "$vars.variables.total",
    "$vars.variables.zero",
    "$vars.variables.nothing",
    "$vars.variables.bycity.nosuchkey",
    "$vars.variables.bycity.x",
    "@l = length($vars.variables.as) @m = $vars.variables.total @n = add($vars.variables.total, $vars.variables.zero)",
    "equals(#2, $vars.variables.bycity.y)",
    '#2 == $vars.variables.bycity.y',
    'print("total $vars.variables.total zero $vars.variables.zero city $vars.variables.bycity.x")',
]

HEADER_REFS = [
    ("hdr", "@r = $hdr.headers.a"),
    ("hdr", "@r = $hdr.headers.b"),
    ("hdr", "@r = $hdr.headers.c"),
    ("hdr", "@r = $hdr.headers.nosuch"),
    ("hdr", "@r = $hdr.headers.b.only"),
    ("hdr", "@r = $hdr.headers.b.nobody"),
    ("hdr", "$hdr.headers.c"),
    ("hdr", "@i = in(#1, $hdr.headers.b) @l = length($hdr.headers.a) @e = empty($hdr.headers.c)"),
    ("hdr", "in(#0, $hdr.headers.a)"),
    ("multi", "@r = $multi.headers.b"),
    ("multi", "@r = $multi.headers.b.one"),
    ("multi", "@r = $multi.headers.b.two"),
    ("multi", "@r = $multi.headers.b.three"),
    ("multi", "@r = $multi.headers.a.four"),
    ("multi", "@r = $multi.headers.nosuch.one"),
    ("multi", '@i1 = in("x", $multi.headers.b.one) @i2 = in("x", $multi.headers.b.two)'),
    ("subset", "@r = $subset.headers.a"),
    ("subset", "@r = $subset.headers.c"),
    ("nomatch", "@r = $nomatch.headers.a"),
    ("ffonly", "@r = $ffonly.headers.a"),
    ("nogroup", "@r = $nogroup.headers.a"),
]


def refer(cp, match, *, file="data/plain.csv", scan="1-2", mode=None, label=""):
    """runs a referring csvpath created by the CsvPaths and shows all of it"""
    path = cp.csvpath() if cp is not None else CsvPath()
    comment = f"~ {mode} ~ " if mode else ""
    text = f"{comment}${file}[{scan}][ {match} ]"
    say(f"  >> {label}{text}")
    try:
        path.parse(text)
        lines = path.collect()
        say(f"     lines={lines}")
    except Exception as ex:  # pylint: disable=W0718
        show_exception("     raised", ex)
    say(f"     variables={json.dumps(path.variables, default=str)}")
    say(
        f"     is_valid={path.is_valid} stopped={path.stopped} match_count={path.match_count} has_errors={path.has_errors()}"
    )
    errs = path.errors or []
    say(
        f"     errors={[(e.line_count, type(e.error).__name__, str(e.error)) for e in errs]}"
    )
    return path


def variable_section(runs):
    say(f"=== variable references after {runs} run(s) of the group")
    reset_archive()
    cp = new_paths()
    cp.paths_manager.add_named_paths(name="vars", paths=VARS_GROUP)
    files = ["plain", "empties", "blanks"]
    for k in range(runs):
        run_group(cp, "collect" if k % 2 == 0 else "ff", "vars", files[k])
    show_results(cp, "vars")
    for match in VARIABLE_REFS:
        refer(cp, match)
    # error policy without raise: errors are collected and printed
    for match in VARIABLE_REFS[14:25]:
        refer(cp, match, mode="validation-mode: no-raise, no-stop, print", label="(no-raise) ")
    # every line of other files
    for f in ("blanks", "ragged", "headeronly", "empty"):
        refer(cp, "@r = $vars.variables.bycity.x $vars.variables.total", file=f"data/{f}.csv", scan="*")
    return cp


def header_section(runs):
    say(f"=== header references after {runs} run(s) of the groups")
    reset_archive()
    cp = new_paths()
    pm = cp.paths_manager
    pm.add_named_paths(name="hdr", paths=HDR_GROUP)
    pm.add_named_paths(name="multi", paths=MULTI_GROUP)
    pm.add_named_paths(name="subset", paths=SUBSET_GROUP)
    pm.add_named_paths(name="nomatch", paths=NOMATCH_GROUP)
    pm.add_named_paths(name="ffonly", paths=HDR_GROUP)
    files = ["plain", "ragged", "empties"]
    for k in range(runs):
        for g in ("hdr", "multi", "subset", "nomatch"):
            run_group(cp, "collect", g, files[k])
        run_group(cp, "ff", "ffonly", files[k])
    for g in ("hdr", "multi", "subset", "nomatch", "ffonly"):
        show_results(cp, g)
    for _, match in HEADER_REFS:
        refer(cp, match)
    for _, match in HEADER_REFS[3:6] + HEADER_REFS[9:15] + HEADER_REFS[18:]:
        refer(cp, match, mode="validation-mode: no-raise, no-stop, print", label="(no-raise) ")
    return cp


def header_files_section():
    say("=== header references over every kind of file")
    reset_archive()
    cp = new_paths()
    cp.paths_manager.add_named_paths(name="hdr", paths=HDR_GROUP)
    for f in FILES:
        say(f" -- hdr collected from {f}")
        run_group(cp, "collect", "hdr", f)
        show_results(cp, "hdr")
        for h in ("a", "b", "c"):
            refer(cp, f"@r = $hdr.headers.{h} @n = length($hdr.headers.{h})", scan="1")
    return cp


class FakeLines:
    def __init__(self, lines, boom_at=None):
        self._lines = lines
        self.boom_at = boom_at

    def next(self):
        for i, line in enumerate(self._lines):
            if i == self.boom_at:
                raise RuntimeError("spool broke")
            yield line


class FakeCsvPath:
    def __init__(self, headers):
        self.headers = headers

    def header_index(self, name):
        for i, n in enumerate(self.headers):
            if n == name:
                return i
        return -1 if name == "minus" else None


class FakeResult:
    def __init__(self, headers, lines, boom_at=None):
        self.csvpath = FakeCsvPath(headers)
        self.lines = FakeLines(lines, boom_at)


class StubMatcher:
    """just enough matcher for Reference's private lookups"""

    validity_checked = False

    def __init__(self, csvpath):
        self.csvpath = csvpath
        self.cachers = []

    def _cache_me(self, m):
        self.cachers.append(m)


def direct_section():
    say("=== direct calls on Reference")
    reset_archive()
    cp = new_paths()
    pm = cp.paths_manager
    pm.add_named_paths(name="vars", paths=VARS_GROUP)
    pm.add_named_paths(name="hdr", paths=HDR_GROUP)
    pm.add_named_paths(name="multi", paths=MULTI_GROUP)
    pm.add_named_paths(name="nomatch", paths=NOMATCH_GROUP)
    pm.add_named_paths(name="ffonly", paths=HDR_GROUP)
    for g in ("vars", "hdr", "multi", "nomatch"):
        run_group(cp, "collect", g, "empties")
        run_group(cp, "collect", g, "plain")
    run_group(cp, "ff", "ffonly", "plain")
    cp_vars = cp_hdr = cp
    # _get_value_from_results with values a data.csv cannot hold
    odd = [
        ["1", " x ", None],
        [None, "", 0],
        [],
        ["3"],
        [0, 0.0, False],
        ["  ", "\ty\n", "z", "extra"],
        [None, None, None],
        [4, ["nested"], {"k": 1}],
    ]
    ref = Reference(StubMatcher(cp_hdr.csvpath()), name="g.headers.b")
    for name in ("a", "b", "c", "minus", "absent"):
        for boom in (None, 3):
            try:
                v = ref._get_value_from_results(
                    {"name": name}, FakeResult(["a", "b", "c"], odd, boom)
                )
                say(f"  _get_value_from_results({name!r}, boom_at={boom}) -> {v!r}")
            except Exception as ex:  # pylint: disable=W0718
                show_exception(f"_get_value_from_results({name!r}, boom_at={boom})", ex)
    say(f"  empty result -> {ref._get_value_from_results({'name': 'a'}, FakeResult(['a'], []))!r}")
    # private lookups against real results
    for cp, names in (
        (
            cp_vars,
            [
                "vars.variables.total",
                "vars.variables.zero",
                "vars.variables.empty",
                "vars.variables.nothing",
                "vars.variables.bycity",
                "vars.variables.bycity.x",
                "vars.variables.bycity.nosuchkey",
                "vars.variables.bycity.",
                "vars.variables.total.",
                "vars.variables.total.x",
                "vars.variables.as.1",
                "vars.variables.nosuchvar",
                "vars.variables.nosuchvar.k",
                "nogroup.variables.total",
                "vars.headers.a",
                "vars.headers.a.tally",
                "vars.headers.a.second",
                "vars.headers.a.third",
            ],
        ),
        (
            cp_hdr,
            [
                "hdr.headers.a",
                "hdr.headers.b.only",
                "hdr.headers.b.nobody",
                "multi.headers.b",
                "multi.headers.b.one",
                "multi.headers.b.two",
                "multi.headers.b.three",
                "multi.headers.b.four",
                "multi.headers.b.",
                "hdr.headers.b.",
                "nomatch.headers.a",
                "ffonly.headers.a",
                "nogroup.headers.a",
                "hdr.variables.x",
            ],
        ),
    ):
        for name in names:
            r = Reference(StubMatcher(cp.csvpath()), name=name)
            for fn in ("_variable_value", "_header_value", "get_results"):
                try:
                    v = getattr(r, fn)()
                    if fn == "get_results":
                        v = f"Result({v.identity_or_index!r}, {v.paths_name!r})"
                    say(f"  {name}: {fn}() -> {v!r}")
                except Exception as ex:  # pylint: disable=W0718
                    say(f"  {name}: {fn}() raised {type(ex).__name__}: {ex.args!r}")
    # no CsvPaths instance
    r = Reference(StubMatcher(CsvPath()), name="vars.variables.total")
    for fn in ("_variable_value", "_header_value", "get_results"):
        try:
            say(f"  no csvpaths: {fn}() -> {getattr(r, fn)()!r}")
        except Exception as ex:  # pylint: disable=W0718
            say(f"  no csvpaths: {fn}() raised {type(ex).__name__}: {ex.args!r}")
    refer(None, "@r = $vars.variables.total", label="(no CsvPaths) ")
    refer(None, "@r = $vars.headers.a", label="(no CsvPaths) ")
    refer(None, "@r = $vars.csvpaths.tally", label="(no CsvPaths) ")


def main():
    for runs in (1, 2, 3):
        variable_section(runs)
    for runs in (1, 2, 3):
        header_section(runs)
    header_files_section()
    direct_section()
    # references between groups in one CsvPaths: the referring csvpath is itself
    # a member of a named-paths group, so the lookups land in its results
    say("=== references from one group to another")
    reset_archive()
    cp = new_paths()
    cp.paths_manager.add_named_paths(name="vars", paths=VARS_GROUP)
    cp.paths_manager.add_named_paths(name="hdr", paths=HDR_GROUP)
    cp.paths_manager.add_named_paths(
        name="user",
        paths=[
            """~ id: u1
   validation-mode: no-raise, no-stop, print ~
$[*][ @t = $vars.variables.total @c = $vars.variables.bycity.x in(#1, $hdr.headers.b) ]""",
            """~ id: u2
   source-mode: preceding
   validation-mode: no-raise, no-stop, print ~
$[*][ @t = $vars.variables.nosuchvar ]""",
            """~ id: u3
   validation-mode: no-raise, no-stop, print ~
$[*][ @own = $user.variables.t @ownh = $user.headers.b.u1 ]""",
        ],
    )
    for k, f in enumerate(("plain", "empties", "ragged")):
        say(f" -- round {k + 1} on {f}")
        run_group(cp, "collect", "vars", f)
        run_group(cp, "collect", "hdr", f)
        run_group(cp, "collect", "user", "blanks")
        show_results(cp, "user")
    show_archive()


if __name__ == "__main__":
    logging.disable(logging.CRITICAL)
    # library printouts (print_default, error policy "print") are interleaved
    # with the transcript in the order they happen
    with contextlib.redirect_stdout(OUT), contextlib.redirect_stderr(OUT):
        try:
            main()
        except BaseException as ex:  # pylint: disable=W0718
            say(f"DEMO ABORTED: {type(ex).__name__}: {ex}")
            import traceback

            say(traceback.format_exc())
    # run-dir names are normalised per scenario (the archive is emptied between
    # scenarios so the same second may or may not recur)
    for section in re.split(r"(?m)^(?==== )", OUT.getvalue()):
        sys.stdout.write(normalise(section))
