#!/usr/bin/env python
"""Differential demonstration for property C05:
"Errors in match components are handled exactly as the error policy says".

The script only uses features that exist in unmodified HEAD. It prints a
deterministic transcript of everything observable: returned lines, variables,
validity, stopped, collected errors (line/match/scan counts, message, class,
source, filename, normalised trace), printer lines, captured stdout, raised
exceptions (type, message, cause) and, for CsvPaths runs, the archive listing
and the normalised content of the archive files.

usage (in an EMPTY temp dir):
    cd /tmp/demo_X && PYTHONPATH=<tree> /venv/bin/python demo.py > out.txt

Normalisations (all are things that legitimately differ from run to run or
from one source revision to the next and are unrelated to the property):
  * wall-clock timestamps, run-dir names, uuids, timings, object addresses in
    default reprs, fingerprints of files that embed timestamps
  * python tracebacks are reduced to "<file basename>:<function>" frames plus
    the final "<exception>: <message>" line, i.e. source line numbers and the
    quoted source text are dropped
"""
import contextlib
import hashlib
import io
import itertools
import json
import os
import re
import shutil
import sys

OUT = []


def out(s=""):
    OUT.append(str(s))


CONFIG = """[csvpath_files]
extensions = txt, csvpath, csvpaths

[csv_files]
extensions = txt, csv, tsv, dat, tab, psv, ssv

[errors]
csvpath = {csvpath_policy}
csvpaths = {csvpaths_policy}

[logging]
csvpath = info
csvpaths = info
log_file = logs/csvpath.log
log_files_to_keep = 100
log_file_size = 52428800

[config]
path = config/config.ini

[cache]
path = cache

[listeners]
[marquez]
base_url = http://localhost:5000

[functions]
imports = config/functions.imports

[results]
archive = archive
transfers = transfers

[inputs]
files = inputs/named_files
csvpaths = inputs/named_paths
on_unmatched_file_fingerprints = halt
"""

FLAGS = ["raise", "collect", "stop", "fail", "print", "quiet"]


def write_config(csvpath_policy, csvpaths_policy=("raise", "collect")):
    os.makedirs("config", exist_ok=True)
    with open("config/config.ini", "w", encoding="utf-8") as f:
        f.write(
            CONFIG.format(
                csvpath_policy=", ".join(csvpath_policy),
                csvpaths_policy=", ".join(csvpaths_policy),
            )
        )
    with open("config/functions.imports", "a", encoding="utf-8"):
        pass


FILES = {
    # line 0 header, 1 ok, 2 bad 'x' & zero divisor, 3 blank (skipped), 4 empty
    # value, 5 ragged short, 6 ragged long, 7 zeros
    "f.csv": "a,b,c\n1,2.5,3\nx,0,5\n\n4,,6\n7,8\n9,10,11,12\n0,0,0\n",
    # offending line first
    "first.csv": "a,b,c\nx,0,5\n1,2,3\n4,5,6\n",
    # offending line last, no trailing newline
    "last.csv": "a,b,c\n1,2,3\n4,5,6\nx,0,5",
    # offending line last and then a blank last line
    "lastblank.csv": "a,b,c\n1,2,3\nx,0,5\n\n",
    # every data line offends
    "all.csv": "a,b,c\nx,0,1\ny,0,2\nz,0,3\n",
    # no offending line
    "none.csv": "a,b,c\n1,2,3\n4,5,6\n",
    # header only / empty
    "header.csv": "a,b,c\n",
    "empty.csv": "",
}


def write_files():
    for name, content in FILES.items():
        with open(name, "w", encoding="utf-8") as f:
            f.write(content)


TS = re.compile(r"\d{4}-\d\d-\d\d[ T_]\d\d[:\-]\d\d[:\-]\d\d(\.\d+)?(\+00:00)?(_\d+)?")
FRAME = re.compile(r'^\s*File "([^"]+)", line \d+, in (\S+)\s*$')
HEX64 = re.compile(r"\b[0-9a-f]{64}\b")
ADDR = re.compile(r" at 0x[0-9a-f]+")
UUID = re.compile(r"\b[0-9a-f]{8}-[0-9a-f]{4}-[0-9a-f]{4}-[0-9a-f]{4}-[0-9a-f]{12}\b")


def norm_trace(trace):
    if trace is None:
        return None
    frames = []
    last = ""
    for line in str(trace).split("\n"):
        m = FRAME.match(line)
        if m:
            frames.append(f"{os.path.basename(m.group(1))}:{m.group(2)}")
        elif line.strip() != "" and not line.startswith(" "):
            last = line.strip()
    return " > ".join(frames) + " || " + last


def norm_text(s):
    s = TS.sub("<TS>", s)
    s = UUID.sub("<UUID>", s)
    s = ADDR.sub(" at <ADDR>", s)
    return s


def digest(s):
    if s is None:
        return None
    s = re.sub(r'matcher_id\\?":\\?"[0-9a-f]+', "matcher_id:<ID>", str(s))
    return f"{len(s)}:{hashlib.md5(s.encode('utf-8')).hexdigest()[:12]}"


def describe_exception(e):
    chain = []
    seen = 0
    while e is not None and seen < 5:
        chain.append(f"{type(e).__name__}: {e}")
        e = e.__cause__
        seen += 1
    return " <- ".join(chain)


def describe_error(e):
    # e is a csvpath.util.error.Error
    return (
        f"line={e.line_count} match={e.match_count} scan={e.scan_count} "
        f"class={getattr(e, 'exception_class', None)} error={str(e.error)!r} "
        f"message={e.message!r} filename={e.filename!r} datum={e.datum!r} "
        f"source={norm_text(str(e.source))!r} json={digest(e.json)} "
        f"trace={norm_trace(e.trace)!r}"
    )


class ListPrinter:
    """a minimal Printer that remembers what it was sent"""

    def __init__(self):
        self.lines = []

    @property
    def last_line(self):
        return self.lines[-1] if self.lines else None

    @property
    def lines_printed(self):
        return len(self.lines)

    def print(self, string):
        self.lines.append(f"{string}")

    def print_to(self, name, string):
        self.lines.append(f"[{name}] {string}")


def run_path(tag, csvpath_str, policy, *, method="collect", post_policy=None, runs=1):
    """one standalone CsvPath run. policy goes into config.ini BEFORE the CsvPath
    is created. post_policy, if given, is set programmatically afterwards."""
    from csvpath import CsvPath

    out(f"--- {tag} | policy={list(policy)} post={post_policy} method={method}")
    out(f"    path: {csvpath_str}")
    write_config(policy)
    buf = io.StringIO()
    path = None
    lp = ListPrinter()
    for run in range(runs):
        result = None
        exc = None
        partial = []
        with contextlib.redirect_stdout(buf):
            try:
                if run == 0:
                    path = CsvPath()
                    path.add_printer(lp)
                    if post_policy is not None:
                        path.config.csvpath_errors_policy = post_policy
                    path.parse(csvpath_str)
                if method == "collect":
                    result = path.collect()
                elif method == "fast_forward":
                    path.fast_forward()
                    result = "ff-done"
                elif method == "next":
                    for line in path.next():
                        partial.append(line)
                    result = "next-done"
            except Exception as e:  # pylint: disable=W0718
                exc = describe_exception(e)
        if runs > 1:
            out(f"    run {run}:")
        out(f"    result: {result!r}")
        if method == "next":
            out(f"    yielded: {partial!r}")
        out(f"    exception: {exc}")
        if path is None:
            continue
        out(
            f"    valid={path.is_valid} stopped={path.stopped} "
            f"line={path.line_monitor.physical_line_number if path.line_monitor else None} "
            f"matches={path.match_count} scans={path.scan_count}"
        )
        out(f"    variables: {json.dumps(path.variables, sort_keys=True, default=str)}")
        errs = path.errors or []
        out(f"    has_errors={path.has_errors()} errors: {len(errs)}")
        for e in errs:
            out(f"      {describe_error(e)}")
        out(f"    printer: {lp.lines!r}")
        out(f"    stdout: {buf.getvalue()!r}")


#
# the error kinds
#
KINDS = {
    # argument type mismatch found by Args line-by-line
    "argtype": "$f.csv[1*][@x = int(#a)]",
    # a function's own rule, delivered with raise_if
    "rule": '$f.csv[1*][decimal.strict("b")]',
    # python exceptions (ValueError on '', ZeroDivisionError) inside a function,
    # on the right-hand side of a when/do and an assignment
    "pyexc": "$f.csv[1*][yes() -> @y = mod(#c, #b)]",
    # nested: or() holds its children's rule errors and forwards them, giving one
    # expression several errors on one line; second expression also errors
    "nested": '$f.csv[1*][or(decimal.strict("a"), decimal.strict("b")) @z = subtract(#a, "q")]',
}


def section_a():
    out("=" * 78)
    out("SECTION A: all 64 policy subsets x error kinds (config.ini policy)")
    out("=" * 78)
    for n in range(len(FLAGS) + 1):
        for subset in itertools.combinations(FLAGS, n):
            for kind, p in KINDS.items():
                run_path(f"A/{kind}", p, subset)


MODES = [
    "raise",
    "no-raise",
    "no-raise, no-stop",
    "no-raise, no-stop, no-fail, no-print",
    "no-raise, stop",
    "no-raise, fail",
    "no-raise, print",
    "no-raise, no-stop, match",
    "no-raise, no-stop, no-match",
    "raise, match",
    "stop, fail, print, raise",
    "no-print, no-fail",
]
BASES = [
    ["raise", "collect", "stop", "fail", "print"],
    ["collect"],
    ["quiet"],
    ["print", "collect", "fail"],
    ["stop", "collect"],
]


def section_b():
    out("=" * 78)
    out("SECTION B: validation-mode overrides per csvpath")
    out("=" * 78)
    for base in BASES:
        for mode in MODES:
            for kind in ["argtype", "rule", "pyexc", "nested"]:
                p = f"~ validation-mode: {mode} ~ {KINDS[kind]}"
                run_path(f"B/{kind}", p, base)


def section_c():
    out("=" * 78)
    out("SECTION C: positions of offending lines, methods, repeated runs, structure errors")
    out("=" * 78)
    policies = [
        ["collect", "stop"],
        ["collect"],
        ["raise"],
        ["print", "fail"],
        ["collect", "stop", "fail", "print"],
    ]
    for fname in [
        "first.csv",
        "last.csv",
        "lastblank.csv",
        "all.csv",
        "none.csv",
        "header.csv",
        "empty.csv",
    ]:
        for policy in policies:
            for method in ["collect", "next", "fast_forward"]:
                run_path(
                    f"C/pos/{fname}",
                    f"${fname}[1*][@x = int(#a) @y = mod(#c, #b)]",
                    policy,
                    method=method,
                )
    # last() on a blank last line runs outside Expression.matches
    for policy in policies:
        run_path(
            "C/last-on-blank",
            '$lastblank.csv[*][last.nocontrib() -> @q = mod("7", 0) @n = count_lines()]',
            policy,
        )
        run_path(
            "C/last-on-blank-argtype",
            '$lastblank.csv[*][last.nocontrib() -> @q = int("abc")]',
            policy,
        )
    # scan parts that start at, skip or end on the offending line
    for scan in ["*", "0", "2", "1-2", "3*", "2+4", "5*"]:
        for policy in [["collect", "stop"], ["collect", "print"], ["raise", "collect"]]:
            run_path("C/scan", f"$f.csv[{scan}][@x = int(#a)]", policy)
    # OR logic and onmatch
    for policy in [["collect"], ["collect", "stop", "fail"], ["raise", "print"]]:
        run_path(
            "C/or-logic",
            "~ logic-mode: OR ~ $f.csv[1*][@x = int(#a) #b == 8]",
            policy,
        )
        run_path(
            "C/onmatch",
            "$f.csv[1*][#c == 5 @y.onmatch = mod(#c, #b) @n = count()]",
            policy,
        )
    # repeated runs of one instance
    for policy in [["collect", "print"], ["collect", "stop", "fail"], ["raise", "collect"]]:
        run_path("C/repeat", "$f.csv[1*][@x = int(#a)]", policy, runs=3)
    # structure (pre-iteration) errors found by check_valid
    for policy in [
        ["raise"],
        ["collect"],
        ["collect", "print", "fail", "stop"],
        ["quiet"],
        ["raise", "collect", "stop", "fail", "print"],
    ]:
        for p in [
            '$f.csv[*][add("a")]',
            "$f.csv[*][int()]",
            "$f.csv[*][decimal.strict(#b)]",
            '$f.csv[*][decimal("b", yes())]',
            "~ validation-mode: no-raise, no-print ~ $f.csv[*][int()]",
            "~ validation-mode: raise ~ $f.csv[*][int()]",
        ]:
            run_path("C/structure", p, policy)
    # the policy is changed programmatically after the CsvPath was created.
    for pre, post in [
        (["raise"], ["collect"]),
        (["collect"], ["raise"]),
        (["collect", "print"], ["stop", "fail"]),
        (["raise", "collect", "stop", "fail", "print"], ["quiet"]),
        (["collect"], []),
    ]:
        for kind in ["argtype", "rule", "pyexc"]:
            run_path(f"C/post-policy/{kind}", KINDS[kind], pre, post_policy=post)


VOLATILE_KEYS = {
    "time",
    "uuid",
    "run_time",
    "lines_time",
    "last_line_time",
    "run_started_at",
    "time_completed",
    "at",
    "named_paths_uuid",
    "named_file_last_change",
}


def norm_json(o, key=None):
    if isinstance(o, dict):
        ret = {}
        for k in sorted(o.keys()):
            v = o[k]
            if k in VOLATILE_KEYS:
                ret[k] = "<VOLATILE>"
            elif k == "trace":
                ret[k] = norm_trace(v)
            elif k == "json":
                ret[k] = digest(v)
            elif k == "file_fingerprints" and isinstance(v, dict):
                # meta, errors and manifests embed timestamps
                ret[k] = {
                    fk: (fv if fk in ("data.csv", "vars.json", "printouts.txt", "unmatched.csv") else "<FP>")
                    for fk, fv in sorted(v.items())
                }
            else:
                ret[k] = norm_json(v, k)
        return ret
    if isinstance(o, list):
        return [norm_json(_) for _ in o]
    if isinstance(o, str):
        return norm_text(o)
    return o


def dump_tree(root):
    if not os.path.exists(root):
        out(f"    (no {root})")
        return
    for dirpath, dirs, files in os.walk(root):
        dirs.sort()
        for f in sorted(files):
            p = os.path.join(dirpath, f)
            out(f"    FILE {norm_text(p)}")
            with open(p, "r", encoding="utf-8") as fh:
                content = fh.read()
            if f.endswith(".json"):
                try:
                    j = norm_json(json.loads(content))
                    content = json.dumps(j, indent=1, sort_keys=True)
                except Exception as e:  # pylint: disable=W0718
                    content = f"<unparsable {type(e).__name__}> {norm_text(content)}"
            else:
                content = norm_text(content)
            for line in content.split("\n"):
                out(f"      | {line}")


def run_group(tag, paths, csvpath_policy, csvpaths_policy, method="collect_paths"):
    from csvpath import CsvPaths

    out(f"--- {tag} | csvpath={csvpath_policy} csvpaths={csvpaths_policy} method={method}")
    for p in paths:
        out(f"    path: {p}")
    for d in ["archive", "inputs", "cache"]:
        shutil.rmtree(d, ignore_errors=True)
    write_config(csvpath_policy, csvpaths_policy)
    buf = io.StringIO()
    exc = None
    cp = None
    yielded = []
    with contextlib.redirect_stdout(buf):
        try:
            cp = CsvPaths()
            cp.file_manager.add_named_file(name="f", path="f.csv")
            cp.paths_manager.add_named_paths(name="grp", paths=paths)
            if method == "collect_paths":
                cp.collect_paths(filename="f", pathsname="grp")
            elif method == "fast_forward_paths":
                cp.fast_forward_paths(filename="f", pathsname="grp")
            elif method == "next_paths":
                for line in cp.next_paths(filename="f", pathsname="grp"):
                    yielded.append(line)
            elif method == "collect_by_line":
                cp.collect_by_line(filename="f", pathsname="grp")
            elif method == "next_by_line":
                for line in cp.next_by_line(filename="f", pathsname="grp"):
                    yielded.append(line)
        except Exception as e:  # pylint: disable=W0718
            exc = describe_exception(e)
    out(f"    exception: {exc}")
    if method.startswith("next"):
        out(f"    yielded: {yielded!r}")
    if cp is not None:
        out(f"    csvpaths errors: {[str(e.error) for e in cp.errors]}")
        try:
            results = cp.results_manager.get_named_results("grp")
        except Exception as e:  # pylint: disable=W0718
            results = []
            out(f"    no results: {describe_exception(e)}")
        for r in results or []:
            out(
                f"    result {r.csvpath.identity}: valid={r.is_valid} "
                f"stopped={r.csvpath.stopped} lines={len(r.lines) if r.lines is not None else None}"
            )
            out(f"      variables: {json.dumps(r.variables, sort_keys=True, default=str)}")
            out(f"      errors_count={r.errors_count} has_errors={r.has_errors()}")
            for e in r.errors or []:
                out(f"        {describe_error(e)}")
            out(f"      printouts: {list(r.printouts)!r} all={json.dumps(r.get_printouts(), sort_keys=True)}")
    out(f"    stdout: {norm_text(buf.getvalue())!r}")
    dump_tree("archive")


def section_d():
    out("=" * 78)
    out("SECTION D: CsvPaths groups: per-csvpath validation-mode, archive contents")
    out("=" * 78)
    group = [
        "~ id: one validation-mode: no-raise, no-stop ~ $[1*][@x = int(#a)]",
        '~ id: two validation-mode: no-raise, stop, fail, no-print ~ $[1*][decimal.strict("b")]',
        "~ id: three ~ $[*][yes()]",
        "~ id: four validation-mode: no-raise, no-stop, no-fail, match ~ $[1*][yes() -> @y = mod(#c, #b)]",
    ]
    for csvpath_policy, csvpaths_policy in [
        (["raise", "collect", "stop", "fail", "print"], ["raise", "collect"]),
        (["collect", "print"], ["collect"]),
        (["quiet"], ["quiet"]),
        (["collect", "stop", "fail"], ["raise"]),
    ]:
        for method in ["collect_paths", "fast_forward_paths", "next_paths", "collect_by_line"]:
            run_group("D/modes", group, csvpath_policy, csvpaths_policy, method)
    # no validation-mode at all: config decides. raise reaches the caller.
    plain = ["~ id: p1 ~ $[1*][@x = int(#a)]", "~ id: p2 ~ $[*][yes()]"]
    for csvpath_policy, csvpaths_policy in [
        (["raise", "collect"], ["raise", "collect"]),
        (["raise", "collect"], ["collect"]),
        (["collect"], ["raise"]),
        (["print", "stop"], ["collect"]),
    ]:
        for method in ["collect_paths", "next_by_line"]:
            run_group("D/plain", plain, csvpath_policy, csvpaths_policy, method)


def section_e():
    """drives the error handling classes directly"""
    from csvpath import CsvPath, CsvPaths
    from csvpath.util.error import (
        Error,
        ErrorHandler,
        ErrorCommsManager,
        ErrorHandlingException,
    )
    from csvpath.matching.util.exceptions import ChildrenException, MatchException

    out("=" * 78)
    out("SECTION E: ErrorCommsManager / ErrorHandler / Expression / Args driven directly")
    out("=" * 78)
    for d in ["archive", "inputs", "cache"]:
        shutil.rmtree(d, ignore_errors=True)
    # E1: ErrorCommsManager decisions
    try:
        ErrorCommsManager()
    except Exception as e:  # pylint: disable=W0718
        out(f"E1 ecm(): {describe_exception(e)}")
    try:
        ErrorHandler()
    except Exception as e:  # pylint: disable=W0718
        out(f"E1 handler(): {describe_exception(e)}")
    for n in range(len(FLAGS) + 1):
        for subset in itertools.combinations(FLAGS, n):
            if n == 0:
                continue
            write_config(subset, subset)
            for mode in [None, "raise, no-stop", "no-raise, stop, no-fail, print", "fail, no-print"]:
                with contextlib.redirect_stdout(io.StringIO()):
                    path = CsvPath()
                    c = f"~ validation-mode: {mode} ~" if mode else ""
                    path.parse(f"{c} $f.csv[*][yes()]")
                ecm = ErrorCommsManager(csvpath=path)
                out(
                    f"E1 {list(subset)} mode={mode}: raise={ecm.do_i_raise()} stop={ecm.do_i_stop()} "
                    f"fail={ecm.do_i_fail()} print={ecm.do_i_print()} csvpath.do_i_raise={path.do_i_raise()}"
                )
            with contextlib.redirect_stdout(io.StringIO()):
                cps = CsvPaths()
            ecm = ErrorCommsManager(csvpaths=cps)
            out(
                f"E1 {list(subset)} csvpaths: raise={ecm.do_i_raise()} stop={ecm.do_i_stop()} "
                f"fail={ecm.do_i_fail()} print={ecm.do_i_print()}"
            )
    # E2: ErrorHandler with a CsvPaths only
    for subset in [["raise"], ["collect"], ["raise", "collect"], ["print", "stop", "fail"], ["quiet", "collect"]]:
        write_config(["collect"], subset)
        buf = io.StringIO()
        with contextlib.redirect_stdout(buf):
            cps = CsvPaths()
            exc = None
            ex = ValueError("boom")
            ex.json = "{j}"
            ex.datum = "d"
            ex.message = "m"
            ex.trace = "t"
            ex.source = "s"
            try:
                ret = ErrorHandler(csvpaths=cps).handle_error(ex)
            except Exception as e:  # pylint: disable=W0718
                ret = None
                exc = describe_exception(e)
        out(f"E2 csvpaths policy={subset}: ret={ret} exc={exc} stdout={buf.getvalue()!r}")
        for e in cps.errors:
            out(f"      {describe_error(e)}")
            out(f"      to_json: {json.dumps(norm_json(e.to_json()), sort_keys=True)}")
            out(f"      str: {norm_text(str(e))!r}")
    # E3: _handle_if with a None error, build with a bare exception
    write_config(["collect", "print"])
    with contextlib.redirect_stdout(io.StringIO()):
        path = CsvPath()
        path.parse("$f.csv[*][yes()]")
    h = ErrorHandler(csvpath=path)
    try:
        h._handle_if(policy=["collect"], error=None)  # pylint: disable=W0212
    except Exception as e:  # pylint: disable=W0718
        out(f"E3 none error: {describe_exception(e)}")
    err = h.build(KeyError("k"))
    out(f"E3 build before run: {describe_error(err)}")
    out(f"E3 str: {norm_text(str(err))!r}")
    out(f"E3 errors before: {path.errors}")
    for pol in [[], ["collect"], ["collect", "print", "stop", "fail"], ["raise", "collect"], ["quiet"]]:
        buf = io.StringIO()
        exc = None
        with contextlib.redirect_stdout(buf):
            try:
                h._handle_if(policy=pol, error=err)  # pylint: disable=W0212
            except Exception as e:  # pylint: disable=W0718
                exc = describe_exception(e)
        out(
            f"E3 _handle_if policy={pol}: exc={exc} errors={len(path.errors or [])} "
            f"valid={path.is_valid} stopped={path.stopped} stdout={buf.getvalue()!r}"
        )
    # E4: Expression.handle_errors_if with 0, 1 and 3 queued errors
    for subset in [["collect"], ["collect", "print"], ["raise", "collect"], ["stop", "fail", "collect"], ["quiet"]]:
        write_config(subset)
        for mode in [None, "no-raise, print", "raise"]:
            buf = io.StringIO()
            with contextlib.redirect_stdout(buf):
                path = CsvPath()
                c = f"~ validation-mode: {mode} ~" if mode else ""
                path.parse(f'{c} $none.csv[*][yes() @a = add(1, 2) or(yes(), no())]')
                gen = path.next()
                first = next(gen)  # creates the matcher; we are now mid-run on line 0
            exprs = [e[0] for e in path.matcher.expressions]
            out(f"E4 policy={subset} mode={mode} expressions={len(exprs)}")
            for count in [0, 1, 3]:
                ex0 = exprs[count % len(exprs)]
                before = ex0.errors
                for i in range(count):
                    # the leaf-most descendant hands the error up to its expression
                    leaf = ex0
                    while leaf.children:
                        leaf = leaf.children[-1]
                    leaf.handle_error(ChildrenException(f"queued {count}/{i}"))
                queued = len(ex0.errors)
                exc = None
                with contextlib.redirect_stdout(buf):
                    try:
                        path.matcher.clear_errors()
                    except Exception as e:  # pylint: disable=W0718
                        exc = describe_exception(e)
                out(
                    f"   queued={queued} exc={exc} left={len(ex0.errors)} "
                    f"collected={[str(e.error) for e in (path.errors or [])]} "
                    f"valid={path.is_valid} stopped={path.stopped}"
                )
            out(f"   stdout={buf.getvalue()!r}")
    # E5: raise_if from nested components, do_i_raise on and off
    for subset in [["collect"], ["raise", "collect"]]:
        write_config(subset)
        with contextlib.redirect_stdout(io.StringIO()):
            path = CsvPath()
            path.parse('$none.csv[*][@v = add(subtract(5, 2), 1) not(empty(#a))]')
            gen = path.next()
            first = next(gen)
        for et in path.matcher.expressions:
            todo = [et[0]]
            while todo:
                m = todo.pop(0)
                todo += m.children
                exc = None
                try:
                    m.raise_if(ChildrenException(f"from {m}"), cause=ValueError("why"))
                except Exception as e:  # pylint: disable=W0718
                    exc = describe_exception(e)
                out(
                    f"E5 policy={subset} {type(m).__name__}: exc={exc} "
                    f"expression errors={[str(_) for _ in et[0].errors]} "
                    f"my_expression_is_root={m.my_expression is et[0]}"
                )
            et[0].errors = []
    # E6: Args.matches / ArgSet.matches with explicit actuals
    from csvpath.matching.functions.function import Function

    write_config(["collect"])
    for mode in [None, "match, no-raise", "raise, match", "no-match"]:
        with contextlib.redirect_stdout(io.StringIO()):
            path = CsvPath()
            c = f"~ validation-mode: {mode} ~" if mode else ""
            path.parse(
                f'{c} $none.csv[1*][@a = add(1, 2) @b = int.notnone(#a) @c = substring("abc", 1) not(empty(#a)) between(#a, 0, 9)]'
            )
            gen = path.next()
            first = next(gen)
        for et in path.matcher.expressions:
            todo = [et[0]]
            while todo:
                m = todo.pop(0)
                todo += m.children
                if not isinstance(m, Function) or m.args is None:
                    continue
                for actuals in [
                    [],
                    [1],
                    [1, 2],
                    [None],
                    [""],
                    ["x", 0],
                    [0, 0, 0],
                    [1, "y", 3.5, None],
                    [None, None],
                    ["abc", -1],
                ]:
                    for i, aset in enumerate(m.args.argsets):
                        try:
                            ms = aset.matches(actuals)
                        except Exception as e:  # pylint: disable=W0718
                            ms = describe_exception(e)
                        out(f"E6 mode={mode} {m.name} argset {i} {actuals!r}: {ms!r}")
                    exc = None
                    m.args.reset()
                    try:
                        m.args.matches(actuals)
                    except Exception as e:  # pylint: disable=W0718
                        exc = describe_exception(e)
                    out(
                        f"E6 mode={mode} {m.name} Args.matches {actuals!r}: exc={exc} "
                        f"args_match={m.args.args_match} matched={m.args.matched} "
                        f"expression errors={[str(_) for _ in et[0].errors]}"
                    )
                    et[0].errors = []


def main():
    write_files()
    section_a()
    section_b()
    section_c()
    section_d()
    section_e()
    sys.__stdout__.write("\n".join(OUT) + "\n")


if __name__ == "__main__":
    main()
