#!/venv/bin/python
"""
Differential demonstration for property C07:
  "collect(), next() and fast_forward() are the same run"

Run in an EMPTY scratch directory (it writes ./config, ./inputs, ./archive, ./logs, ./cache
and its csv files into the cwd):

    mkdir /tmp/demo && cd /tmp/demo && PYTHONPATH=<csvpath tree> /venv/bin/python demo.py > out.txt

The transcript printed on stdout is deterministic: run-directory timestamps, uuids,
wall-clock times, object addresses, tracebacks (which carry source line numbers) and
fingerprints of files that embed timestamps are normalised.
"""
import os
import re
import sys
import json
import shutil

CONFIG = """[csvpath_files]
extensions = txt, csvpath, csvpaths

[csv_files]
extensions = txt, csv, tsv, dat, tab, psv, ssv

[errors]
csvpath = collect, print
csvpaths = collect, print

[logging]
csvpath = info
csvpaths = info
log_file = logs/csvpath.log
log_files_to_keep = 100
log_file_size = 52428800

[config]
path = config/config.ini

[cache]
path = cache

[listeners]
[marquez]
base_url = http://localhost:5000

[functions]
imports = config/functions.imports

[results]
archive = archive
transfers = transfers

[inputs]
files = inputs/named_files
csvpaths = inputs/named_paths
on_unmatched_file_fingerprints = halt
"""

FILES = {
    # ordinary file
    "plain.csv": "a,b,c\n1,2,3\n4,5,6\n7,8,9\n10,11,12\n13,14,15\n",
    # blank lines in the middle, ragged rows, empty values, zeros
    "mixed.csv": "a,b,c\n1,2,3\n4,,6\n\n7,8\n9,10,11,12\n0,0,0\n,,\n3,0,\n",
    # the physical last line is blank (whitespace only line in the middle too)
    "blanklast.csv": "a,b,c\n1,2,3\n\n4,5,6\n3,3,3\n\n",
    # a single line
    "one.csv": "a,b,c\n",
    # two lines
    "two.csv": "a,b,c\n3,2,1\n",
    # quoted values with delimiters and empty strings
    "quoted.csv": 'a,b,c\n"x,y","",z\n"3","0","q ""r"""\n" ",0,0\n',
}

# (name, csvpath with FILE placeholder, CsvPath kwargs)
PATHS = [
    ("yes", "$FILE[*][yes()]", {}),
    ("no", "$FILE[*][no()]", {}),
    ("scan-from", "$FILE[2*][yes()]", {}),
    ("scan-range", "$FILE[1-3][@n=count_lines()]", {}),
    ("scan-these", "$FILE[1+3+4][@ln.onmatch=line_number()]", {}),
    ("scan-one", "$FILE[0][yes()]", {}),
    ("scan-past-end", "$FILE[40*][yes()]", {}),
    ("eq3", '$FILE[*][#a=="3"]', {}),
    ("eq0", '$FILE[1*][#b==0 @zeros.onmatch=count()]', {}),
    (
        "stop",
        '$FILE[*][@c=count_lines() print("seen $.csvpath.line_number") #a=="4" -> stop()]',
        {},
    ),
    ("stop-first", "$FILE[*][stop()]", {}),
    ("skip", '$FILE[*][#a=="4" -> skip() @after=line_number() yes()]', {}),
    ("advance1", '$FILE[*][@l=line_number() #a=="1" -> advance(1)]', {}),
    ("advance2", '$FILE[1*][push("seen", line_number()) advance(2)]', {}),
    ("advance-big", '$FILE[*][#a=="1" -> advance(100) @l=line_number()]', {}),
    (
        "last",
        '$FILE[*][@t=total_lines() last() -> print("last line is $.csvpath.line_number") last.nocontrib() -> @lastseen=line_number()]',
        {},
    ),
    ("last-only", "$FILE[*][last()]", {}),
    ("fail", '$FILE[*][#a=="4" -> fail() yes()]', {}),
    ("fail-stop", '$FILE[1*][#a=="4" -> fail_and_stop() @x=#a]', {}),
    (
        "print",
        '$FILE[*][print("$.csvpath.count_lines/$.csvpath.count_matches/$.csvpath.count_scans: $.headers.a|$.headers.b|$.variables.v") @v=#b]',
        {},
    ),
    ("print-onmatch", '$FILE[*][#c print.onmatch("match $.csvpath.match_count at $.csvpath.line_number")]', {}),
    ("limit", '$FILE[*][collect("a", 1) yes()]', {}),
    ("limit-c", '$FILE[1*][collect("c") yes()]', {}),
    ("limit-far", "$FILE[1*][collect(3) yes()]", {}),
    ("return-no-matches", '~ return-mode:no-matches ~ $FILE[*][#a=="4" @n=count()]', {}),
    ("unmatched-keep", '~ unmatched-mode:keep ~ $FILE[*][#a=="4"]', {}),
    (
        "unmatched-keep-limit",
        '~ unmatched-mode:keep ~ $FILE[*][collect("b") or(#a=="4", #a=="3")]',
        {},
    ),
    ("no-run", "~ run-mode:no-run ~ $FILE[*][yes() @x=1]", {}),
    ("logic-or", '~ logic-mode:OR ~ $FILE[*][#a=="4" #b=="2"]', {}),
    ("keep-blanks", "$FILE[*][yes() @n=count_lines()]", {"skip_blank_lines": False}),
    ("keep-blanks-no", '$FILE[*][#a=="3" @n=count_lines()]', {"skip_blank_lines": False}),
    ("error-add", '$FILE[1*][@x=add(#a, "z") yes()]', {}),
    ("error-unknown-header", '$FILE[1*][#nope=="3"]', {}),
    ("tally", "$FILE[1*][tally(#b) counter.k(2) @s=sum(#a)]", {}),
    ("first", "$FILE[1*][first(#b)]", {}),
    ("count-match", "$FILE[*][count()==2]", {}),
    ("after-blank", "$FILE[*][after_blank()]", {}),
    ("empty", "$FILE[1*][empty(#b)]", {}),
    ("every", "$FILE[*][every(#a, 2) @m=count()]", {}),
]


class CapturePrinter:
    """collects print() output so that it can be shown as part of the end state"""

    def __init__(self):
        self.lines = []
        self.last_line = None

    @property
    def lines_printed(self):
        return len(self.lines)

    def print(self, string):
        self.print_to(None, string)

    def print_to(self, name, string):
        self.last_line = string
        self.lines.append((name, string))


HEX = re.compile(r"0x[0-9a-f]+")
RUNDIR = re.compile(r"\d{4}-\d\d-\d\d_\d\d-\d\d-\d\d(\.\d+)?")
STAMP = re.compile(r"\d{4}-\d\d-\d\d[ T]\d\d:\d\d:\d\d(\.\d+)?(\+00:00)?")


def scrub(s):
    s = HEX.sub("0xADDR", f"{s}")
    s = RUNDIR.sub("<RUN>", s)
    s = STAMP.sub("<TIME>", s)
    return s


def show(*args):
    print(scrub(" ".join(f"{a}" for a in args)))
    sys.stdout.flush()


def errors_of(errors):
    if errors is None:
        return None
    out = []
    for e in errors:
        out.append(
            (
                e.line_count,
                e.match_count,
                e.scan_count,
                type(e.error).__name__,
                scrub(e.error),
                e.message,
                e.datum,
                e.filename,
            )
        )
    return out


def state(p, cap):
    lm = p.line_monitor
    show("   variables:", list(p.variables.items()))
    show(
        "   valid:", p.is_valid, "stopped:", p.stopped, "scan_count:", p.scan_count,
        "match_count:", p.match_count, "advance_count:", p.advance_count,
        "frozen:", p.is_frozen, "collecting:", p.collecting, "completed:", p.completed,
    )
    show("   line_monitor:", lm.dump())
    show("   has_errors:", p.has_errors(), "errors:", errors_of(p.errors))
    show("   unmatched:", p.unmatched)
    show("   lines attr:", type(p.lines).__name__, None if p.lines is None else len(p.lines))
    show("   limit_collection_to:", p.limit_collection_to)
    show(
        "   iteration finished (timing recorded):", p.total_iteration_time != -1,
        "matching timed:", p.last_row_time != -1, "run_started:", p.run_started_at is not None,
    )
    show("   metadata:", p.metadata)
    show("   printouts:", cap.lines)


def new_path(kwargs, policy=None):
    from csvpath import CsvPath

    p = CsvPath(**kwargs)
    cap = CapturePrinter()
    p.printers.append(cap)
    if policy is not None:
        p.config.csvpath_errors_policy = policy
    return p, cap


def guarded(label, fn):
    """runs fn; shows the return value or the exception"""
    try:
        r = fn()
        show(f"   {label} ->", r)
        return r
    except Exception as ex:  # pylint: disable=W0718
        show(f"   {label} !! {type(ex).__name__}: {ex}")
        return None


def run_three(title, path, kwargs, policy=None):
    show(f"## {title}: {path} {kwargs} policy={policy}")
    results = {}
    # collect
    p, cap = new_path(kwargs, policy)
    show("  [collect]")
    if guarded("parse", lambda: type(p.parse(path)).__name__) is not None:
        results["collect"] = guarded("collect()", p.collect)
    state(p, cap)
    # next
    p, cap = new_path(kwargs, policy)
    show("  [next]")
    if guarded("parse", lambda: type(p.parse(path)).__name__) is not None:

        def nexts():
            lines = []
            for line in p.next():
                lines.append(line[:])
                show(
                    "     yielded:", line, "at line", p.line_monitor.physical_line_number,
                    "match_count", p.match_count, "vars", list(p.variables.items()),
                )
            return lines

        results["next"] = guarded("next()", nexts)
    state(p, cap)
    # fast_forward
    p, cap = new_path(kwargs, policy)
    show("  [fast_forward]")
    if guarded("parse", lambda: type(p.parse(path)).__name__) is not None:
        guarded("fast_forward()", p.fast_forward)
    state(p, cap)
    show("  collect()==list(next()):", results.get("collect") == results.get("next"))
    return results.get("collect")


def run_nexts(title, path, kwargs, full, policy=None):
    n_matches = 0 if full is None else len(full)
    for n in range(0, n_matches + 2):
        p, cap = new_path(kwargs, policy)
        show(f"  [collect(nexts={n})] {title}")
        if guarded("parse", lambda: type(p.parse(path)).__name__) is None:
            continue
        got = guarded(f"collect(nexts={n})", lambda: p.collect(nexts=n))
        if full is not None and got is not None:
            show("   is prefix of collect():", got == full[: max(n, 1)])
        state(p, cap)


class Appender:
    """stands in for a LineSpooler: anything with append()"""

    def __init__(self):
        self.got = []

    def append(self, line):
        self.got.append(line)

    def __len__(self):
        return len(self.got)


def part_standalone():
    show("# PART 1: standalone CsvPath, every path against every file")
    for fname in FILES:
        for name, path, kwargs in PATHS:
            path = path.replace("FILE", fname)
            full = run_three(f"{fname}/{name}", path, kwargs)
            if name in (
                "yes", "eq3", "stop", "skip", "advance1", "advance2", "last", "fail", "print",
                "limit", "return-no-matches", "unmatched-keep", "keep-blanks", "error-add",
                "scan-these", "fail-stop", "print-onmatch",
            ):
                run_nexts(f"{fname}/{name}", path, kwargs, full)


def part_raise_policy():
    show("# PART 2: error policy with raise / stop / fail")
    for policy in (["raise", "collect", "stop", "fail", "print"], ["stop", "collect"], ["fail"], ["raise"]):
        for name in ("error-add", "error-unknown-header", "limit-far", "keep-blanks"):
            for fname in ("mixed.csv", "plain.csv"):
                path, kwargs = [(p, k) for n, p, k in PATHS if n == name][0]
                path = path.replace("FILE", fname)
                full = run_three(f"{fname}/{name}", path, kwargs, policy)
                run_nexts(f"{fname}/{name}", path, kwargs, full, policy)


def part_arguments():
    show("# PART 3: argument handling of collect() / next() / fast_forward()")
    path = '$mixed.csv[*][@n=count_lines() #a=="3" -> print("three")]'
    # csvpath string passed to the run method rather than parse()
    p, cap = new_path({})
    guarded("collect(csvpath)", lambda: p.collect(path))
    state(p, cap)
    p, cap = new_path({})
    guarded("collect(csvpath, nexts=1)", lambda: p.collect(path, nexts=1))
    state(p, cap)
    p, cap = new_path({})
    guarded("list(next(csvpath))", lambda: list(p.next(path)))
    state(p, cap)
    p, cap = new_path({})
    guarded("fast_forward(csvpath)", lambda: p.fast_forward(path))
    state(p, cap)
    # a second csvpath string is ignored once a scanner exists
    p, cap = new_path({})
    p.parse("$plain.csv[1-2][yes()]")
    guarded("collect(other csvpath) after parse", lambda: p.collect(path))
    state(p, cap)
    # nothing parsed and nothing passed
    for label, fn in (
        ("collect() unparsed", lambda q: q.collect()),
        ("fast_forward() unparsed", lambda q: q.fast_forward()),
        ("list(next()) unparsed", lambda q: list(q.next())),
        ("collect(None, nexts=2) unparsed", lambda q: q.collect(None, nexts=2)),
    ):
        p, cap = new_path({})
        guarded(label, lambda: fn(p))  # pylint: disable=W0640
        show("   collecting:", p.collecting, "lines attr:", type(p.lines).__name__)
    # bad nexts
    for n in (-2, -5):
        p, cap = new_path({})
        p.parse(path)
        guarded(f"collect(nexts={n})", lambda: p.collect(nexts=n))  # pylint: disable=W0640
        show("   collecting:", p.collecting, "lines attr:", type(p.lines).__name__)
        state(p, cap)
    p, cap = new_path({})
    guarded("collect(csvpath, nexts=-2) unparsed", lambda: p.collect(path, nexts=-2))
    show("   scanner set:", p.scanner is not None, "collecting:", p.collecting)
    # bad csvpath / missing file
    p, cap = new_path({})
    guarded("collect(missing file)", lambda: p.collect("$nothere.csv[*][yes()]"))
    p, cap = new_path({})
    guarded("collect(garbage)", lambda: p.collect("this is not a csvpath"))
    p, cap = new_path({})
    guarded("fast_forward(no filename)", lambda: p.fast_forward("$[*][yes()]"))
    # lines argument: a list, a list with content, an appender
    p, cap = new_path({})
    p.parse(path)
    mine = []
    got = guarded("collect(lines=[])", lambda: p.collect(lines=mine))
    show("   same object returned:", got is mine, "lines attr after:", type(p.lines).__name__)
    state(p, cap)
    p, cap = new_path({})
    p.parse("$plain.csv[1*][yes()]")
    mine = [["pre-existing"]]
    got = guarded("collect(lines=[[...]], nexts=2)", lambda: p.collect(lines=mine, nexts=2))
    show("   same object returned:", got is mine, "lines attr after:", type(p.lines).__name__)
    p, cap = new_path({})
    p.parse("$plain.csv[1*][yes()]")
    app = Appender()
    got = guarded("collect(lines=Appender)", lambda: type(p.collect(lines=app)).__name__)
    show("   appended:", app.got, "lines attr is appender:", p.lines is app)
    state(p, cap)
    p, cap = new_path({})
    p.parse("$plain.csv[1*][yes()]")
    app = Appender()
    got = guarded("collect(lines=Appender, nexts=3)", lambda: type(p.collect(lines=app, nexts=3)).__name__)
    show("   appended:", app.got, "lines attr is appender:", p.lines is app)
    state(p, cap)
    # the lines handed back are copies: mutating them does not touch anything else
    p, cap = new_path({})
    p.parse("~ unmatched-mode:keep ~ $plain.csv[*][#a==4]")
    got = p.collect()
    got[0].append("mutated")
    show("   mutated returned line:", got, "unmatched:", p.unmatched)


def part_partial_and_repeat():
    show("# PART 4: partially consumed next(), repeated runs on one instance")
    path = '$mixed.csv[*][@n=count_lines() print("at $.csvpath.line_number") last() -> @done="yes"]'
    for take in (0, 1, 2, 3, 50):
        p, cap = new_path({})
        p.parse(path)
        gen = p.next()
        got = []
        for _ in range(take):
            try:
                got.append(next(gen))
            except StopIteration:
                got.append("StopIteration")
                break
        gen.close()
        show(f"  [next() x{take} then close]", got)
        state(p, cap)
    # a stopped path, asked again
    p, cap = new_path({})
    p.parse('$plain.csv[*][@n=count_lines() #a=="4" -> stop()]')
    guarded("collect() first", p.collect)
    state(p, cap)
    guarded("collect() again on same instance", p.collect)
    state(p, cap)
    guarded("fast_forward() again on same instance", p.fast_forward)
    state(p, cap)
    # collect(nexts) twice: the second call starts a new iteration of the file
    p, cap = new_path({})
    p.parse("$plain.csv[*][@n=count_lines() yes()]")
    guarded("collect(nexts=2) first", lambda: p.collect(nexts=2))
    state(p, cap)
    guarded("collect(nexts=2) second", lambda: p.collect(nexts=2))
    state(p, cap)
    # fast_forward then collect
    p, cap = new_path({})
    p.parse("$two.csv[*][@n=count_lines() yes()]")
    guarded("fast_forward()", p.fast_forward)
    state(p, cap)
    guarded("collect() after fast_forward", p.collect)
    state(p, cap)
    # programmatic controls before the run
    p, cap = new_path({})
    p.parse("$plain.csv[*][@n=count_lines() yes()]")
    p.advance(2)
    guarded("collect() after advance(2)", p.collect)
    state(p, cap)
    p, cap = new_path({})
    p.parse("$plain.csv[*][@n=count_lines() yes()]")
    p.limit_collection_to = [2, 0]
    guarded("collect() with limit_collection_to=[2,0]", p.collect)
    state(p, cap)
    p, cap = new_path({})
    p.parse("$mixed.csv[*][@n=count_lines() yes()]")
    p.limit_collection_to = [2]
    guarded("collect() with limit_collection_to=[2] on ragged", p.collect)
    state(p, cap)
    p, cap = new_path({})
    p.parse("$plain.csv[*][yes()]")
    p.limit_collection_to = [None]
    guarded("collect() with limit_collection_to=[None]", p.collect)
    state(p, cap)
    p, cap = new_path({})
    p.parse("$plain.csv[*][@n=count_lines() yes()]")
    p.collect_when_not_matched = True
    guarded("fast_forward() with collect_when_not_matched", p.fast_forward)
    state(p, cap)
    p, cap = new_path({})
    p.parse("$plain.csv[*][@n=count_lines() yes()]")
    p.stop()
    guarded("collect() after stop()", p.collect)
    state(p, cap)
    # the helpers called by the run loop, directly
    p, cap = new_path({})
    p.parse('$blanklast.csv[*][@n=count_lines() last() -> @l="last"]')
    for line in (["a", "b", "c"], ["1", "2", "3"], [], ["4", "5", "6"], ["3", "3", "3"], []):
        p.track_line(line)
        r = p._consider_line(line)  # pylint: disable=W0212
        show(
            "   track_line/_consider_line", line, "->", repr(r), "blank-last:",
            p.line_monitor.is_last_line_and_blank(line), "vars:", list(p.variables.items()),
            "stopped:", p.stopped, "frozen:", p.is_frozen,
        )
    p.finalize()
    state(p, cap)
    from csvpath.util.line_monitor import LineMonitor

    lm = LineMonitor()
    show("   fresh monitor blank-last:", lm.is_last_line_and_blank([]), lm.is_last_line_and_blank(None), lm.is_last_line_and_blank(["x"]))
    lm.next_line(last_line=None, data=[])
    show("   one line, no end:", lm.is_last_line_and_blank([]), lm.is_last_line_and_blank(None))
    lm.set_end_lines_and_reset()
    lm.next_line(last_line=None, data=[])
    show("   at end:", lm.is_last_line_and_blank([]), lm.is_last_line_and_blank(None), lm.is_last_line_and_blank([""]), lm.is_last_line_and_blank(()), lm.dump())


# ------------------------------------------------------------------ CsvPaths

SCRUB_KEYS = {
    "trace", "at", "time", "uuid", "named_paths_uuid", "run_time", "run_started_at",
    "named_file_last_change", "lines_time", "last_line_time", "run_uuid",
}
STAMPED_FILES = {"meta.json", "errors.json", "manifest.json"}


def scrub_json(o, key=None):
    if isinstance(o, dict):
        out = {}
        for k, v in o.items():
            if k in SCRUB_KEYS:
                out[k] = "<scrubbed>" if v is not None else None
            elif k == "file_fingerprints" and isinstance(v, dict):
                out[k] = {
                    f: ("<scrubbed>" if f in STAMPED_FILES else h) for f, h in v.items()
                }
            else:
                out[k] = scrub_json(v, k)
        return out
    if isinstance(o, list):
        return [scrub_json(v) for v in o]
    if isinstance(o, str):
        return scrub(o)
    return o


def run_key(name):
    m = re.match(r"(\d{4}-\d\d-\d\d_\d\d-\d\d-\d\d)(?:\.(\d+))?$", name)
    if not m:
        return (name, 0)
    return (m.group(1), int(m.group(2) or 0))


def dump_tree(root):
    if not os.path.exists(root):
        show(f"   {root}: does not exist")
        return
    for base, dirs, files in os.walk(root):
        dirs.sort(key=run_key)
        for f in sorted(files):
            full = os.path.join(base, f)
            with open(full, "r", encoding="utf-8") as fh:
                text = fh.read()
            if f.endswith(".json"):
                try:
                    text = json.dumps(scrub_json(json.loads(text)), indent=1, sort_keys=False)
                except ValueError:
                    pass
            # number the run dirs by order so repeated runs stay distinguishable
            parts = []
            for seg in os.path.relpath(full, root).split(os.sep):
                parts.append(seg)
            show(f"   --- {root}/{'/'.join(parts)} ({len(text)} chars after scrubbing)")
            for ln in text.split("\n"):
                show("   |", ln)


def results_state(cp, name):
    try:
        results = cp.results_manager.get_named_results(name)
    except Exception as ex:  # pylint: disable=W0718
        show(f"   get_named_results !! {type(ex).__name__}: {ex}")
        return
    for r in results:
        p = r.csvpath
        try:
            lines = list(r.lines.next()) if hasattr(r.lines, "next") else r.lines
        except Exception as ex:  # pylint: disable=W0718
            lines = f"!! {type(ex).__name__}: {ex}"
        show(f"   result {p.identity}: lines:", lines)
        show("      len(lines):", None if r.lines is None else len(r.lines), "unmatched:", r.unmatched)
        show("      variables:", list(r.variables.items()) if r.variables else r.variables)
        show(
            "      valid:", r.is_valid, "stopped:", p.stopped, "scan:", p.scan_count, "match:",
            p.match_count, "advance:", p.advance_count, "frozen:", p.is_frozen, "completed:", p.completed,
        )
        show("      line_monitor:", p.line_monitor.dump())
        show("      errors:", errors_of(r.errors))
        show("      printouts:", r.get_printouts())


GROUPS = {
    "basic": [
        "~id:all~ $[*][yes()]",
        '~id:three~ $[*][#a=="3" @seen.onmatch=line_number()]',
        '~id:printer~ $[*][print("line $.csvpath.line_number: $.headers.b") last() -> print("done")]',
    ],
    "control": [
        '~id:stopper~ $[*][@n=count_lines() #a=="4" -> stop()]',
        '~id:skipper~ $[*][#a=="4" -> skip() @after=line_number()]',
        '~id:advancer~ $[1*][push("seen", line_number()) advance(1)]',
        '~id:failer~ $[*][#a=="4" -> fail() yes()]',
    ],
    "modes": [
        '~id:nomatch return-mode:no-matches~ $[*][#a=="4"]',
        '~id:keeper unmatched-mode:keep~ $[*][#a=="4"]',
        '~id:limited~ $[1*][collect("c", "a") yes()]',
        "~id:norun run-mode:no-run~ $[*][yes()]",
        '~id:nothing~ $[*][no() @n=count_lines()]',
    ],
    "errors": [
        '~id:adder~ $[1*][@x=add(#a, "z") yes()]',
        "~id:far~ $[1*][collect(3) yes()]",
        "~id:fine~ $[1*][yes()]",
    ],
    "alls": [
        '~id:one~ $[*][#a=="4" -> skip_all() @n=count_lines()]',
        '~id:two~ $[*][@m=count_lines() #a=="7" -> stop_all()]',
        "~id:three~ $[*][@k=count_lines() yes()]",
    ],
    "advall": [
        '~id:one~ $[*][#a=="1" -> advance_all(1) @n=count_lines()]',
        "~id:two~ $[*][@m=count_lines() yes()]",
    ],
}


def part_csvpaths():
    from csvpath import CsvPaths

    show("# PART 5: CsvPaths (archive written under ./archive)")
    methods = [
        ("collect_paths", lambda cp, kw: cp.collect_paths(**kw)),
        ("fast_forward_paths", lambda cp, kw: cp.fast_forward_paths(**kw)),
        ("next_paths", lambda cp, kw: [line[:] for line in cp.next_paths(**kw)]),
        ("next_paths(collect)", lambda cp, kw: [line[:] for line in cp.next_paths(collect=True, **kw)]),
        ("collect_by_line", lambda cp, kw: cp.collect_by_line(**kw)),
        ("collect_by_line(all agree)", lambda cp, kw: cp.collect_by_line(if_all_agree=True, **kw)),
        ("fast_forward_by_line", lambda cp, kw: cp.fast_forward_by_line(**kw)),
        ("next_by_line(collect)", lambda cp, kw: [line[:] for line in cp.next_by_line(collect=True, **kw)]),
    ]
    i = 0
    for fname in ("mixed.csv", "blanklast.csv", "plain.csv", "one.csv"):
        for gname, paths in GROUPS.items():
            if fname in ("plain.csv", "one.csv") and gname not in ("basic", "control"):
                continue
            for mname, method in methods:
                i += 1
                name = f"{gname}{i}"
                show(f"## {mname} {gname} on {fname} as named-paths {name}")
                cp = CsvPaths()
                cp.file_manager.add_named_file(name=f"f{i}", path=fname)
                cp.paths_manager.add_named_paths(name=name, paths=paths)
                guarded(mname, lambda: method(cp, {"filename": f"f{i}", "pathsname": name}))  # pylint: disable=W0640
                results_state(cp, name)
                dump_tree(os.path.join("archive", name))
    # repeated runs of the same named-paths: two run dirs
    show("## repeated collect_paths of the same named-paths")
    cp = CsvPaths()
    cp.file_manager.add_named_file(name="rep", path="plain.csv")
    cp.paths_manager.add_named_paths(name="rep", paths=GROUPS["control"])
    for _ in range(2):
        guarded("collect_paths", lambda: cp.collect_paths(filename="rep", pathsname="rep"))
        results_state(cp, "rep")
    guarded("fast_forward_paths", lambda: cp.fast_forward_paths(filename="rep", pathsname="rep"))
    results_state(cp, "rep")
    dump_tree(os.path.join("archive", "rep"))
    # raise policy in the group
    show("## csvpaths with raise in both policies")
    with open("config/config.ini", "w", encoding="utf-8") as fh:
        fh.write(
            CONFIG.replace("csvpath = collect, print", "csvpath = raise, collect, print").replace(
                "csvpaths = collect, print", "csvpaths = raise, collect"
            )
        )
    cp = CsvPaths()
    cp.file_manager.add_named_file(name="raiser", path="mixed.csv")
    cp.paths_manager.add_named_paths(name="raiser", paths=GROUPS["errors"])
    guarded("collect_paths", lambda: cp.collect_paths(filename="raiser", pathsname="raiser"))
    results_state(cp, "raiser")
    dump_tree(os.path.join("archive", "raiser"))
    with open("config/config.ini", "w", encoding="utf-8") as fh:
        fh.write(CONFIG)
    show("## archive/manifest.json")
    dump_tree_file = os.path.join("archive", "manifest.json")
    with open(dump_tree_file, "r", encoding="utf-8") as fh:
        for ln in json.dumps(scrub_json(json.load(fh)), indent=1).split("\n"):
            show("   |", ln)


def main():
    for d in ("config", "inputs", "archive", "logs", "cache", "transfers"):
        if os.path.exists(d):
            shutil.rmtree(d)
    os.makedirs("config")
    with open("config/config.ini", "w", encoding="utf-8") as fh:
        fh.write(CONFIG)
    with open("config/functions.imports", "w", encoding="utf-8") as fh:
        fh.write("")
    for name, content in FILES.items():
        with open(name, "w", encoding="utf-8") as fh:
            fh.write(content)
    part_standalone()
    part_raise_policy()
    part_arguments()
    part_partial_and_repeat()
    part_csvpaths()
    show("# END")


if __name__ == "__main__":
    main()
