#!/usr/bin/env python
"""Differential demonstration for property C06 ("lines are delivered as they are in
the file; headers are the first data line").

Run it twice with PYTHONPATH pointing first at unmodified HEAD and then at the
patched tree. It prints a deterministic transcript of everything observable;
the two transcripts must be byte-identical.

    PYTHONPATH=<tree> /venv/bin/python demo.py > out.txt

The script is self contained: it creates (and wipes) its own working directory,
writes an offline config/config.ini there and chdir()s into it before csvpath is
used. The working directory can be changed with the DEMO_WORK env var.
"""
import csv
import hashlib
import json
import os
import random
import re
import shutil
import sys

WORK = os.environ.get("DEMO_WORK", "/tmp/demo_TYC06_work")

CONFIG = """[csvpath_files]
extensions = txt, csvpath, csvpaths

[csv_files]
extensions = txt, csv, tsv, dat, tab, psv, ssv

[errors]
csvpath = raise, collect, stop, fail, print
csvpaths = raise, collect

[logging]
csvpath = debug
csvpaths = debug
log_file = logs/csvpath.log
log_files_to_keep = 100
log_file_size = 52428800

[config]
path = config/config.ini

[cache]
path = cache

[listeners]
[marquez]
base_url = http://localhost:5000

[functions]
imports = config/functions.imports

[results]
archive = archive
transfers = transfers

[inputs]
files = inputs/named_files
csvpaths = inputs/named_paths
on_unmatched_file_fingerprints = halt
"""

if os.path.exists(WORK):
    shutil.rmtree(WORK)
os.makedirs(os.path.join(WORK, "config"))
os.chdir(WORK)
with open("config/config.ini", "w", encoding="utf-8") as f:
    f.write(CONFIG)
with open("config/functions.imports", "w", encoding="utf-8") as f:
    f.write("")

from csvpath import CsvPath, CsvPaths  # noqa: E402
from csvpath.util.line_counter import LineCounter  # noqa: E402
from csvpath.util.file_readers import DataFileReader, CsvDataReader  # noqa: E402


def out(*args):
    print(*args)
    sys.stdout.flush()


def section(title):
    out("")
    out("=" * 10, title)


TS = re.compile(r"\d{4}-\d\d-\d\d[ T_]\d\d[-:]\d\d[-:]\d\d(?:[.,_]\d+)?(?:\+00:00|Z)?")
ADDR = re.compile(r"0x[0-9a-fA-F]+")
UUID = re.compile(
    r"[0-9a-f]{8}-[0-9a-f]{4}-[0-9a-f]{4}-[0-9a-f]{4}-[0-9a-f]{12}", re.IGNORECASE
)


TIMES = re.compile(r"'(lines_time|last_line_time)': [0-9.e+-]+")


# cache entry names hash the file's mtime
CACHEKEY = re.compile(r"cache/[0-9a-f]{64}")


def norm(s):
    s = TS.sub("<TS>", s)
    s = TIMES.sub(r"'\1': <T>", s)
    s = CACHEKEY.sub("cache/<KEY>", s)
    s = ADDR.sub("0xADDR", s)
    s = UUID.sub("<UUID>", s)
    s = s.replace(WORK, "<WORK>")
    return s


def errs(path):
    es = path.errors
    if es is None:
        return None
    return [(e.line_count, e.match_count, e.scan_count, norm(f"{e.message}")) for e in es]


def attempt(label, fn):
    try:
        r = fn()
        out(f"{label} -> {r!r}")
        return r
    except BaseException as e:  # pylint: disable=W0718
        out(f"{label} !! {type(e).__name__}: {norm(str(e))}")
        return None


def monitor(lm):
    return lm.dump() if lm is not None else None


def write_csv(name, rows, delimiter=",", quotechar='"'):
    with open(name, "w", newline="", encoding="utf-8") as file:
        w = csv.writer(file, delimiter=delimiter, quotechar=quotechar)
        for r in rows:
            w.writerow(r)
    return name


def expected_lines(rows):
    return [list(r) for r in rows if len(r) > 0]


# ----------------------------------------------------------------------------
# corpus
# ----------------------------------------------------------------------------
DIALECTS = [(",", '"'), (";", "'"), ("|", '"'), ("\t", "'"), (";", '"'), (",", "'")]
ALPHABET = [
    "a", "b", "Z", "0", "1", "7", " ", "  ", ",", ";", "|", "\t", "`", '"', "'", "\n",
    "é", "ß", "日本", " ", " ", "#", "$", ".", "-", "_", "\\", "٣", "½", "x y",
]


def random_cell(rnd):
    n = rnd.choice([0, 0, 1, 1, 2, 3, 5])
    return "".join(rnd.choice(ALPHABET) for _ in range(n))


def random_rows(rnd):
    rows = []
    for _ in range(rnd.randint(0, 12)):
        if rnd.random() < 0.2:
            rows.append([])
        else:
            rows.append([random_cell(rnd) for _ in range(rnd.randint(0, 6))])
    return rows


HAND = {
    "plain": [["a", "b", "c"], ["1", "2", "3"], ["4", "5", "6"]],
    "empty_file": [],
    "only_blank": [[], [], []],
    "leading_blank": [[], [], ["a", "b"], ["1", "2"], [], ["3", "4"]],
    "trailing_blank": [["a", "b"], ["1", "2"], [], []],
    "ragged": [["a", "b", "c", "d"], ["1"], ["1", "2"], ["1", "2", "3", "4", "5", "6"], ["0"]],
    "header_only": [["only", "headers", "here"]],
    "one_cell": [["x"]],
    "empty_strings": [["a", "b", "c"], ["", "", ""], ["", "0", ""], ["0", "", "0"]],
    "dirty_headers": [
        [" a ", "b;", ",c", "d|e", "\tf\t", "`g`"],
        [" 1 ", "2;", ",3", "4|5", "\t6\t", "`7`"],
    ],
    "dup_headers": [["a", "b", "a", "b "], ["1", "2", "3", "4"], ["5", "6", "7", "8"]],
    "quoted": [
        ["say", "what,now", 'he said "hi"', "it's"],
        ["a,b;c|d\te", 'x"y', "l1\nl2", "'q'"],
        ['"', "'", ",", ";"],
    ],
    "unicode": [["名前", "größe", "naïve"], ["日本語", "ẞ", "🙂"], [" x ", " ", "٣"]],
    "numeric_headers": [["0", "1", "2"], ["a", "b", "c"], ["d", "e"]],
    "spaces": [["first name", "last name"], ["  Ada ", " Lovelace"], ["", " "]],
    "single_empty_cell_rows": [["a"], [""], ["b"], [""]],
    "zero": [["n", "m"], ["0", "0.0"], ["00", "-0"], ["0", ""]],
}


def corpus():
    rnd = random.Random(60606)
    items = []
    i = 0
    for name, rows in HAND.items():
        for d, q in DIALECTS[: 4 if name in ("quoted", "ragged", "dirty_headers") else 2]:
            i += 1
            items.append((f"h{i:03d}_{name}.csv", rows, d, q))
    for k in range(40):
        d, q = DIALECTS[k % len(DIALECTS)]
        items.append((f"r{k:03d}.csv", random_rows(rnd), d, q))
    return items


# ----------------------------------------------------------------------------
# A. LineCounter.clean_headers
# ----------------------------------------------------------------------------
section("A. LineCounter.clean_headers")
for hs in [
    [],
    ["a", "b"],
    [" a ", "b;", ",c", "d|e", "\tf\t", "`g`", ";,|\t`", " ; ", "; a ;"],
    ["", " ", "\n", "\r\n x \r\n", " a ", " "],
    ["a b", "a  b", "a\tb", "a\nb", "a,b;c|d`e"],
    ["日本", "é;è", "٣", "🙂|🙂"],
    ("t", " u "),
    ["x" * 1000 + ";" * 10],
    ["a", 1],
    [None],
    [0],
    [b"ab"],
    [["a"]],
]:
    attempt(f"clean_headers({hs!r})", lambda hs=hs: LineCounter.clean_headers(hs))
keep = ["a;", "b"]
res = LineCounter.clean_headers(keep)
out("input untouched:", keep, "result:", res, "same object:", res is keep)
out("via instance:", LineCounter(None).clean_headers([" q|"]))

# ----------------------------------------------------------------------------
# B. readers and C. LineCounter.get_lines_and_headers over the corpus
# ----------------------------------------------------------------------------
section("B/C. DataFileReader + LineCounter over the corpus")
ITEMS = corpus()
for name, rows, d, q in ITEMS:
    write_csv(name, rows, d, q)
    out(f"--- {name} delimiter={d!r} quotechar={q!r} rows={rows!r}")
    reader = DataFileReader(name, delimiter=d, quotechar=q)
    out("reader:", type(reader).__name__, reader.path)
    got = attempt("reader.next()", lambda: list(reader.next()))
    out("reader returns records exactly:", got == [list(r) for r in rows])
    got2 = list(reader.next())
    out("second iteration identical:", got2 == got)
    holder = CsvPath(delimiter=d, quotechar=q)

    def count():
        lm, headers = LineCounter(holder).get_lines_and_headers(name)
        return monitor(lm), headers

    attempt("get_lines_and_headers", count)

section("B2. reader defaults and errors")
write_csv("defaults.csv", [["a", "b"], ["1,2", "3"]])
attempt("default dialect", lambda: list(DataFileReader("defaults.csv").next()))
attempt(
    "explicit None dialect",
    lambda: list(DataFileReader("defaults.csv", delimiter=None, quotechar=None).next()),
)
attempt("CsvDataReader direct", lambda: list(CsvDataReader("defaults.csv").next()))
attempt("CsvDataReader with sheet", lambda: CsvDataReader("defaults.csv", sheet="s"))
attempt("hash in csv path", lambda: list(DataFileReader("defaults.csv#sheet").next()))
attempt("missing file", lambda: list(DataFileReader("nope.csv").next()))
attempt(
    "LineCounter missing file",
    lambda: LineCounter(CsvPath()).get_lines_and_headers("nope.csv"),
)
attempt("bad delimiter", lambda: list(DataFileReader("defaults.csv", delimiter=";;").next()))
for weird in [
    "defaults.csv#",
    "#defaults.csv",
    "#",
    "defaults.csv#a#b",
    "a#defaults.csv",
    "missing.xlsx",
    "missing.xlsx#Sheet2",
    "book.xlsx#book.xlsx",
    "",
    None,
    5,
    b"defaults.csv",
]:
    def construct(weird=weird):
        r = DataFileReader(weird, delimiter=";", quotechar="'")
        return (
            type(r).__name__,
            r.path,
            getattr(r, "_sheet", "<no sheet>"),
            getattr(r, "_delimiter", None),
            getattr(r, "_quotechar", None),
        )

    attempt(f"DataFileReader({weird!r})", construct)
attempt("read 'defaults.csv#'", lambda: list(DataFileReader("defaults.csv#").next()))
attempt("CsvDataReader('a#b.csv')", lambda: CsvDataReader("a#b.csv"))
g = DataFileReader("defaults.csv").next()
out("partial iteration:", next(g))
g.close()

# ----------------------------------------------------------------------------
# D. standalone CsvPath over the corpus
# ----------------------------------------------------------------------------
section("D. CsvPath over the corpus")


def run_collect(name, d, q, csvpath, **kw):
    p = CsvPath(delimiter=d, quotechar=q, **kw)
    lines = None
    try:
        p.parse(csvpath)
        lines = p.collect()
        out(f"  collect {csvpath!r} -> {lines!r}")
    except BaseException as e:  # pylint: disable=W0718
        out(f"  collect {csvpath!r} !! {type(e).__name__}: {norm(str(e))}")
    out(
        "   state:",
        "headers=", attempt_quiet(lambda: p.headers),
        "valid=", p.is_valid,
        "stopped=", p.stopped,
        "vars=", p.variables,
        "errors=", errs(p),
        "counts=", (p.scan_count, p.match_count),
        "limit=", p.limit_collection_to,
        "lm=", attempt_quiet(lambda: monitor(p.line_monitor)),
    )
    return p, lines


def attempt_quiet(fn):
    try:
        return fn()
    except BaseException as e:  # pylint: disable=W0718
        return f"!! {type(e).__name__}: {norm(str(e))}"


for name, rows, d, q in ITEMS:
    out(f"--- {name} delimiter={d!r} quotechar={q!r}")
    p, lines = run_collect(name, d, q, f"${name}[*][yes()]")
    out("   lines are the file's non-blank records:", lines == expected_lines(rows))
    first = next((r for r in rows if len(r) > 0), [])
    out("   headers are the cleaned first record:", p.headers == LineCounter.clean_headers(first))
    # every header by index and (when the grammar allows) by name
    hs = p.headers or []
    for i, h in enumerate(hs[:6]):
        out(f"   header_index({h!r}) = {p.header_index(h)!r}")
        parts = [f"@i = #{i}"]
        if re.fullmatch(r"[a-zA-Z][a-zA-Z0-9_.\-]*", h or ""):
            parts.append(f"@n = #{h}")
        elif re.fullmatch(r"[a-zA-Z0-9 _.\-]+", h or "") and h.strip() == h:
            parts.append(f'@n = #"{h}"')
        parts.append(f"@x = #{i + 7}")
        pp = CsvPath(delimiter=d, quotechar=q)
        try:
            pp.parse(f"${name}[*][ {' '.join(parts)} ]")
            for line in pp.next():
                out(f"     #{i}/{h!r}: line={line!r} vars={pp.variables!r}")
        except BaseException as e:  # pylint: disable=W0718
            out(f"     #{i}/{h!r} !! {type(e).__name__}: {norm(str(e))}")
        out(f"     valid={pp.is_valid} errors={errs(pp)}")
    out("   header_index(None/''/missing):", p.header_index(None), p.header_index(""), p.header_index("no such"))
    # scanning subsets and fast_forward
    run_collect(name, d, q, f"${name}[1*][yes()]")
    run_collect(name, d, q, f"${name}[0-2][yes()]")
    run_collect(name, d, q, f"${name}[1+3+5][count_headers_in_line() == count_headers()]")
    run_collect(name, d, q, f"${name}[*][collect(0)]")
    run_collect(name, d, q, f"${name}[*][collect(1, 0)]")
    run_collect(name, d, q, f"${name}[*][#1 collect(1)]")
    ff = CsvPath(delimiter=d, quotechar=q)
    try:
        ff.parse(
            f"${name}[*][ @c = count_lines() @h = count_headers() @e = end() "
            "@l.onmatch = line_number() last() -> @last = line_number() ]"
        )
        ff.fast_forward()
    except BaseException as e:  # pylint: disable=W0718
        out(f"   fast_forward !! {type(e).__name__}: {norm(str(e))}")
    out("   fast_forward vars:", ff.variables, "valid:", ff.is_valid, "errors:", errs(ff))

# ----------------------------------------------------------------------------
# E. named headers, short rows, functions that use header lookups
# ----------------------------------------------------------------------------
section("E. header lookups on crafted files")
write_csv(
    "people.csv",
    [
        ["firstname", "lastname", "say", "n"],
        ["David", "Kermit", "hi, there", "0"],
        [],
        ["Fish"],
        ["Frog", "Bat", "ribbit...", "1", "surplus"],
        ["", "", "", ""],
        ["Ants", "Bat"],
        [],
    ],
)
PATHS = [
    "$people.csv[*][@f = #firstname @l = #lastname @s = #say @z = #n @four = #4 @nine = #9]",
    "$people.csv[*][#say]",
    "$people.csv[*][not(#say)]",
    "$people.csv[*][#0 == #firstname #1 == #lastname]",
    "$people.csv[*][#nope]",
    "$people.csv[*][not(#nope)]",
    "$people.csv[*][#n.asbool]",
    "$people.csv[*][@b.asbool = #n exists(#lastname)]",
    '$people.csv[*][#lastname == "Bat"]',
    '$people.csv[*][#1 == "Bat" collect("firstname", 1)]',
    '$people.csv[*][collect("say")]',
    '$people.csv[1*][collect("nope")]',
    "$people.csv[*][collect(4)]",
    '$people.csv[1][collect("firstname", "firstname", 0)]',
    '$people.csv[*][@hn = header_name(1) @hi = header_index("say") @hx = header_name(9) @hy = header_index("zz")]',
    "$people.csv[*][header_name(0, \"firstname\") header_index(\"say\", 2)]",
    '$people.csv[*][header_names_mismatch("firstname|lastname|say|n")]',
    '$people.csv[*][header_names_mismatch("lastname|firstname|x")]',
    "$people.csv[*][@ch = count_headers() @cl = count_headers_in_line() @e = end() @e1 = end(1)]",
    '$people.csv[*][replace(#say, "quiet")]',
    '$people.csv[1][replace(0, upper(#firstname)) replace("n", 7)]',
    '$people.csv[*][append("new", "x")]',
    '$people.csv[*][append("new", #firstname) collect("firstname", "new")]',
    "$people.csv[*][line_number() == 4 -> reset_headers() @a = #Frog @b = #firstname @c = #0]",
    "$people.csv[*][line_number() == 4 -> reset_headers() collect(\"Bat\")]",
    "$people.csv[*][line_number() == 3 -> reset_headers(print(\"reset at $.csvpath.line_number: $.csvpath.headers\")) @v = #Fish]",
    "$people.csv[*][print(\"$.csvpath.line_number: $.headers.firstname / $.headers.1 / $.headers.say / $.headers.nope\")]",
    "$people.csv[*][print_line()]",
    "$people.csv[*][line_number() == 1 -> advance(2) @ln = line_number()]",
    "$people.csv[*][line_number() == 3 -> stop() yes()]",
    "$people.csv[*][line_number() == 3 -> skip() @seen = line_number()]",
    "$people.csv[*][last() -> print(\"last: $.csvpath.line_number $.csvpath.total_lines\")]",
    "$people.csv[*][all(#firstname, #lastname, #say)]",
    "$people.csv[*][missing(#say)]",
    "$people.csv[*][empty(#say)]",
    "$people.csv[*][line(string.notnone(#firstname), string(#lastname), string(#say), int(#n))]",
    "$people.csv[*][line(string(#firstname), string(#lastname), string(#say), int(#n), wildcard())]",
    "~ return-mode: no-matches ~ $people.csv[*][#say]",
    "~ unmatched-mode: keep ~ $people.csv[*][#say collect(0)]",
    "~ validation-mode: no-raise, no-stop, collect ~ $people.csv[*][collect(\"nope\")]",
    "$people.csv[*][@t = total_lines() @d = count_lines() first(#lastname) has_dups(#lastname)]",
]
for cp in PATHS:
    p, _ = run_collect("people.csv", ",", '"', cp)
    if p.unmatched:
        out("   unmatched:", p.unmatched)

section("E2. skip_blank_lines=False, frozen reuse, collect(nexts), next()")
write_csv("noblank.csv", [["a", "b"], ["1", "2"], ["3"]])
run_collect("noblank.csv", ",", '"', "$noblank.csv[*][yes()]", skip_blank_lines=False)
run_collect("people.csv", ",", '"', "$people.csv[*][yes()]", skip_blank_lines=False)
p = CsvPath()
p.parse("$people.csv[*][#lastname]")
attempt("collect(nexts=1)", lambda: p.collect(nexts=1))
attempt("collect again on same instance", p.collect)
attempt("collect(nexts=-2)", lambda: CsvPath().collect("$people.csv[*][yes()]", nexts=-2))
p = CsvPath()
p.parse("$people.csv[*][@x = #say]")
for i, line in enumerate(p.next()):
    line.append("mutated by caller")
    out("next:", i, line, p.variables, p.matcher.line, monitor(p.line_monitor))
out("get_total_lines:", p.get_total_lines(), "headers:", p.headers)
p = CsvPath()
attempt("headers without a file", lambda: p.headers)
attempt("header_index without a file", lambda: p.header_index("a"))
attempt("get_total_lines_and_headers without a file", p.get_total_lines_and_headers)

section("E3. CsvPath.limit_collection / header_index / Matcher.header_index direct")
p = CsvPath()
p.parse("$people.csv[*][#firstname]")
p.fast_forward()
out("headers:", p.headers)
LINE = ["a", "b", "c"]
for lim in [[], [0], [2, 0], [1, 1, 1], [3], [0, 3], [None], [0, None], [-1], [True], [0.0]]:
    p._limit_collection_to = lim  # the setter only adds a log line
    got = attempt(f"limit_collection({LINE!r}) limit={lim!r}", lambda: p.limit_collection(LINE))
    out("   same object as input:", got is LINE)
p._limit_collection_to = [0]
attempt("limit_collection([])", lambda: p.limit_collection([]))
attempt("limit_collection(None)", lambda: p.limit_collection(None))
p._limit_collection_to = []
attempt("limit_collection(None) no limit", lambda: p.limit_collection(None))
for n in ["firstname", "say", " say", "SAY", "", None, 0, 2, "2", "nope", ["say"]]:
    attempt(f"CsvPath.header_index({n!r})", lambda n=n: p.header_index(n))
    attempt(f"Matcher.header_index({n!r})", lambda n=n: p.matcher.header_index(n))
for i in [0, 3, 4, -1]:
    attempt(f"Matcher.header_name({i!r})", lambda i=i: p.matcher.header_name(i))
p.headers = ["x", "x", "y"]
out("after headers setter:", p.header_index("x"), p.header_index("y"), p.matcher.header_index("y"))
p.headers = []
out("empty headers:", p.header_index("x"), p.matcher.header_index("x"))

section("E4. Header production direct")
from csvpath.matching.productions.header import Header  # noqa: E402

p = CsvPath()
p.parse("$people.csv[*][#firstname]")
p.fast_forward()
m = p.matcher
for hline in (["x", "y", "z", "w"], ["x", " y "], ["x"], [], None, ("t", "u", "v")):
    m.line = hline
    for hname in ["0", "1", "3", "4", "٣", "007", "firstname", "say", " say ", "nope", "", "9" * 5000, None, 1, True]:
        shown = repr(hname) if len(repr(hname)) < 30 else "<5000 nines>"
        try:
            h = Header(m, name=hname)
        except BaseException as e:  # pylint: disable=W0718
            out(f"  line={hline!r} Header({shown}) !! {type(e).__name__}: {str(e)[:90]}")
            continue
        out(
            f"  line={hline!r} #{shown}:",
            "value=", attempt_quiet(h.to_value),
            "again=", attempt_quiet(h.to_value),
            "match=", attempt_quiet(h.matches),
            "skipped=", attempt_quiet(lambda: h.to_value(skip=[h])),
        )
        h.reset()
        h.asbool = True
        out("     asbool:", attempt_quiet(h.to_value), attempt_quiet(h.matches))
    # a header whose name was set to an int after construction
    for k in [0, 1, 5, -1, True]:
        h = Header(m, name="0")
        h.name = k
        out(f"  line={hline!r} name set to {k!r}:", attempt_quiet(h.to_value), attempt_quiet(h.matches))
m.line = ["x"]
p.headers = []
out("  no headers:", attempt_quiet(Header(m, name="firstname").to_value), attempt_quiet(Header(m, name="0").to_value))
p.headers = None
p.scanner.filename = None
out("  headers None and no file:", attempt_quiet(Header(m, name="firstname").to_value))

# ----------------------------------------------------------------------------
# F. CsvPaths: named files, archive contents, repeated runs (cache)
# ----------------------------------------------------------------------------
section("F. CsvPaths")


def dump_tree(root):
    if not os.path.exists(root):
        out(f"  <no {root}>")
        return
    for base, dirs, files in os.walk(root):
        dirs.sort()
        for fname in sorted(files):
            path = os.path.join(base, fname)
            out("  file:", norm(path))
            if fname in ("data.csv", "unmatched.csv", "printouts.txt", "vars.json"):
                with open(path, "r", encoding="utf-8", newline="") as file:
                    out("    " + repr(norm(file.read())))
            elif fname == "errors.json":
                # the stack trace has source paths and line numbers of the
                # package itself; everything else is printed
                with open(path, "r", encoding="utf-8") as file:
                    j = json.load(file)
                for e in j:
                    if isinstance(e, dict) and "trace" in e:
                        e["trace"] = "<trace>" if e["trace"] else e["trace"]
                out("    " + norm(json.dumps(j, sort_keys=True)))
            elif fname in ("meta.json", "manifest.json"):
                with open(path, "r", encoding="utf-8") as file:
                    try:
                        j = json.load(file)
                    except ValueError:
                        out("    <not json>")
                        continue
                out("    keys:", sorted(j.keys()) if isinstance(j, dict) else f"list of {len(j)}")
                if isinstance(j, dict) and "runtime_data" in j:
                    rd = j["runtime_data"]
                    out("    runtime_data:", {k: rd[k] for k in sorted(rd) if k in ("lines_collected", "valid", "stopped", "count_lines", "count_matches", "count_scans", "headers", "total_lines", "lines_count", "unmatched_count", "line_numbers")})


def dump_results(cps, pathsname):
    for r in cps.results_manager.get_named_results(pathsname):
        ls = r.lines
        try:
            ls = list(ls.next()) if hasattr(ls, "next") else (ls if ls is None else list(ls))
        except BaseException as e:  # pylint: disable=W0718
            ls = f"!! {type(e).__name__}: {e}"
        out(
            "  result:", r.csvpath.identity,
            "lines=", ls,
            "headers=", r.csvpath.headers,
            "vars=", r.csvpath.variables,
            "valid=", r.csvpath.is_valid,
            "errors=", [(e.line_count, norm(f"{e.message}")) for e in (r.errors or [])],
            "printouts=", r.printouts,
            "unmatched=", attempt_quiet(lambda: list(r.unmatched) if r.unmatched is not None else None),
        )


GROUP = [
    "~ id: all ~ $[*][yes()]",
    '~ id: bats ~ $[*][#lastname == "Bat" print("$.csvpath.line_number: $.headers.firstname")]',
    '~ id: narrow ~ $[*][#say collect("say", 0)]',
    "~ id: unm unmatched-mode:keep ~ $[*][#say]",
    "~ id: short ~ $[*][@s = #say @nine = #9 not(#say)]",
    '~ id: reset ~ $[*][line_number() == 4 -> reset_headers() @b = #Bat]',
]
write_csv("semi.csv", HAND["quoted"], ";", "'")
for label, kw, fname in [
    ("default dialect", {}, "people.csv"),
    ("semicolon dialect", {"delimiter": ";", "quotechar": "'"}, "semi.csv"),
]:
    for method in ["collect_paths", "fast_forward_paths", "collect_by_line", "next_paths", "next_by_line", "collect_paths"]:
        out(f"--- {label}: {method}")
        cps = CsvPaths(**kw)
        cps.file_manager.add_named_file(name="f", path=fname)
        paths = GROUP if fname == "people.csv" else ["~ id: all ~ $[*][yes()]", "~ id: one ~ $[*][collect(1)]", "~ id: hdr ~ $[*][@a = #say @b = #1 @c = #7]"]
        cps.paths_manager.add_named_paths(name="grp", paths=paths)
        try:
            m = getattr(cps, method)
            if method.startswith("next"):
                for line in m(filename="f", pathsname="grp"):
                    out("  yielded:", line)
            else:
                r = m(filename="f", pathsname="grp")
                if r is not None:
                    out("  returned:", r)
        except BaseException as e:  # pylint: disable=W0718
            out(f"  !! {type(e).__name__}: {norm(str(e))}")
        attempt_quiet(lambda: dump_results(cps, "grp"))
        out("  cacher headers:", attempt_quiet(lambda: cps.file_manager.cacher.get_original_headers(fname)))
        out("  cacher monitor:", attempt_quiet(lambda: monitor(cps.file_manager.cacher.get_new_line_monitor(fname))))
        out("  errors:", [norm(f"{e.message}") for e in (cps.errors or [])])

out("--- a group with a csvpath that cannot narrow a short line")
cps = CsvPaths()
cps.file_manager.add_named_file(name="f", path="people.csv")
cps.paths_manager.add_named_paths(
    name="bad",
    paths=["~ id: ok ~ $[*][yes()]", '~ id: short unmatched-mode:keep ~ $[*][#say collect("say", 0)]', "~ id: after ~ $[*][#0]"],
)
attempt("collect_paths", lambda: cps.collect_paths(filename="f", pathsname="bad"))
dump_results(cps, "bad")
out("  errors:", [norm(f"{e.message}") for e in (cps.errors or [])])

out("--- a file rewritten between runs is recounted")
write_csv("changing.csv", [["a", "b"], ["1", "2"]])
for rows in [None, [["x;", "y", "z"], [], ["1"], ["2", "3", "4"]]]:
    if rows is not None:
        write_csv("changing.csv", rows)
    cps = CsvPaths()
    cps.file_manager.add_named_file(name="chg", path="changing.csv")
    cps.paths_manager.add_named_paths(name="chgp", paths=["$[*][yes()]"])
    attempt("collect_paths", lambda: cps.collect_paths(filename="chg", pathsname="chgp"))
    dump_results(cps, "chgp")

section("G. files on disk")
dump_tree("archive")
out("  cache files:", len(os.listdir("cache")) if os.path.exists("cache") else None)
ENTRIES = []
for fname in os.listdir("cache") if os.path.exists("cache") else []:
    # entry names are hashes of path+size+mtime, so order them by content
    with open(os.path.join("cache", fname), "r", encoding="utf-8", newline="") as file:
        ENTRIES.append((fname.split(".")[-1], file.read()))
for ext, text in sorted(ENTRIES):
    out("  cache entry:", ext, repr(text))

section("H. log")
LOG = "logs/csvpath.log"
VOLATILE = re.compile(r" took |Iteration time|per line|Raw parse tree|match part hash")
if os.path.exists(LOG):
    kept = []
    in_trace = False
    with open(LOG, "r", encoding="utf-8") as file:
        for line in file:
            line = norm(line.rstrip("\n"))
            if line.startswith("<TS> - "):
                line = line[len("<TS> - "):]
            if VOLATILE.search(line):
                continue
            # stack frames carry the package's location, line numbers and source
            # text; keep the Traceback marker and the exception line only
            if in_trace and line.startswith("  "):
                continue
            in_trace = line.endswith("Traceback (most recent call last):")
            kept.append(line)
    out("log lines:", len(kept))
    out("log digest:", hashlib.sha256("\n".join(kept).encode("utf-8")).hexdigest())
    with open("normalised.log", "w", encoding="utf-8") as file:
        file.write("\n".join(kept))
    for line in kept:
        if " - WARNING - " in line or " - ERROR - " in line or "Header.to_value" in line:
            out("  ", line)
else:
    out("no log file")
out("done")
